"""Translator plug-in: `cij/core/full_modulus.py` (class FullThermalElasticModulus, EVERY def) and
`Calculator._calculate_pressure_static` of `cij/core/calculator.py`
    -> lean/Generated/FullModulusGlue.lean   (the methods as statement lists over expression trees)
    -> lean/Generated/FullModulusSpec.lean   (default orders, degree offset, "bodies canonical": the four definitions formerly
                                              emitted by gen_tables.gen_fullmodulus_spec from textual pins, now computed from the trees)

Everything is read from the working tree (`T.REPO`) with `ast`; cij is never imported.  Docstrings and type annotations are
stripped first; comments, blank lines, quoting, line breaks never matter.  Local variables (everything a function binds that is not
a parameter: assignment targets, loop variables) are renamed `_l0, _l1, …` in order of first binding, so how a local is spelled
never matters; parameters keep their names (they are part of the interface).  Names of library functions are resolved through the
import statements of the module (`_from_gpa` further through `cij/util/__init__.py` to `cij.util.units._from_gpa`; its unit
expressions are translated by static_src.py into Generated.staticUnitHelpers).

Types and meaning of the output: lean/CijModel/FullModulusGlue.lean.  Consumed by lean/CijProofs/Lemmas/FullModulusGlueSource.lean
and the `c05_glue_is_source_*` theorems of Properties/C05.lean: the hand-written model of CijModel/FullModulus.lean IS the
interpretation of these trees, for all inputs.

NOTHING is compared as text.  A statement or expression outside the grammar below raises TieBroken naming the method.

Grammar (expressions): `self.a.b…`; parameters; locals; non-negative integer and string literals; unary minus; `+ - * /`;
`a[<int>]`; `a[<name or string>]`; `a.shape[<int>]`; `len(a)`; `a == b`; `"s" in a`; `a[nax, :]`; `a[:, i]`; `a[k:]`; `a[:-k]`;
`a[[0, *range(len(a)), -1]]`; `numpy.zeros((r, c))` / `numpy.ones((r, c))` without dtype; `numpy.sum(a, axis=1, keepdims=True)`;
`[v.<attr> for v in it]`, `[v.<attr>[k] for v in it]`; `tuple(x / d for x in s)`; 3-tuples; calls of imported functions / `sum`
with 1–4 positional arguments (`numpy.polyfit(x, y, deg=…)`, `polynomial_least_square_fitting(…, order=…)`: the one keyword moved to
its position); `self.m(…)` with up to two arguments (keywords moved to their positions through the callee's signature);
`self.<attr>.<m>()`.
Grammar (statements): `<local> = e`; `<local> = dict()`; `self.<attr> = e`; `logging.debug(<string literals, +, repr/str, self.m()>)`;
`self.m()`; `self.<attr>.<m>(args…)`; `if isinstance(v, tuple): _, v = v`; `if c: [<local> = e]* return e` (no else);
`for v in range(<int>)` / `for v in e` with a body of `<local> = e`, `<local>[:, i] = e`, `<local>[k] = e`; `return e` as the last
statement.
"""
import ast
import copy
import os
import warnings

import gen_tables as T

FM = "cij/core/full_modulus.py"
CALC = "cij/core/calculator.py"
UTIL = "cij/util/__init__.py"
CLASS = "FullThermalElasticModulus"
BUILTINS = {"len", "sum", "tuple", "range", "repr", "str", "dict", "isinstance"}


def q(s):
    return T.lean_str(s)


def src(n):
    return ast.unparse(n) if isinstance(n, ast.AST) else str(n)


def lstrs(xs):
    return "[" + ", ".join(q(x) for x in xs) + "]"


def doc(s):
    return s.replace("/-", "/ -").replace("-/", "- /")


# ------------------------------------------------------------------------------------------------ normalisation
def _nodoc(body):
    body = [s for s in body if s is not None]
    if body and isinstance(body[0], ast.Expr) and isinstance(body[0].value, ast.Constant) and isinstance(body[0].value.value, str):
        body = body[1:]
    return body or [ast.Pass()]


class _Strip(ast.NodeTransformer):
    """docstrings and annotations out; `x: T = v` -> `x = v`; a bare `x: T` disappears"""

    def _fn(self, n):
        self.generic_visit(n)
        n.returns = None
        a = n.args
        for x in a.posonlyargs + a.args + a.kwonlyargs + [y for y in (a.vararg, a.kwarg) if y is not None]:
            x.annotation = None
        n.body = _nodoc(n.body)
        return n

    visit_FunctionDef = _fn
    visit_AsyncFunctionDef = _fn

    def visit_ClassDef(self, n):
        self.generic_visit(n)
        n.body = _nodoc(n.body)
        return n

    def visit_AnnAssign(self, n):
        self.generic_visit(n)
        if n.value is None:
            return None
        return ast.copy_location(ast.Assign(targets=[n.target], value=n.value), n)

    def visit_Expr(self, n):
        # a bare literal as a statement (a string used as a comment, `...`) does nothing
        if isinstance(n.value, ast.Constant):
            return None
        return n

    def _block(self, n):
        self.generic_visit(n)
        n.body = [s for s in n.body if s is not None] or [ast.Pass()]
        if hasattr(n, "orelse"): n.orelse = [s for s in n.orelse if s is not None]
        return n

    visit_For = _block
    visit_If = _block
    visit_While = _block
    visit_With = _block


def parse(rel):
    path = os.path.join(T.REPO, rel)
    with warnings.catch_warnings():
        warnings.simplefilter("ignore")
        raw = ast.parse(open(path).read())
    tree = _Strip().visit(copy.deepcopy(raw))
    ast.fix_missing_locations(tree)
    return path, tree


def module_imports(tree, package):
    """local name -> origin (relative imports resolved against `package`)"""
    out = {}
    for st in tree.body:
        if isinstance(st, ast.Import):
            for a in st.names:
                out[a.asname or a.name.split(".")[0]] = a.name if a.asname else a.name.split(".")[0]
        elif isinstance(st, ast.ImportFrom):
            base = st.module or ""
            if st.level:
                parts = package.split(".")
                parts = parts[:len(parts) - (st.level - 1)]
                base = ".".join(parts + ([st.module] if st.module else []))
            for a in st.names:
                out[a.asname or a.name] = f"{base}.{a.name}"
    return out


def int_lit(n):
    if isinstance(n, ast.Constant) and isinstance(n.value, int) and not isinstance(n.value, bool):
        return n.value
    if isinstance(n, ast.UnaryOp) and isinstance(n.op, ast.USub) and isinstance(n.operand, ast.Constant) \
            and isinstance(n.operand.value, int) and not isinstance(n.operand.value, bool):
        return -n.operand.value
    return None


def full_slice(s):
    return isinstance(s, ast.Slice) and s.lower is None and s.upper is None and s.step is None


def decorator_kind(fn, imports, where):
    ds = fn.decorator_list
    if not ds: return "method"
    if len(ds) == 1 and isinstance(ds[0], ast.Name):
        if ds[0].id == "property" and "property" not in imports: return "property"
        if imports.get(ds[0].id) == "lazy_property.LazyProperty": return "LazyProperty"
    raise T.TieBroken(f"{where}: decorator(s) outside grammar: {[src(d) for d in ds]}")


def signature(fn, where):
    """parameters after `self` with their integer defaults"""
    a = fn.args
    if a.vararg or a.kwarg or a.kwonlyargs or a.posonlyargs:
        raise T.TieBroken(f"{where}: signature with * / ** / keyword-only / positional-only parameters")
    names = [x.arg for x in a.args]
    if not names or names[0] != "self":
        raise T.TieBroken(f"{where}: first parameter is not `self`")
    dflt = [None] * (len(names) - len(a.defaults)) + list(a.defaults)
    out = []
    for nm, d in list(zip(names, dflt))[1:]:
        if d is None: out.append((nm, None)); continue
        k = int_lit(d)
        if k is None or k < 0: raise T.TieBroken(f"{where}: default of `{nm}` is not a non-negative integer literal: {src(d)}")
        out.append((nm, k))
    if len(set(n for n, _ in out)) != len(out) or any(n == "self" for n, _ in out):
        raise T.TieBroken(f"{where}: repeated parameter")
    return out


# ------------------------------------------------------------------------------------------------ one method
class Tx:
    def __init__(self, where, imports, module_names, params, sigs):
        self.where = where
        self.imports = imports            # local name -> origin
        self.module_names = module_names  # every name bound at module level (imports, defs, classes, assignments)
        self.params = [p for p, _ in params]
        self.sigs = sigs                  # method name -> [(param, default)] of the class
        self.locals = {}                  # source name -> canonical name
        self.sub = {}                     # locals of an `if …: return` branch: name -> Lean text
        self.renames = []

    def brk(self, what):
        return T.TieBroken(f"{self.where}: {what}")

    # ---- names
    def bound_here(self, name):
        return name in self.locals or name in self.params or name in self.sub or name == "self"

    def canon(self, name):
        if name == "self": raise self.brk("`self` is rebound")
        if name in self.params: return name
        if name in self.module_names or name in BUILTINS:
            raise self.brk(f"local `{name}` shadows a module-level name / builtin")
        if name not in self.locals:
            self.locals[name] = f"_l{len(self.locals)}"
            self.renames.append((name, self.locals[name]))
        return self.locals[name]

    def qual(self, node):
        parts, n = [], node
        while isinstance(n, ast.Attribute):
            parts.insert(0, n.attr); n = n.value
        if not isinstance(n, ast.Name) or self.bound_here(n.id): return None
        base = self.imports.get(n.id)
        if base is None: return None
        return ".".join([base] + parts)

    def builtin(self, node, name):
        return isinstance(node, ast.Name) and node.id == name and name not in self.module_names and not self.bound_here(name)

    def self_chain(self, n):
        parts = []
        while isinstance(n, ast.Attribute):
            parts.insert(0, n.attr); n = n.value
        if isinstance(n, ast.Name) and n.id == "self" and parts: return parts
        return None

    # ---- expressions
    def x(self, n):
        r = self.x
        if isinstance(n, ast.Constant):
            v = n.value
            if isinstance(v, bool): raise self.brk(f"literal outside grammar: {v!r}")
            if isinstance(v, int):
                if v < 0: raise self.brk(f"negative literal {v}")
                return f"(.lit {v})"
            if isinstance(v, str): return f"(.str {q(v)})"
            raise self.brk(f"literal outside grammar: {v!r}")
        if isinstance(n, ast.Name):
            if n.id in self.sub: return self.sub[n.id]
            if n.id in self.locals: return f"(.loc {q(self.locals[n.id])})"
            if n.id in self.params: return f"(.param {q(n.id)})"
            raise self.brk(f"name outside grammar (not a parameter, not a local bound before): {n.id}")
        if isinstance(n, ast.UnaryOp) and isinstance(n.op, ast.USub): return f"(.neg {r(n.operand)})"
        if isinstance(n, ast.UnaryOp) and isinstance(n.op, ast.UAdd): return r(n.operand)
        if isinstance(n, ast.BinOp):
            for k, v in ((ast.Add, "add"), (ast.Sub, "sub"), (ast.Mult, "mul"), (ast.Div, "div")):
                if isinstance(n.op, k): return f"(.{v} {r(n.left)} {r(n.right)})"
            raise self.brk(f"operator outside grammar in `{src(n)[:80]}`")
        if isinstance(n, ast.Compare) and len(n.ops) == 1:
            l, op, rt = n.left, n.ops[0], n.comparators[0]
            if isinstance(op, ast.In) and isinstance(l, ast.Constant) and isinstance(l.value, str): return f"(.contains {r(rt)} {q(l.value)})"
            if isinstance(op, ast.Eq): return f"(.eq {r(l)} {r(rt)})"
            raise self.brk(f"comparison outside grammar: {src(n)[:80]}")
        if isinstance(n, ast.Tuple) and len(n.elts) == 3: return f"(.tuple3 {r(n.elts[0])} {r(n.elts[1])} {r(n.elts[2])})"
        if isinstance(n, ast.Attribute):
            ch = self.self_chain(n)
            if ch is not None: return f"(.self {lstrs(ch)})"
            raise self.brk(f"attribute outside grammar: {src(n)[:80]}")
        if isinstance(n, ast.Subscript): return self.subscript(n)
        if isinstance(n, ast.Call): return self.call(n)
        raise self.brk(f"expression outside grammar: {src(n)[:100]}")

    def is_nax(self, n):
        return self.qual(n) == "numpy.newaxis" or (isinstance(n, ast.Constant) and n.value is None)

    def subscript(self, n):
        r = self.x
        v, s = n.value, n.slice
        k = int_lit(s)
        # a.shape[k]
        if isinstance(v, ast.Attribute) and v.attr == "shape" and k is not None and k >= 0:
            return f"(.shape {r(v.value)} {k})"
        if k is not None:
            return f"(.index {r(v)} {'(' + str(k) + ')' if k < 0 else k})"
        if isinstance(s, ast.Tuple) and len(s.elts) == 2:
            a, b = s.elts
            if self.is_nax(a) and full_slice(b): return f"(.nax {r(v)})"
            if full_slice(a) and not isinstance(b, ast.Slice): return f"(.colOf {r(v)} {r(b)})"
        if isinstance(s, ast.Slice) and s.step is None:
            lo, hi = (int_lit(s.lower) if s.lower is not None else None), (int_lit(s.upper) if s.upper is not None else None)
            if s.upper is None and lo is not None and lo >= 0: return f"(.dropFirst {r(v)} {lo})"
            if s.lower is None and hi is not None and hi < 0: return f"(.dropLast {r(v)} {-hi})"
        # a[[0, *range(len(a)), -1]]
        if isinstance(s, ast.List) and len(s.elts) == 3 and int_lit(s.elts[0]) == 0 and int_lit(s.elts[2]) == -1 \
                and isinstance(s.elts[1], ast.Starred):
            c = s.elts[1].value
            if isinstance(c, ast.Call) and self.builtin(c.func, "range") and len(c.args) == 1 and not c.keywords:
                ln = c.args[0]
                if isinstance(ln, ast.Call) and self.builtin(ln.func, "len") and len(ln.args) == 1 and not ln.keywords \
                        and src(ln.args[0]) == src(v):
                    return f"(.edgeRep {r(v)})"
        if isinstance(s, ast.Name) or (isinstance(s, ast.Constant) and isinstance(s.value, str)):
            return f"(.item {r(v)} {r(s)})"
        raise self.brk(f"subscript outside grammar: {src(n)[:100]}")

    def comprehension(self, lc):
        """[v.<attr> for v in it] / [v.<attr>[k] for v in it]"""
        g = lc.generators
        if len(g) != 1 or g[0].ifs or g[0].is_async or not isinstance(g[0].target, ast.Name):
            raise self.brk(f"comprehension outside grammar: {src(lc)[:100]}")
        v = g[0].target.id
        if self.bound_here(v) or v in self.module_names: raise self.brk(f"comprehension variable `{v}` shadows another name")
        it = self.x(g[0].iter)
        e = lc.elt
        if isinstance(e, ast.Attribute) and isinstance(e.value, ast.Name) and e.value.id == v:
            return f"(.compAttr {q(e.attr)} {it})"
        if isinstance(e, ast.Subscript) and isinstance(e.value, ast.Attribute) and isinstance(e.value.value, ast.Name) \
                and e.value.value.id == v and not any(isinstance(z, ast.Name) and z.id == v for z in ast.walk(e.slice)):
            return f"(.compAttrItem {q(e.value.attr)} {self.x(e.slice)} {it})"
        raise self.brk(f"comprehension element outside grammar: {src(e)[:80]}")

    def positional(self, c, order, what):
        """arguments of a call as a positional list; keywords are placed through `order` (the parameter names)"""
        if any(isinstance(a, ast.Starred) for a in c.args) or any(k.arg is None for k in c.keywords):
            raise self.brk(f"* / ** in the call `{src(c)[:80]}`")
        args = list(c.args)
        kws = {k.arg: k.value for k in c.keywords}
        if len(kws) != len(c.keywords): raise self.brk(f"repeated keyword in `{src(c)[:80]}`")
        if kws:
            if order is None: raise self.brk(f"keyword argument(s) {sorted(kws)} in a call of `{what}`")
            for p in order[len(args):]:
                if p in kws: args.append(kws.pop(p))
                else: break
            if kws: raise self.brk(f"keyword argument(s) {sorted(kws)} of `{what}` cannot be placed positionally in `{src(c)[:80]}`")
        return args

    def call(self, c):
        r = self.x
        f = c.func
        # self.m(…) / self.attr.m()
        ch = self.self_chain(f) if isinstance(f, ast.Attribute) else None
        if ch is not None:
            if len(ch) == 1:
                m = ch[0]
                if m not in self.sigs: raise self.brk(f"`self.{m}(…)`: the class defines no method {m}")
                args = self.positional(c, [p for p, _ in self.sigs[m]], f"self.{m}")
                if len(args) > 2: raise self.brk(f"`self.{m}` with more than two arguments")
                return f"(.callSelf{len(args)} {q(m)}" + "".join(" " + r(a) for a in args) + ")"
            if len(ch) == 2 and not c.args and not c.keywords:
                return f"(.mcall0 (.self {lstrs(ch[:1])}) {q(ch[1])})"
            raise self.brk(f"method call outside grammar: {src(c)[:100]}")
        # builtins
        if self.builtin(f, "len") and len(c.args) == 1 and not c.keywords: return f"(.len {r(c.args[0])})"
        if self.builtin(f, "sum") and len(c.args) == 1 and not c.keywords: return f"(.fn1 \"sum\" {r(c.args[0])})"
        if self.builtin(f, "tuple") and len(c.args) == 1 and not c.keywords and isinstance(c.args[0], ast.GeneratorExp):
            ge = c.args[0]; g = ge.generators
            if len(g) == 1 and not g[0].ifs and isinstance(g[0].target, ast.Name) and isinstance(ge.elt, ast.BinOp) \
                    and isinstance(ge.elt.op, ast.Div) and isinstance(ge.elt.left, ast.Name) and ge.elt.left.id == g[0].target.id \
                    and not self.bound_here(g[0].target.id) \
                    and not any(isinstance(z, ast.Name) and z.id == g[0].target.id for z in ast.walk(ge.elt.right)):
                return f"(.mapDiv {r(g[0].iter)} {r(ge.elt.right)})"
            raise self.brk(f"generator outside grammar: {src(c)[:100]}")
        name = self.qual(f)
        if name is None: raise self.brk(f"call outside grammar: {src(c)[:100]}")
        if name == "cij.util._from_gpa": name = UNIT_ORIGIN.get("_from_gpa", name)
        if name == "cij.util._to_gpa": name = UNIT_ORIGIN.get("_to_gpa", name)
        if name == "numpy.array" and len(c.args) == 1 and not c.keywords and isinstance(c.args[0], ast.ListComp):
            return f"(.fn1 \"numpy.array\" {self.comprehension(c.args[0])})"
        if name in ("numpy.zeros", "numpy.ones"):
            if len(c.args) == 1 and not c.keywords and isinstance(c.args[0], ast.Tuple) and len(c.args[0].elts) == 2:
                a, b = c.args[0].elts
                return f"(.full {0 if name == 'numpy.zeros' else 1} {r(a)} {r(b)})"
            raise self.brk(f"`{src(c)[:80]}` is not {name}((rows, cols)) without dtype")
        if name == "numpy.sum":
            kws = {k.arg: src(k.value) for k in c.keywords}
            if len(c.args) == 1 and kws == {"axis": "1", "keepdims": "True"}: return f"(.rowSum {r(c.args[0])})"
            raise self.brk(f"`{src(c)[:80]}` is not numpy.sum(a, axis=1, keepdims=True)")
        order = {"numpy.polyfit": ["x", "y", "deg"], "numpy.polyval": ["p", "x"],
                 "qha.fitting.polynomial_least_square_fitting": ["xs", "ys", "new_xs", "order"]}.get(name)
        args = self.positional(c, order, name)
        if order is not None and len(args) != len(order): raise self.brk(f"`{src(c)[:100]}`: {name} with {len(args)} argument(s)")
        if not 1 <= len(args) <= 4: raise self.brk(f"call of `{name}` with {len(args)} arguments")
        return f"(.fn{len(args)} {q(name)}" + "".join(" " + r(a) for a in args) + ")"

    # ---- statements
    def log_calls(self, c):
        """logging.debug(<string literals, +, repr/str, self.m()>) -> the self calls"""
        if len(c.args) != 1 or c.keywords: raise self.brk(f"logging call outside grammar: {src(c)[:100]}")
        calls = []

        def walk(n):
            if isinstance(n, ast.Constant) and isinstance(n.value, str): return
            if isinstance(n, ast.BinOp) and isinstance(n.op, ast.Add): walk(n.left); walk(n.right); return
            if isinstance(n, ast.Call) and (self.builtin(n.func, "repr") or self.builtin(n.func, "str")) and len(n.args) == 1 and not n.keywords:
                walk(n.args[0]); return
            if isinstance(n, ast.Call):
                ch = self.self_chain(n.func) if isinstance(n.func, ast.Attribute) else None
                if ch is not None and len(ch) == 1 and not n.args and not n.keywords:
                    calls.append(self.x(n)); return
            raise self.brk(f"logging argument outside grammar: {src(n)[:80]}")
        walk(c.args[0])
        return calls

    def is_logging(self, c):
        if not isinstance(c.func, ast.Attribute) or c.func.attr not in ("debug", "info", "warning"): return False
        v = c.func.value
        if self.qual(v) == "logging": return True
        return isinstance(v, ast.Name) and v.id == "logger" and LOGGER_OK.get(self.where.split(":")[0], False) and not self.bound_here("logger")

    def loop_body(self, body):
        out = []
        for st in body:
            if isinstance(st, ast.Pass): continue
            if not (isinstance(st, ast.Assign) and len(st.targets) == 1):
                raise self.brk(f"statement outside grammar inside a loop: {src(st)[:100]}")
            t, v = st.targets[0], st.value
            if isinstance(t, ast.Name):
                e = self.x(v); out.append(f".assign {q(self.canon(t.id))} {e}"); continue
            if isinstance(t, ast.Subscript) and isinstance(t.value, ast.Name) and t.value.id in self.locals:
                s = t.slice
                if isinstance(s, ast.Tuple) and len(s.elts) == 2 and full_slice(s.elts[0]) and not isinstance(s.elts[1], ast.Slice):
                    out.append(f".setCol {q(self.locals[t.value.id])} {self.x(s.elts[1])} {self.x(v)}"); continue
                if isinstance(s, ast.Name):
                    out.append(f".setItem {q(self.locals[t.value.id])} {self.x(s)} {self.x(v)}"); continue
            raise self.brk(f"assignment outside grammar inside a loop: {src(st)[:100]}")
        return "[" + ", ".join(out) + "]"

    def stmts(self, body):
        out = []
        for pos, st in enumerate(body):
            last = pos == len(body) - 1
            if isinstance(st, ast.Pass): continue
            if isinstance(st, ast.Return):
                if not last: raise self.brk("a `return` that is not the last statement")
                if st.value is not None: out.append(f".ret {self.x(st.value)}")
                continue
            if isinstance(st, ast.Assign) and len(st.targets) == 1:
                t, v = st.targets[0], st.value
                if isinstance(t, ast.Name):
                    if (isinstance(v, ast.Call) and self.builtin(v.func, "dict") and not v.args and not v.keywords) \
                            or (isinstance(v, ast.Dict) and not v.keys):
                        out.append(f".newDict {q(self.canon(t.id))}"); continue
                    e = self.x(v)                     # translate BEFORE the (possibly new) binding becomes visible
                    out.append(f".assign {q(self.canon(t.id))} {e}"); continue
                ch = self.self_chain(t) if isinstance(t, ast.Attribute) else None
                if ch is not None and len(ch) == 1:
                    out.append(f".setSelf {q(ch[0])} {self.x(v)}"); continue
                raise self.brk(f"assignment outside grammar: {src(st)[:100]}")
            if isinstance(st, ast.Expr) and isinstance(st.value, ast.Call):
                c = st.value
                if self.is_logging(c):
                    out.append(".log [" + ", ".join(self.log_calls(c)) + "]"); continue
                ch = self.self_chain(c.func) if isinstance(c.func, ast.Attribute) else None
                if ch is not None and len(ch) == 1 and not c.args and not c.keywords:
                    if ch[0] not in self.sigs: raise self.brk(f"`self.{ch[0]}()`: the class defines no method {ch[0]}")
                    out.append(f".callProc {q(ch[0])}"); continue
                if ch is not None and len(ch) == 2:
                    args = self.positional(c, None, src(c.func))
                    out.append(f".callAttr {q(ch[0])} {q(ch[1])} [" + ", ".join(self.x(a) for a in args) + "]"); continue
                raise self.brk(f"call statement outside grammar: {src(st)[:100]}")
            if isinstance(st, ast.If):
                if st.orelse: raise self.brk(f"`else` / `elif` branch: {src(st.test)[:60]}")
                # if isinstance(v, tuple): _, v = v
                t = st.test
                if isinstance(t, ast.Call) and self.builtin(t.func, "isinstance") and len(t.args) == 2 and isinstance(t.args[0], ast.Name) \
                        and self.builtin(t.args[1], "tuple") and len(st.body) == 1:
                    nm = t.args[0].id; b = st.body[0]
                    if nm in self.locals and isinstance(b, ast.Assign) and len(b.targets) == 1 and isinstance(b.targets[0], ast.Tuple) \
                            and len(b.targets[0].elts) == 2 and all(isinstance(z, ast.Name) for z in b.targets[0].elts) \
                            and b.targets[0].elts[1].id == nm and b.targets[0].elts[0].id != nm and src(b.value) == nm \
                            and not self.bound_here(b.targets[0].elts[0].id):
                        out.append(f".unpackIfTuple {q(self.locals[nm])}"); continue
                    raise self.brk(f"branch outside grammar: {src(st)[:120]}")
                # if c: [local = e]* return e
                cond = self.x(t)
                if not st.body or not isinstance(st.body[-1], ast.Return) or st.body[-1].value is None:
                    raise self.brk(f"the branch `if {src(t)[:60]}` does not end in `return <expr>`")
                saved = dict(self.sub)
                for b in st.body[:-1]:
                    if not (isinstance(b, ast.Assign) and len(b.targets) == 1 and isinstance(b.targets[0], ast.Name)):
                        raise self.brk(f"statement outside grammar in the branch `if {src(t)[:60]}`: {src(b)[:80]}")
                    nm = b.targets[0].id
                    if nm in self.params or nm in self.locals or nm in self.module_names or nm in BUILTINS or nm == "self":
                        raise self.brk(f"the branch `if {src(t)[:60]}` rebinds `{nm}`")
                    e = self.x(b.value)
                    self.sub[nm] = e
                ret = self.x(st.body[-1].value)
                branch_locals = set(self.sub) - set(saved)
                self.sub = saved
                # a name bound only inside the branch must not be read after it
                for later in body[pos + 1:]:
                    for z in ast.walk(later):
                        if isinstance(z, ast.Name) and z.id in branch_locals:
                            raise self.brk(f"`{z.id}` (bound inside `if {src(t)[:40]}`) is used after the branch")
                out.append(f".retIf {cond} {ret}"); continue
            if isinstance(st, ast.For):
                if st.orelse or not isinstance(st.target, ast.Name): raise self.brk(f"loop outside grammar: {src(st)[:80]}")
                it = st.iter
                if isinstance(it, ast.Call) and self.builtin(it.func, "range") and len(it.args) == 1 and not it.keywords \
                        and int_lit(it.args[0]) is not None and int_lit(it.args[0]) >= 0:
                    v = self.canon(st.target.id)
                    out.append(f".forRange {q(v)} {int_lit(it.args[0])} {self.loop_body(st.body)}"); continue
                ite = self.x(it)
                v = self.canon(st.target.id)
                out.append(f".forIn {q(v)} {ite} {self.loop_body(st.body)}"); continue
            raise self.brk(f"statement outside grammar: {src(st)[:100]}")
        return out


UNIT_ORIGIN = {}
LOGGER_OK = {}


def method(fn, imports, module_names, sigs, where, params=None):
    kind = decorator_kind(fn, imports, where)
    params = signature(fn, where) if params is None else params
    for n in ast.walk(fn):
        if n is not fn and isinstance(n, (ast.FunctionDef, ast.AsyncFunctionDef, ast.Lambda, ast.ClassDef, ast.Global, ast.Nonlocal,
                                         ast.Yield, ast.YieldFrom, ast.Await, ast.NamedExpr, ast.Try, ast.With, ast.While)):
            raise T.TieBroken(f"{where}: {type(n).__name__} inside the method")
    tx = Tx(where, imports, module_names, params, sigs)
    body = tx.stmts(list(fn.body))
    lp = "[" + ", ".join(f"({q(n)}, {'none' if d is None else f'some {d}'})" for n, d in params) + "]"
    text = (f"{{ name := {q(fn.name)}, kind := {q(kind)}, params := {lp},\n"
            f"    body := [" + ",\n             ".join(body) + "] }")
    return text, params, tx.renames


def qualnames(tree):
    out = []

    def walk(node, prefix):
        for ch in ast.iter_child_nodes(node):
            if isinstance(ch, (ast.FunctionDef, ast.AsyncFunctionDef)):
                out.append((ch.lineno, ch.col_offset, prefix + ch.name)); walk(ch, prefix + ch.name + ".")
            elif isinstance(ch, ast.ClassDef):
                walk(ch, prefix + ch.name + ".")
            elif isinstance(ch, ast.Lambda):
                out.append((ch.lineno, ch.col_offset, prefix + "<lambda>")); walk(ch, prefix + "<lambda>.")
            else:
                walk(ch, prefix)
    walk(tree, "")
    return [n for _, _, n in sorted(out)]


def module_level(tree, rel):
    names, assigns, other = set(), [], []
    for st in tree.body:
        if isinstance(st, ast.Import):
            for a in st.names: names.add(a.asname or a.name.split(".")[0])
        elif isinstance(st, ast.ImportFrom):
            for a in st.names: names.add(a.asname or a.name)
        elif isinstance(st, (ast.FunctionDef, ast.AsyncFunctionDef, ast.ClassDef)): names.add(st.name)
        elif isinstance(st, ast.Assign):
            for t in st.targets:
                for nm in ast.walk(t):
                    if isinstance(nm, ast.Name): names.add(nm.id); assigns.append((nm.id, src(st.value)))
        elif isinstance(st, ast.Pass) or (isinstance(st, ast.Expr) and isinstance(st.value, ast.Constant)): pass
        else: other.append(type(st).__name__ + ": " + src(st)[:80])
    return names, assigns, other


# the trees the hand-written model (CijModel/FullModulus.lean) was written against live in tools/gens/_fullmodulus_canon.py
# (`CANON = {method: Lean text}`; written by `python tools/gens/fullmodulus_src.py` = write_canon()).  `fullModulusBodiesCanonical`
# says whether the trees of THIS run are these (the theorems of C05 consume the trees themselves; C04/C12/C13/C14 restate the flag)
def canonical_file():
    return os.path.join(os.path.dirname(os.path.abspath(__file__)), "_fullmodulus_canon.py")


def load_canon():
    p = canonical_file()
    if not os.path.exists(p): return None
    ns = {}
    exec(compile(open(p).read(), p, "exec"), ns)
    return ns.get("CANON")


# ------------------------------------------------------------------------------------------------ the generator
def gen_fullmodulus_glue():
    p_fm, t_fm = parse(FM)
    p_ca, t_ca = parse(CALC)
    p_ut, t_ut = parse(UTIL)
    # cij.util re-exports: name -> cij.util.units.name
    UNIT_ORIGIN.clear()
    for k, v in module_imports(t_ut, "cij.util").items():
        if v.startswith("cij.util.units."): UNIT_ORIGIN[k] = v
    if "_from_gpa" not in UNIT_ORIGIN: raise T.TieBroken(f"{UTIL}: `_from_gpa` is not imported from .units")

    imports = module_imports(t_fm, "cij.core")
    names, assigns, other = module_level(t_fm, FM)
    LOGGER_OK.clear()
    LOGGER_OK[FM] = dict(assigns).get("logger") == "logging.getLogger(__name__)" and imports.get("logging") == "logging"
    classes = [c for c in t_fm.body if isinstance(c, ast.ClassDef)]
    cls = next((c for c in classes if c.name == CLASS), None)
    if cls is None: raise T.TieBroken(f"{FM}: class {CLASS} not found")
    class_other, fns = [], []
    for st in cls.body:
        if isinstance(st, ast.FunctionDef): fns.append(st)
        elif isinstance(st, ast.Pass): pass
        else: class_other.append(type(st).__name__ + ": " + src(st)[:80])
    mnames = [f.name for f in fns]
    if len(set(mnames)) != len(mnames): raise T.TieBroken(f"{FM}: a method of {CLASS} is defined twice: {mnames}")
    sigs = {f.name: signature(f, f"{FM}: {CLASS}.{f.name}") for f in fns}
    methods, renames = {}, {}
    for f in fns:
        methods[f.name], _, renames[f.name] = method(f, imports, names, sigs, f"{FM}: {CLASS}.{f.name}")

    # Calculator._calculate_pressure_static
    imports_c = module_imports(t_ca, "cij.core")
    names_c, assigns_c, _ = module_level(t_ca, CALC)
    LOGGER_OK[CALC] = dict(assigns_c).get("logger") == "logging.getLogger(__name__)" and imports_c.get("logging") == "logging"
    calc = next((c for c in t_ca.body if isinstance(c, ast.ClassDef) and c.name == "Calculator"), None)
    if calc is None: raise T.TieBroken(f"{CALC}: class Calculator not found")
    ps = [f for f in calc.body if isinstance(f, ast.FunctionDef) and f.name == "_calculate_pressure_static"]
    if len(ps) != 1: raise T.TieBroken(f"{CALC}: Calculator._calculate_pressure_static defined {len(ps)} times")
    ps_text, ps_params, ps_ren = method(ps[0], imports_c, names_c, {}, f"{CALC}: Calculator._calculate_pressure_static")

    ident = lambda n: "m_" + n.strip("_")
    if len({ident(f.name) for f in fns}) != len(fns): raise T.TieBroken(f"{FM}: two methods of {CLASS} differ only in leading / trailing underscores")
    L = []
    out = L.append
    out(f"-- GENERATED by tools/gens/fullmodulus_src.py from {FM}, {CALC} and {UTIL} — do not edit")
    out("import CijModel.FullModulusGlue\nopen Cij.FMGlue\nnamespace Generated.FullModulusGlue\n")
    used = sorted({v for k, v in imports.items()})
    out("/-- imports of full_modulus.py: (local name, origin); relative imports resolved against `cij.core` -/")
    out("def imports : List (String × String) :=\n  [" + ", ".join(f"({q(a)}, {q(b)})" for a, b in imports.items()) + "]\n")
    out("/-- what `cij/util/__init__.py` re-exports from `.units`: (name, origin) -/")
    out("def unitReexports : List (String × String) := [" + ", ".join(f"({q(a)}, {q(b)})" for a, b in sorted(UNIT_ORIGIN.items())) + "]\n")
    out("/-- module-level assignments (name, value as text); other module-level statements; classes of the module -/")
    out("def moduleAssigns : List (String × String) := [" + ", ".join(f"({q(a)}, {q(b)})" for a, b in assigns) + "]")
    out(f"def moduleOtherStatements : List String := {lstrs(other)}")
    out(f"def moduleClasses : List String := {lstrs([c.name for c in classes])}\n")
    out(f"/-- class `{CLASS}`: bases / keywords / decorators; class-level statements that are not a def -/")
    out("def classBases : List String := " + lstrs([src(x) for x in cls.bases] + [f"{k.arg}={src(k.value)}" for k in cls.keywords]
                                                    + ["@" + src(d) for d in cls.decorator_list]))
    out(f"def classOtherStatements : List String := {lstrs(class_other)}\n")
    for f in fns:
        rn = ", ".join(f"{a} -> {b}" for a, b in renames[f.name])
        out(f"/-- `{CLASS}.{f.name}`" + (f" (locals: {doc(rn)})" if rn else "") + " -/")
        out(f"def {ident(f.name)} : Method :=\n  {methods[f.name]}\n")
    out("/-- the class: every method, in source order -/")
    out("def cls : List Method := [" + ", ".join(ident(f.name) for f in fns) + "]\n")
    rn = ", ".join(f"{a} -> {b}" for a, b in ps_ren)
    out(f"/-- `Calculator._calculate_pressure_static` of {CALC}" + (f" (locals: {doc(rn)})" if rn else "") + " -/")
    out(f"def pressureStatic : Method :=\n  {ps_text}\n")
    qn = qualnames(t_fm)
    out("/-- every `def` / `lambda` of full_modulus.py with its qualified name, in source order (a name listed twice = defined twice) -/")
    out("def definedFunctions : List String :=\n  [" + ",\n   ".join(q(n) for n in qn) + "]\n")
    out("end Generated.FullModulusGlue\n")
    glue = "\n".join(L)

    # ---------------------------------------------------------------- FullModulusSpec.lean (formerly textual pins)
    order_fm = dict(sigs.get("fit_modulus", [])).get("order")
    if order_fm is None: raise T.TieBroken(f"{FM}: fit_modulus has no parameter `order` with an integer default")
    order_ps = dict(ps_params).get("order")
    if order_ps is None: raise T.TieBroken(f"{CALC}: _calculate_pressure_static has no parameter `order` with an integer default")
    # degree offset: the third argument of numpy.polyfit inside fit_modulus must be `order + k`
    off = None
    for n in ast.walk(next(f for f in fns if f.name == "fit_modulus")):
        if isinstance(n, ast.Call) and src(n.func) == "numpy.polyfit":
            d = {k.arg: k.value for k in n.keywords}.get("deg", n.args[2] if len(n.args) > 2 else None)
            if isinstance(d, ast.BinOp) and isinstance(d.op, ast.Add) and isinstance(d.left, ast.Name) and d.left.id == "order" \
                    and int_lit(d.right) is not None and int_lit(d.right) >= 0:
                off = int_lit(d.right)
            elif isinstance(d, ast.Name) and d.id == "order":
                off = 0
    if off is None: raise T.TieBroken(f"{FM}: fit_modulus: the degree handed to numpy.polyfit is not `order + <int>`")
    canon = load_canon()
    current = _trees(glue)
    if canon is None:
        canonical, differing = False, ["<tools/gens/_fullmodulus_canon.py missing>"]
    else:
        differing = sorted(k for k in set(canon) | set(current) if canon.get(k) != current.get(k))
        canonical = not differing
    spec = ("-- GENERATED by tools/gens/fullmodulus_src.py from cij/core/full_modulus.py and cij/core/calculator.py — do not edit\n"
            "namespace Generated\n\n"
            "/-- `fit_modulus(self, moduli, order=…)`: default order; polyfit degree is `order + fitModulusDegOffset`\n"
            "(read off the translated tree `Generated.FullModulusGlue.m_fit_modulus`) -/\n"
            f"def fitModulusDefaultOrder : Nat := {order_fm}\ndef fitModulusDegOffset : Nat := {off}\n\n"
            "/-- `_calculate_pressure_static(self, order=…)` (`Generated.FullModulusGlue.pressureStatic`) -/\n"
            f"def staticPressureDefaultOrder : Nat := {order_ps}\n\n"
            "/-- whether the statement / expression trees of every method of `FullThermalElasticModulus` and of\n"
            "`_calculate_pressure_static` translated on this run (locals renamed canonically; docstrings, annotations, comments, layout\n"
            "ignored) are the trees the model of CijModel/FullModulus.lean was written against (tools/gens/_fullmodulus_canon.py)"
            + ("" if canonical else f"; differing: {doc(', '.join(differing))}") + " -/\n"
            f"def fullModulusBodiesCanonical : Bool := {'true' if canonical else 'false'}\n\nend Generated\n")
    return {"FullModulusGlue.lean": glue, "FullModulusSpec.lean": spec}, [p_fm, p_ca, p_ut]


def current_trees():
    """{method name: Lean text of its tree} for the working tree"""
    return _trees(gen_fullmodulus_glue()[0]["FullModulusGlue.lean"])


def _trees(txt):
    import re
    out = {}
    for ident_, body in re.findall(r"def (m_\w+|pressureStatic) : Method :=\n  (\{.*?\n    body := \[.*?\] \})\n", txt, re.S):
        nm = re.search(r'name := "(\w+)"', body).group(1)
        out["Calculator._calculate_pressure_static" if ident_ == "pressureStatic" else nm] = body.strip()
    return out


def write_canon():
    """(maintenance) record the trees of the current working tree as the canonical ones"""
    trees = current_trees()
    with open(canonical_file(), "w") as fp:
        fp.write('"""Canonical statement / expression trees of cij/core/full_modulus.py and Calculator._calculate_pressure_static: the trees the\n'
                 'model of lean/CijModel/FullModulus.lean was written against (written by `python tools/gens/fullmodulus_src.py`; read by\n'
                 'fullmodulus_src.py to compute `Generated.fullModulusBodiesCanonical`).  Not a generator (the leading underscore keeps gen_tables from loading it)."""\n')
        fp.write("CANON = {\n")
        for k, v in trees.items():
            fp.write(f"    {k!r}:\n        {v!r},\n")
        fp.write("}\n")


GENERATORS = {"gen_fullmodulus_glue": (gen_fullmodulus_glue, ["FullModulusGlue.lean", "FullModulusSpec.lean"])}

if __name__ == "__main__":
    write_canon()
    print("wrote", canonical_file())
