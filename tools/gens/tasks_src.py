"""Translator plug-in: the GLUE of `cij/core/tasks.py` -> lean/Generated/TasksGlue.lean

(`tools/gen_tables.py::gen_tasks_spec` translates the strain columns of `_make_param_by_strain_key` and `_STRAIN_RTOL`
into Generated/TasksSpec.lean; this plug-in covers everything else in the file: every method of the four classes is
either translated as data below or compared as normalised text, and the list of methods says which.)

Everything is read with `ast` from the working tree (never imported).  Docstrings and type annotations are stripped
first; statements are matched against templates whose `__X__` identifiers are holes, so comments, blank lines, quoting,
line breaks, docstrings and annotations never matter; logging statements (`logger.<level>(…)`, and loops that only log)
are skipped.  Local variables (everything a function binds that is not a parameter) are renamed `_l0, _l1, …` in order of first binding before the
data are extracted, and the Lean side interprets the description with an environment of named locals: how a local is spelled never
matters; parameters keep their names (they are part of the interface).

Extracted as DATA (meaning in CijModel/TasksGlue.lean, theorems in CijProofs/Lemmas/TasksGlueSource.lean and the
`c04_glue_is_source…` theorems of Properties/C04.lean):
  * `PhononContributionTaskParams.__hash__`: which calc type takes which branch; each branch as an expression tree over
    `hash(self.calc_type)`, `hash(tuple(self.params[i].flatten().tolist()))`, `hash(self.params[i])`, `^`
  * `PhononContributionTaskParams.__eq__`: the decision list (`if <test>: return False` … `return True`) with its tests, the
    branch on the calc type, the tolerance keywords of every `numpy.allclose` call (rtol resolved through the module constant)
    and the operand order (self first)
  * `PhononContributionTaskResults`: `get_results_by_strain_keys` (fresh container, iterated parameter, arguments of `create`,
    what keys the result, lookup through `self[…]`), the key normalisation of `__setitem__` / `__getitem__`, the search of
    `__getitem__` (`next(v for p, v in self.data.items() if p == params)`: which operand is the stored key, no default), what
    `__setitem__` hands to `super().__setitem__`
  * `PhononContributionTask`: `__init__` (attribute assignments, arguments of `create`, the class chosen per key predicate
    with its argument list), the three properties, `get_dependencies` (calc types with no dependency; the (strain attribute,
    key-list method) pairs in order), `get_modulus_isothermal/adiabatic` (guard, assignments calculator attribute <- task
    attribute, returned attribute)
  * `PhononContributionTaskList`: `__init__` (what every attribute is bound to; one constructor call per store), `resolve` as a
    work-list program (attribute writes with their phase, initial queue factors, pop end and targets, arguments of `create`,
    lookup predicate and operand order, new-task arguments, `curr` offset, edge orientation and guard, pushed tuple and push
    end, sort function, the comprehension that permutes the tasks), `calculate` (loop source, guard, per assigned task
    attribute the store / strain attribute / key-list method, per store write the key expression and the task method),
    `get_adiabatic_results` / `get_isothermal_results` (store, strain attribute, keys attribute)
  * the constructor signatures and the attribute reads of the contribution classes this wiring talks to (shear.py, nonshear.py,
    phonon_contribution/__init__.py): parameter names of `__init__`, what `self.strain` / `self.key` are bound to, which
    attributes `get_elastic_modulus[_rotated]` read, what `value_adiabatic` of the shear class returns
  * bases, class-level statements, module-level assignments, mutable defaults, global / nonlocal, nested functions, decorators
  * the inventory: every `def` in the four classes with the way it is tied (translated | pinned | TasksSpec)
Compared as canonical text (normalised AST, locals renamed), TieBroken naming the method:
`PhononContributionTaskParams.create` and `_make_param_by_strain_key` (their data are in Generated/TasksSpec.lean).
"""
import ast
import copy
import os
import warnings
from fractions import Fraction

import gen_tables as T

REL = "cij/core/tasks.py"
OUT_FILE = "TasksGlue.lean"
CLASSES = ["PhononContributionTaskParams", "PhononContributionTaskResults", "PhononContributionTask", "PhononContributionTaskList"]
ENUM = "ElasticModulusCalculationType"


# ------------------------------------------------------------------------------------------------ normalisation
class _Strip(ast.NodeTransformer):
    """docstrings and annotations out; `x: T = v` -> `x = v`; a bare `x: T` disappears"""

    def _fn(self, n):
        self.generic_visit(n)
        n.returns = None
        a = n.args
        for x in a.posonlyargs + a.args + a.kwonlyargs + [y for y in (a.vararg, a.kwarg) if y is not None]:
            x.annotation = None
        n.body = _nodoc(n.body)
        return n

    visit_FunctionDef = _fn
    visit_AsyncFunctionDef = _fn

    def visit_ClassDef(self, n):
        self.generic_visit(n)
        n.body = _nodoc(n.body)
        return n

    def visit_AnnAssign(self, n):
        self.generic_visit(n)
        if n.value is None:
            return None
        return ast.copy_location(ast.Assign(targets=[n.target], value=n.value), n)


def _nodoc(body):
    body = [s for s in body if s is not None]
    if body and isinstance(body[0], ast.Expr) and isinstance(body[0].value, ast.Constant) and isinstance(body[0].value.value, str):
        body = body[1:]
    return body or [ast.Pass()]


def local_names(fn):
    args = {a.arg for a in fn.args.posonlyargs + fn.args.args + fn.args.kwonlyargs}
    for x in (fn.args.vararg, fn.args.kwarg):
        if x is not None: args.add(x.arg)
    seen = []
    stores = [n for n in ast.walk(fn) if isinstance(n, ast.Name) and isinstance(n.ctx, ast.Store)]
    stores.sort(key=lambda n: (n.lineno, n.col_offset))
    for n in stores:
        if n.id not in args and n.id not in seen:
            seen.append(n.id)
    return seen


def canon_text(fn):
    """ast.unparse of the stripped function (decorators apart) with its locals renamed _l0, _l1, … in order of first binding"""
    fn = copy.deepcopy(fn)
    fn.decorator_list = []
    m = {n: f"_l{i}" for i, n in enumerate(local_names(fn))}
    for n in ast.walk(fn):
        if isinstance(n, ast.Name) and n.id in m: n.id = m[n.id]
    return ast.unparse(fn)


def canon_fn(fn):
    """the function with its locals (everything it binds that is not a parameter, comprehension variables included) renamed _l0, _l1, …
    in order of first binding: the extracted data do not depend on how locals are spelled.  Returns (function, {canonical: source name})"""
    fn = copy.deepcopy(fn)
    m = {n: f"_l{i}" for i, n in enumerate(local_names(fn))}
    for n in ast.walk(fn):
        if isinstance(n, ast.Name) and n.id in m: n.id = m[n.id]
    return fn, {v: k for k, v in m.items()}


def _is_hole(s):
    return isinstance(s, str) and len(s) > 4 and s.startswith("__") and s.endswith("__") and s[2:-2].isupper()


def unify(pat, node, env):
    """structural match of `node` against `pat`; identifiers `__X__` (upper case) in the pattern are holes (expression,
    attribute name, argument name); a hole bound twice must be bound to the same source text"""
    if isinstance(pat, ast.Name) and _is_hole(pat.id):
        key = pat.id[2:-2]
        val = ast.unparse(node) if isinstance(node, ast.AST) else repr(node)
        if key in env:
            return env[key][0] == val
        env[key] = (val, node)
        return True
    if isinstance(pat, ast.expr_context):
        return isinstance(node, ast.expr_context)
    if type(pat) is not type(node):
        return False
    if isinstance(pat, ast.AST):
        for f in pat._fields:
            a, b = getattr(pat, f, None), getattr(node, f, None)
            if f in ("attr", "arg", "id", "name") and _is_hole(a):
                key = a[2:-2]
                if key in env:
                    if env[key][0] != repr(b): return False
                else:
                    env[key] = (repr(b), b)
                continue
            if f in ("type_comment", "kind"): continue
            if not unify(a, b, env): return False
        return True
    if isinstance(pat, list):
        return len(pat) == len(node) and all(unify(a, b, env) for a, b in zip(pat, node))
    return pat == node


def try_stmt(template, node):
    pat = ast.parse(template).body[0]
    env = {}
    return {k: v[1] for k, v in env.items()} if unify(pat, node, env) else None


def try_expr(template, node):
    pat = ast.parse(template, mode="eval").body
    env = {}
    return {k: v[1] for k, v in env.items()} if unify(pat, node, env) else None


def match_stmt(template, node, what):
    e = try_stmt(template, node)
    if e is None:
        raise T.TieBroken(f"{what}: statement outside grammar: `{src(node)[:120]}` (expected the shape `{template}`)")
    return e


def src(n):
    return " ".join(ast.unparse(n).split()) if isinstance(n, ast.AST) else str(n)


def want_name(n, what):
    if not isinstance(n, ast.Name): raise T.TieBroken(f"{what}: `{src(n)}` is not a plain name")
    return n.id


def atom(n, what):
    """a plain name, `None`, or `self.<attr>` -> its spelling"""
    if isinstance(n, ast.Name): return n.id
    if isinstance(n, ast.Constant) and n.value is None: return "None"
    if isinstance(n, ast.Attribute) and isinstance(n.value, ast.Name) and n.value.id == "self": return "self." + n.attr
    raise T.TieBroken(f"{what}: `{src(n)}` is not a name / None / self.<attribute>")


def is_logging(st):
    if isinstance(st, ast.Expr) and isinstance(st.value, ast.Call) and isinstance(st.value.func, ast.Attribute) \
            and isinstance(st.value.func.value, ast.Name) and st.value.func.value.id == "logger" \
            and st.value.func.attr in ("debug", "info", "warning", "error", "critical", "exception", "log"):
        return True
    if isinstance(st, ast.For) and not st.orelse and all(is_logging(x) for x in st.body):
        return True
    return isinstance(st, ast.Pass)


def nolog(body):
    return [st for st in body if not is_logging(st)]


def decorator_kind(fn):
    ds = [src(d) for d in fn.decorator_list]
    return "method" if not ds else ",".join(ds)


def sig(fn, what, allow_defaults=()):
    a = fn.args
    if a.vararg or a.kwarg or a.kwonlyargs or a.posonlyargs:
        raise T.TieBroken(f"{what}: signature with *args / **kwargs / keyword-only / positional-only parameters")
    names = [x.arg for x in a.args]
    defaults = [(names[len(names) - len(a.defaults) + i], src(d)) for i, d in enumerate(a.defaults)]
    for nm, d in defaults:
        if (nm, d) not in allow_defaults:
            raise T.TieBroken(f"{what}: default `{nm}={d}` outside grammar")
    return names


def enum_member(n, what):
    e = try_expr(f"{ENUM}.__M__", n)
    if e is None: raise T.TieBroken(f"{what}: `{src(n)}` is not {ENUM}.<MEMBER>")
    return e["M"]


# ------------------------------------------------------------------------------------------------ Lean literals
def q(s): return T.lean_str(s)
def lstrs(xs): return "[" + ", ".join(q(x) for x in xs) + "]"
def lbool(b): return "true" if b else "false"
def lint(k): return f"({k})" if k < 0 else str(k)
def lpairs(xs): return "[" + ", ".join("(" + ", ".join(q(y) for y in x) + ")" for x in xs) + "]"


# ------------------------------------------------------------------------------------------------ __hash__
def hash_expr(n, what):
    if isinstance(n, ast.BinOp) and isinstance(n.op, ast.BitXor):
        return f"(.xor {hash_expr(n.left, what)} {hash_expr(n.right, what)})"
    if try_expr("hash(self.calc_type)", n) is not None:
        return ".calcType"
    e = try_expr("hash(tuple(self.params[__I__].flatten().tolist()))", n)
    if e is not None and isinstance(e["I"], ast.Constant) and isinstance(e["I"].value, int):
        return f"(.floats {e['I'].value})"
    e = try_expr("hash(self.params[__I__])", n)
    if e is not None and isinstance(e["I"], ast.Constant) and isinstance(e["I"].value, int):
        return f"(.obj {e['I'].value})"
    raise T.TieBroken(f"{what}: `{src(n)[:100]}` is outside the grammar hash(self.calc_type) | hash(tuple(self.params[i].flatten().tolist())) "
                      f"| hash(self.params[i]) | <e> ^ <e>")


def tr_hash(fn):
    W = "PhononContributionTaskParams.__hash__"
    if sig(fn, W) != ["self"]: raise T.TieBroken(f"{W}: signature is not (self)")
    b = fn.body
    if not (len(b) in (1, 2) and isinstance(b[0], ast.If) and len(b[0].body) == 1 and isinstance(b[0].body[0], ast.Return)):
        raise T.TieBroken(f"{W}: body is not `if self.calc_type <op> {ENUM}.<M>: return <e> else: return <e>`")
    t = b[0].test
    if not (isinstance(t, ast.Compare) and len(t.ops) == 1 and isinstance(t.ops[0], (ast.Eq, ast.NotEq)) and src(t.left) == "self.calc_type"):
        raise T.TieBroken(f"{W}: test `{src(t)}` is not self.calc_type ==/!= {ENUM}.<M>")
    member = enum_member(t.comparators[0], W)
    if b[0].orelse and len(b) == 1 and len(b[0].orelse) == 1 and isinstance(b[0].orelse[0], ast.Return): other = b[0].orelse[0]
    elif not b[0].orelse and len(b) == 2 and isinstance(b[1], ast.Return): other = b[1]
    else: raise T.TieBroken(f"{W}: no single return for the other branch")
    first, second = hash_expr(b[0].body[0].value, W), hash_expr(other.value, W)
    when_member, otherwise = (first, second) if isinstance(t.ops[0], ast.Eq) else (second, first)
    return member, when_member, otherwise


# ------------------------------------------------------------------------------------------------ __eq__
def tr_eq(fn, consts):
    W = "PhononContributionTaskParams.__eq__"
    if sig(fn, W) != ["self", "other"]: raise T.TieBroken(f"{W}: signature is not (self, other)")
    tol = []

    def test(t):
        if src(t) == "self.calc_type != other.calc_type": return ".calcTypeNe"
        e = try_expr("self.params[__I__] != other.params[__I__]", t)
        if e is not None and isinstance(e["I"], ast.Constant) and isinstance(e["I"].value, int): return f"(.objNe {e['I'].value})"
        if isinstance(t, ast.UnaryOp) and isinstance(t.op, ast.Not) and isinstance(t.operand, ast.Call) and src(t.operand.func) == "numpy.allclose":
            c = t.operand
            kw = {k.arg: k.value for k in c.keywords}
            if len(c.args) != 2 or set(kw) != {"rtol", "atol"}:
                raise T.TieBroken(f"{W}: `{src(c)[:100]}` is not numpy.allclose(<a>, <b>, rtol=…, atol=…)")
            def num(n):
                if isinstance(n, ast.Name) and n.id in consts: return consts[n.id]
                if isinstance(n, ast.Constant) and isinstance(n.value, (int, float)) and not isinstance(n.value, bool): return Fraction(str(n.value))
                raise T.TieBroken(f"{W}: tolerance `{src(n)}` is neither a numeric literal nor a module-level numeric constant")
            tol.append((num(kw["rtol"]), num(kw["atol"])))
            a, b2 = c.args
            e = try_expr("self.params[__I__]", a)
            if e is not None and isinstance(e["I"], ast.Constant) and src(b2) == f"other.params[{e['I'].value}]":
                return f"(.notClose (some {e['I'].value}) true)"
            e = try_expr("other.params[__I__]", a)
            if e is not None and isinstance(e["I"], ast.Constant) and src(b2) == f"self.params[{e['I'].value}]":
                return f"(.notClose (some {e['I'].value}) false)"
            if src(a) == "self.params" and src(b2) == "other.params": return "(.notClose none true)"
            if src(a) == "other.params" and src(b2) == "self.params": return "(.notClose none false)"
            raise T.TieBroken(f"{W}: operands of `{src(c)[:100]}`")
        raise T.TieBroken(f"{W}: test `{src(t)[:100]}` outside grammar")

    def seq(stmts, final_needed=True):
        out = []
        for n, st in enumerate(stmts):
            if isinstance(st, ast.Return):
                if src(st) != "return True" or n != len(stmts) - 1: raise T.TieBroken(f"{W}: `{src(st)}` (only a final `return True` is in the grammar)")
                return out, True
            if isinstance(st, ast.If) and not st.orelse and len(st.body) == 1 and src(st.body[0]) == "return False":
                out.append(test(st.test)); continue
            return out, st
        return out, None

    pre, rest = seq(fn.body)
    if not isinstance(rest, ast.If): raise T.TieBroken(f"{W}: no branch on the calc type after the leading tests")
    if rest is not fn.body[-1]: raise T.TieBroken(f"{W}: statements after the branch on the calc type")
    t = rest.test
    if not (isinstance(t, ast.Compare) and len(t.ops) == 1 and isinstance(t.ops[0], ast.Eq) and src(t.left) == "self.calc_type"):
        raise T.TieBroken(f"{W}: branch test `{src(t)}` is not self.calc_type == {ENUM}.<M>")
    member = enum_member(t.comparators[0], W)
    th, r1 = seq(rest.body)
    el, r2 = seq(rest.orelse)
    if r1 is not True or r2 is not True: raise T.TieBroken(f"{W}: a branch does not end in `return True`")
    if not tol: raise T.TieBroken(f"{W}: no numpy.allclose call")
    if len(set(tol)) != 1: raise T.TieBroken(f"{W}: different tolerances in different numpy.allclose calls: {sorted(set(tol))}")
    return pre, member, th, el, tol[0]


# ------------------------------------------------------------------------------------------------ key normalisation
def tr_keynorm(stmt, what):
    """if isinstance(_key, Cls): P = _key  else: A, B = _key; P = Cls.create(X, Y)"""
    e = match_stmt("if isinstance(__ARG__, __CLS__):\n    __P__ = __ARG__\nelse:\n    __A__, __B__ = __ARG__\n    __P__ = __CLS__.create(__X__, __Y__)", stmt, what)
    return {"arg": want_name(e["ARG"], what), "cls": want_name(e["CLS"], what), "var": want_name(e["P"], what),
            "targets": [want_name(e["A"], what), want_name(e["B"], what)], "create": [atom(e["X"], what), atom(e["Y"], what)]}


def l_keynorm(k):
    return f"{{ cls := {q(k['cls'])}, tupleTargets := {lstrs(k['targets'])}, createArgs := {lstrs(k['create'])} }}"


# ------------------------------------------------------------------------------------------------ the generator
def gen_tasks_glue():
    path = os.path.join(T.REPO, REL)
    with warnings.catch_warnings():
        warnings.simplefilter("ignore")
        raw = ast.parse(open(path).read())
    tree = _Strip().visit(copy.deepcopy(raw))
    ast.fix_missing_locations(tree)
    classes = {c.name: c for c in tree.body if isinstance(c, ast.ClassDef)}
    raw_classes = {c.name: c for c in raw.body if isinstance(c, ast.ClassDef)}
    for need in CLASSES:
        if need not in classes: raise T.TieBroken(f"class {need} not found in {REL}")

    def fns_of(cname):
        out = {}
        for f in classes[cname].body:
            if isinstance(f, (ast.FunctionDef, ast.AsyncFunctionDef)): out[f.name] = f
        return out

    def need_fn(cname, name):
        tab = fns_of(cname)
        if name not in tab: raise T.TieBroken(f"{cname}.{name} not found")
        return tab[name]

    covered = {}                                  # (class, method) -> translated | pinned | TasksSpec
    L = []
    out = L.append
    out("-- GENERATED by tools/gens/tasks_src.py from cij/core/tasks.py (+ signatures of phonon_contribution/*.py) — do not edit")
    out("import CijModel.TasksGlue")
    out("open Cij.TasksGlue")
    out("namespace Generated.TasksGlue\n")

    # ---------------------------------------------------------------- module level
    consts, mod_assigns, mod_other, imports = {}, [], [], []
    for st in tree.body:
        if isinstance(st, ast.Assign):
            for t in st.targets:
                nm = want_name(t, "module level assignment")
                kind = "const" if isinstance(st.value, ast.Constant) else ("call:" + src(st.value.func) if isinstance(st.value, ast.Call) else "expr")
                mod_assigns.append((nm, kind))
                if isinstance(st.value, ast.Constant) and isinstance(st.value.value, (int, float)) and not isinstance(st.value.value, bool):
                    consts[nm] = Fraction(str(st.value.value))
        elif isinstance(st, ast.Import):
            for a in st.names: imports.append((a.asname or a.name, a.name))
        elif isinstance(st, ast.ImportFrom):
            for a in st.names: imports.append((a.asname or a.name, ("." * st.level) + (st.module or "") + "." + a.name))
        elif isinstance(st, (ast.ClassDef, ast.Pass)): pass
        elif isinstance(st, ast.Expr) and isinstance(st.value, ast.Constant): pass
        else: mod_other.append(type(st).__name__ + ": " + src(st)[:60])
    out("/-- module-level assignments (name, kind of value) -/")
    out(f"def moduleAssigns : List (String × String) := {lpairs(mod_assigns)}")
    out("/-- module-level statements other than import / class / assignment / docstring -/")
    out(f"def moduleOtherStatements : List String := {lstrs(mod_other)}")
    out("/-- imports: (name bound, what it is) -/")
    out(f"def moduleImports : List (String × String) := {lpairs(imports)}\n")

    # ---------------------------------------------------------------- classes: bases, class-level statements, nested defs, defaults
    bases, class_stmts, all_methods, nested, defaults, scope_decls, decos = [], [], [], [], [], [], []
    for cname in classes:
        c = classes[cname]
        bases.append((cname, [src(x) for x in c.bases] + [f"{k.arg}={src(k.value)}" for k in c.keywords] + ["@" + src(d) for d in c.decorator_list]))
        for st in raw_classes[cname].body:
            if isinstance(st, (ast.FunctionDef, ast.AsyncFunctionDef)): continue
            if isinstance(st, ast.Expr) and isinstance(st.value, ast.Constant): continue
            if isinstance(st, ast.Pass): continue
            if isinstance(st, ast.AnnAssign) and st.value is None and isinstance(st.target, ast.Name):
                class_stmts.append((cname, "field", st.target.id)); continue
            class_stmts.append((cname, type(st).__name__, src(st)[:80]))
        if cname not in CLASSES: continue
        for f in c.body:
            if isinstance(f, (ast.FunctionDef, ast.AsyncFunctionDef)):
                all_methods.append((cname, f.name))
                decos.append((cname, f.name, decorator_kind(f)))
                for n in ast.walk(f):
                    if n is not f and isinstance(n, (ast.FunctionDef, ast.AsyncFunctionDef, ast.Lambda, ast.ClassDef)):
                        nested.append((cname, f.name, type(n).__name__))
                    if isinstance(n, (ast.Global, ast.Nonlocal)):
                        scope_decls.append((cname, f.name, type(n).__name__.lower() + " " + ", ".join(n.names)))
                for d in list(f.args.defaults) + [x for x in f.args.kw_defaults if x is not None]:
                    if not isinstance(d, ast.Constant): defaults.append((cname, f.name, src(d)[:40]))
    extra_classes = [c for c in classes if c not in CLASSES]
    out("/-- every class of the module: base classes / keywords / class decorators -/")
    out("def classBases : List (String × List String) := [" + ", ".join(f"({q(a)}, {lstrs(b)})" for a, b in bases) + "]")
    out("/-- class-body statements other than `def` and docstring: (class, kind, text); a bare annotation `x: T` is a NamedTuple field -/")
    out(f"def classStatements : List (String × String × String) := {lpairs(class_stmts)}")
    out("/-- classes of the module besides the four -/")
    out(f"def otherClasses : List String := {lstrs(extra_classes)}")
    out("/-- nested functions / lambdas / classes inside methods; `global` / `nonlocal`; default arguments that are not constants -/")
    out(f"def nestedDefinitions : List (String × String × String) := {lpairs(nested)}")
    out(f"def scopeDeclarations : List (String × String × String) := {lpairs(scope_decls)}")
    out(f"def nonConstDefaults : List (String × String × String) := {lpairs(defaults)}")
    out("/-- decorators of every method: (class, method, `method` | decorator list) -/")
    out(f"def methodDecorators : List (String × String × String) :=\n  {lpairs(decos)}\n")
    dk = {(a, b): k for a, b, k in decos}

    # ---------------------------------------------------------------- PhononContributionTaskParams
    C = "PhononContributionTaskParams"
    member, when_member, otherwise = tr_hash(need_fn(C, "__hash__"))
    covered[(C, "__hash__")] = "translated"
    out("/-- `__hash__`: the calc type named takes the first tree, every other calc type the second; leaves: `.calcType` = `hash(self.calc_type)`,\n"
        "`.floats i` = `hash(tuple(self.params[i].flatten().tolist()))`, `.obj i` = `hash(self.params[i])`; `.xor` = `^` -/")
    out(f"def hashSpec : HashSpec :=\n  {{ typeName := {q(member)},\n    whenType := {when_member},\n    otherwise := {otherwise} }}\n")
    pre, emember, th, el, tol = tr_eq(need_fn(C, "__eq__"), consts)
    covered[(C, "__eq__")] = "translated"
    out("/-- `__eq__(self, other)`: `pre` = the leading `if <test>: return False` statements; then `if self.calc_type == <typeName>:` with the\n"
        "tests of either branch, each branch ending in `return True`.  Tests: `.calcTypeNe` = `self.calc_type != other.calc_type`,\n"
        "`.objNe i` = `self.params[i] != other.params[i]`, `.notClose (some i) selfFirst` = `not numpy.allclose(self.params[i], other.params[i], …)`,\n"
        "`.notClose none selfFirst` = `not numpy.allclose(self.params, other.params, …)` (`selfFirst = false`: operands exchanged);\n"
        "`rtol`, `atol`: the keywords of every allclose call as exact fractions (numerator, denominator) -/")
    out(f"def eqSpec : EqSpec :=\n  {{ pre := [{', '.join(pre)}], typeName := {q(emember)},\n    whenType := [{', '.join(th)}],\n    otherwise := [{', '.join(el)}],\n"
        f"    rtol := ({tol[0].numerator}, {tol[0].denominator}), atol := ({tol[1].numerator}, {tol[1].denominator}) }}\n")
    pins = {
        (C, "create"): "def create(cls, strain, key):\n    return cls(key.calc_type, cls._make_param_by_strain_key(strain, key))",
        (C, "_make_param_by_strain_key"):
            "def _make_param_by_strain_key(strain, key):\n    if key.is_shear:\n        return (strain, key)\n    else:\n"
            "        _l0, _l1, _l2, _l3 = key.s\n        return (strain[:, _l0 - 1] / numpy.sum(strain, axis=1), strain[:, _l2 - 1] / numpy.sum(strain, axis=1))",
    }
    for (cn, name), want in pins.items():
        got = canon_text(need_fn(cn, name))
        if got != want: raise T.TieBroken(f"{cn}.{name} changed (normalised text): {got!r}")
        covered[(cn, name)] = "TasksSpec"
    for name, want in (("create", "classmethod"), ("_make_param_by_strain_key", "staticmethod"), ("__eq__", "method"), ("__hash__", "method")):
        if dk[(C, name)] != want: raise T.TieBroken(f"{C}.{name}: decorator `{dk[(C, name)]}` (expected {want})")

    # ---------------------------------------------------------------- PhononContributionTaskResults
    C = "PhononContributionTaskResults"
    f, _ = canon_fn(need_fn(C, "get_results_by_strain_keys")); W = f"{C}.get_results_by_strain_keys"
    params = sig(f, W)
    b = nolog(f.body)
    if len(b) != 3: raise T.TieBroken(f"{W}: {len(b)} statements (expected fresh container / loop / return)")
    e = try_stmt("__R__ = dict()", b[0]) or try_stmt("__R__ = {}", b[0])
    if e is None: raise T.TieBroken(f"{W}: `{src(b[0])}` is not a fresh local dict")
    res = want_name(e["R"], W)
    if res in params: raise T.TieBroken(f"{W}: the result rebinds a parameter")
    e = match_stmt(f"for __K__ in __IT__:\n    __P__ = PhononContributionTaskParams.create(__X__, __Y__)\n    {res}[__RK__] = self[__P__]", b[1], W)
    match_stmt(f"return {res}", b[2], W)
    it = want_name(e["IT"], W)
    if it not in params: raise T.TieBroken(f"{W}: iterates `{it}`, not a parameter")
    out("/-- `get_results_by_strain_keys(self, <params>)`: `<res> = dict()` (a FRESH local); `for <loopVar> in <iterates>:`\n"
        "`params = PhononContributionTaskParams.create(<createArgs>)`; `<res>[<keyedBy>] = self[params]`; `return <res>` -/")
    out(f"def resultsSpec : ResultsSpec :=\n  {{ params := {lstrs(params[1:])}, iterates := {q(it)}, loopVar := {q(want_name(e['K'], W))},\n"
        f"    createArgs := {lstrs([atom(e['X'], W), atom(e['Y'], W)])}, keyedBy := {q(atom(e['RK'], W))} }}\n")
    covered[(C, "get_results_by_strain_keys")] = "translated"
    f, _ = canon_fn(need_fn(C, "__setitem__")); W = f"{C}.__setitem__"
    sp = sig(f, W)
    b = nolog(f.body)
    if len(sp) != 3 or len(b) != 2: raise T.TieBroken(f"{W}: signature / statement count")
    kn_set = tr_keynorm(b[0], W)
    if kn_set["arg"] != sp[1]: raise T.TieBroken(f"{W}: normalises `{kn_set['arg']}`, not its key parameter")
    e = match_stmt(f"super().__setitem__({kn_set['var']}, {sp[2]})", b[1], W)
    covered[(C, "__setitem__")] = "translated"
    f, _ = canon_fn(need_fn(C, "__getitem__")); W = f"{C}.__getitem__"
    gp = sig(f, W)
    b = nolog(f.body)
    if len(gp) != 2 or len(b) != 2: raise T.TieBroken(f"{W}: signature / statement count")
    kn_get = tr_keynorm(b[0], W)
    if kn_get["arg"] != gp[1]: raise T.TieBroken(f"{W}: normalises `{kn_get['arg']}`, not its key parameter")
    e = match_stmt("return next((__V__ for __PK__, __PV__ in self.data.items() if __L__ == __RHS__))", b[1], W)
    pk, pv = want_name(e["PK"], W), want_name(e["PV"], W)
    if want_name(e["V"], W) != pv: raise T.TieBroken(f"{W}: yields `{src(e['V'])}`, not the stored value")
    l, r = src(e["L"]), src(e["RHS"])
    if (l, r) == (pk, kn_get["var"]): entry_left = True
    elif (l, r) == (kn_get["var"], pk): entry_left = False
    else: raise T.TieBroken(f"{W}: the search compares `{l} == {r}` (expected the stored key with the normalised query)")
    out("/-- key normalisation of `__setitem__` / `__getitem__`: `if isinstance(_key, <cls>): params = _key  else: <tupleTargets> = _key;`\n"
        "`params = <cls>.create(<createArgs>)` -/")
    out(f"def setitemNorm : KeyNorm := {l_keynorm(kn_set)}")
    out(f"def getitemNorm : KeyNorm := {l_keynorm(kn_get)}")
    out("/-- `__setitem__` ends in `super().__setitem__(params, _val)` (UserDict: `self.data[params] = _val`) -/")
    out(f"def setitemStores : String := {q('super().__setitem__(<normalised key>, <value parameter>)')}")
    out("/-- `__getitem__`: `return next(v for p, v in self.data.items() if <p == params | params == p>)`: a linear search in insertion order,\n"
        "first entry whose key is equal under `__eq__` (`entryLeft`: the stored key is the left operand), no default (StopIteration) -/")
    out(f"def getitemSearch : Search := {{ over := {q('self.data.items()')}, entryLeft := {lbool(entry_left)}, hasDefault := false }}\n")
    covered[(C, "__getitem__")] = "translated"

    # ---------------------------------------------------------------- PhononContributionTask
    C = "PhononContributionTask"
    f = need_fn(C, "__init__"); W = f"{C}.__init__"
    ip = sig(f, W, allow_defaults=(("calculator", "None"),))
    b = nolog(f.body)
    if len(b) != 3: raise T.TieBroken(f"{W}: {len(b)} statements (expected key / task params / class dispatch)")
    e0 = match_stmt("self.__KA__ = __KV__", b[0], W)
    e1 = match_stmt("self.__PA__ = PhononContributionTaskParams.create(__X__, __Y__)", b[1], W)
    disp = []
    node = b[2]
    while node is not None:
        if not (isinstance(node, ast.If) and len(node.body) == 1): raise T.TieBroken(f"{W}: dispatch outside grammar: `{src(node)[:80]}`")
        t = try_expr("self.key.__PRED__", node.test)
        if t is None: raise T.TieBroken(f"{W}: dispatch test `{src(node.test)}` is not self.key.<predicate>")
        st = node.body[0]
        if not (isinstance(st, ast.Assign) and len(st.targets) == 1 and src(st.targets[0]) == "self.calculator" and isinstance(st.value, ast.Call)
                and isinstance(st.value.func, ast.Name) and not st.value.keywords):
            raise T.TieBroken(f"{W}: `{src(st)[:100]}` is not self.calculator = <Class>(<positional arguments>)")
        disp.append((t["PRED"], st.value.func.id, [src(a) for a in st.value.args]))
        if not node.orelse: node = None
        elif len(node.orelse) == 1: node = node.orelse[0]
        else: raise T.TieBroken(f"{W}: else branch with several statements")
    out("/-- `PhononContributionTask.__init__(self, <params>)`: `self.<keyAttr> = <keyValue>`; `self.<paramsAttr> = PhononContributionTaskParams.create(<createArgs>)`;\n"
        "then the if/elif chain `if self.key.<predicate>: self.calculator = <Class>(<arguments>)` as (predicate, class, arguments) -/")
    out(f"def taskInit : TaskInit :=\n  {{ params := {lstrs(ip[1:])}, keyAttr := {q(e0['KA'])}, keyValue := {q(atom(e0['KV'], W))}, paramsAttr := {q(e1['PA'])},\n"
        f"    createArgs := {lstrs([atom(e1['X'], W), atom(e1['Y'], W)])},\n    dispatch := [" +
        ", ".join(f"({q(a)}, {q(c)}, {lstrs(args)})" for a, c, args in disp) + "] }\n")
    covered[(C, "__init__")] = "translated"
    props = []
    for name in ("calc_type", "task_params", "params"):
        f = need_fn(C, name); W = f"{C}.{name}"
        b = nolog(f.body)
        if len(b) != 1 or not isinstance(b[0], ast.Return) or sig(f, W) != ["self"]: raise T.TieBroken(f"{W}: not a single return")
        props.append((name, dk[(C, name)], src(b[0].value)))
        covered[(C, name)] = "translated"
    out("/-- the read-only attributes: (name, decorator, returned expression) -/")
    out(f"def taskProps : List (String × String × String) := {lpairs(props)}\n")
    f = need_fn(C, "get_dependencies"); W = f"{C}.get_dependencies"
    b = nolog(f.body)
    if len(b) != 2 or sig(f, W) != ["self"]: raise T.TieBroken(f"{W}: {len(b)} statements (expected the non-shear exit and one return)")
    st = b[0]
    if not (isinstance(st, ast.If) and not st.orelse and len(st.body) == 1 and src(st.body[0]) == "return []" and isinstance(st.test, ast.Compare)
            and len(st.test.ops) == 1 and isinstance(st.test.ops[0], ast.In) and src(st.test.left) == "self.calc_type"
            and isinstance(st.test.comparators[0], (ast.Set, ast.Tuple, ast.List))):
        raise T.TieBroken(f"{W}: `{src(st)[:100]}` is not `if self.calc_type in {{…}}: return []`")
    empty_for = [enum_member(x, W) for x in st.test.comparators[0].elts]
    if not isinstance(b[1], ast.Return): raise T.TieBroken(f"{W}: last statement is not a return")
    terms = []
    def plus(n):
        if isinstance(n, ast.BinOp) and isinstance(n.op, ast.Add): plus(n.left); plus(n.right)
        else: terms.append(n)
    plus(b[1].value)
    pairs = []
    for t in terms:
        e = try_expr("list(itertools.product([self.calculator.__SA__], self.calculator.__KM__()))", t)
        if e is None: raise T.TieBroken(f"{W}: term `{src(t)[:100]}` is not list(itertools.product([self.calculator.<strain>], self.calculator.<keys>()))")
        pairs.append((e["SA"], e["KM"]))
    out("/-- `get_dependencies`: `[]` for the calc types listed; otherwise the concatenation, in this order, of\n"
        "`list(itertools.product([self.calculator.<strain attribute>], self.calculator.<key-list method>()))` -/")
    out(f"def depsSpec : DepsSpec := {{ emptyFor := {lstrs(empty_for)}, pairs := {lpairs(pairs)} }}\n")
    covered[(C, "get_dependencies")] = "translated"
    gms = []
    for name in ("get_modulus_isothermal", "get_modulus_adiabatic"):
        f = need_fn(C, name); W = f"{C}.{name}"
        b = nolog(f.body)
        if len(b) != 2 or sig(f, W) != ["self"]: raise T.TieBroken(f"{W}: {len(b)} statements (expected the shear block and one return)")
        st = b[0]
        if not (isinstance(st, ast.If) and not st.orelse and isinstance(st.test, ast.Compare) and len(st.test.ops) == 1
                and isinstance(st.test.ops[0], ast.Eq) and src(st.test.left) == "self.calc_type"):
            raise T.TieBroken(f"{W}: `{src(st)[:80]}` is not `if self.calc_type == {ENUM}.<M>:`")
        gmember = enum_member(st.test.comparators[0], W)
        assigns = []
        for a in st.body:
            e = match_stmt("self.calculator.__CA__ = self.__TA__", a, W)
            assigns.append((e["CA"], e["TA"]))
        e = match_stmt("return self.calculator.__V__", b[1], W)
        gms.append((name, gmember, assigns, e["V"]))
        covered[(C, name)] = "translated"
    out("/-- `get_modulus_isothermal` / `get_modulus_adiabatic`: `if self.calc_type == <guardType>:` the assignments\n"
        "`self.calculator.<a> = self.<b>` as (a, b); `return self.calculator.<returns>` -/")
    out("def getModulus : List GetModulus :=\n  [" + ",\n   ".join(
        f"{{ name := {q(n)}, guardType := {q(g)}, assigns := {lpairs(a)}, returns := {q(v)} }}" for n, g, a, v in gms) + "]\n")

    # ---------------------------------------------------------------- PhononContributionTaskList
    C = "PhononContributionTaskList"
    f = need_fn(C, "__init__"); W = f"{C}.__init__"
    lp = sig(f, W)
    binds, calls_super = [], 0
    for st in nolog(f.body):
        if try_stmt("super().__init__()", st) is not None: calls_super += 1; continue
        e = match_stmt("self.__A__ = __V__", st, W)
        v = e["V"]
        if isinstance(v, ast.Name) and v.id in lp[1:]: binds.append((e["A"], "param:" + v.id))
        elif isinstance(v, ast.Call) and isinstance(v.func, ast.Name) and not v.args and not v.keywords: binds.append((e["A"], "new:" + v.func.id))
        else: raise T.TieBroken(f"{W}: `{src(st)[:80]}` binds neither a parameter nor `<Class>()`")
    out("/-- `PhononContributionTaskList.__init__(self, <params>)`: every `self.<attr> = …` as (attr, `param:<name>` | `new:<Class>` = a constructor\n"
        "call evaluated in this `__init__`); number of `super().__init__()` calls -/")
    out(f"def listInitParams : List String := {lstrs(lp[1:])}")
    out(f"def listInit : List (String × String) := {lpairs(binds)}")
    out(f"def listInitSuperCalls : Nat := {calls_super}\n")
    covered[(C, "__init__")] = "translated"

    f, resolve_names = canon_fn(need_fn(C, "resolve")); W = f"{C}.resolve"
    rp = sig(f, W)
    b = nolog(f.body)
    loops = [n for n, st in enumerate(b) if isinstance(st, ast.While)]
    if len(loops) != 1: raise T.TieBroken(f"{W}: {len(loops)} while loops")
    wpos = loops[0]
    writes = []           # (attribute, value, phase)
    q_name = tasks_name = graph_name = None
    factors = None
    for st in b[:wpos]:
        e = try_stmt("self.__A__ = __V__", st)
        if e is not None:
            writes.append((e["A"], atom(e["V"], W), "before")); continue
        e = try_stmt("__Q__ = list(itertools.product(__F0__, __F1__, __F2__))", st)
        if e is not None:
            q_name = want_name(e["Q"], W)
            factors = []
            for k in ("F0", "F1", "F2"):
                fx = e[k]
                if isinstance(fx, ast.List) and len(fx.elts) == 1: factors.append(f"(.single {q(atom(fx.elts[0], W))})")
                elif isinstance(fx, ast.Name): factors.append(f"(.each {q(fx.id)})")
                else: raise T.TieBroken(f"{W}: queue factor `{src(fx)}` is neither `[<atom>]` nor a name")
            continue
        e = try_stmt("__T__ = []", st)
        if e is not None: tasks_name = want_name(e["T"], W); continue
        e = try_stmt("__G__ = nx.DiGraph()", st)
        if e is not None: graph_name = want_name(e["G"], W); continue
        raise T.TieBroken(f"{W}: statement before the loop outside grammar: `{src(st)[:100]}`")
    if None in (q_name, tasks_name, graph_name): raise T.TieBroken(f"{W}: queue / task list / graph not initialised before the loop")
    wl = b[wpos]
    if wl.orelse or src(wl.test) not in (f"not len({q_name}) == 0", f"len({q_name}) != 0", f"len({q_name}) > 0", q_name):
        raise T.TieBroken(f"{W}: loop condition `{src(wl.test)}` is not `while the queue is non-empty`")
    lb = nolog(wl.body)
    if len(lb) != 6: raise T.TieBroken(f"{W}: loop body has {len(lb)} statements (expected pop / create / lookup / new-or-known / edge / push)")
    e = try_stmt(f"__A__, __B__, __C__ = {q_name}.pop()", lb[0]); pop_end = ".last"
    if e is None:
        e = try_stmt(f"__A__, __B__, __C__ = {q_name}.pop(0)", lb[0]); pop_end = ".first"
    if e is None:
        e = try_stmt(f"__A__, __B__, __C__ = {q_name}.pop(-1)", lb[0]); pop_end = ".last"
    if e is None: raise T.TieBroken(f"{W}: `{src(lb[0])[:80]}` is not `a, b, c = {q_name}.pop()` / `.pop(0)`")
    pop_targets = [want_name(e[k], W) for k in "ABC"]
    e = match_stmt("__P__ = PhononContributionTaskParams.create(__X__, __Y__)", lb[1], W)
    pvar, create_args = want_name(e["P"], W), [atom(e["X"], W), atom(e["Y"], W)]
    e = match_stmt(f"__TK__ = next((__T__ for __T__ in {tasks_name} if __L__ == __RHS__), None)", lb[2], W)
    tvar, cand = want_name(e["TK"], W), want_name(e["T"], W)
    l, r = e["L"], e["RHS"]
    ca = try_expr(f"{cand}.__ATTR__", l)
    if ca is not None and src(r) == pvar: cand_left, lattr = True, ca["ATTR"]
    else:
        ca = try_expr(f"{cand}.__ATTR__", r)
        if ca is not None and src(l) == pvar: cand_left, lattr = False, ca["ATTR"]
        else: raise T.TieBroken(f"{W}: the lookup compares `{src(l)} == {src(r)}` (expected <candidate>.<attribute> with the new parameters)")
    st = lb[3]
    if not (isinstance(st, ast.If) and src(st.test) == f"{tvar} is None" and len(nolog(st.body)) == 4 and len(nolog(st.orelse)) == 1):
        raise T.TieBroken(f"{W}: `{src(st)[:80]}` is not `if {tvar} is None: <4 statements> else: <1 statement>`")
    nb = nolog(st.body)
    e = match_stmt(f"{tvar} = PhononContributionTask(__X__, __Y__, __Z__)", nb[0], W)
    new_args = [atom(e[k], W) for k in "XYZ"]
    match_stmt(f"{tasks_name}.append({tvar})", nb[1], W)
    e = try_stmt(f"__CU__ = len({tasks_name}) - __K__", nb[2]); sign = -1
    if e is None:
        e = try_stmt(f"__CU__ = len({tasks_name}) + __K__", nb[2]); sign = 1
    if e is None:
        e = try_stmt(f"__CU__ = len({tasks_name})", nb[2]); sign = 0
    if e is None or (sign and not (isinstance(e["K"], ast.Constant) and isinstance(e["K"].value, int))):
        raise T.TieBroken(f"{W}: `{src(nb[2])[:80]}` is not `curr = len({tasks_name}) ± <integer>`")
    curr = want_name(e["CU"], W)
    off = sign * e["K"].value if sign else 0
    match_stmt(f"{graph_name}.add_node({curr})", nb[3], W)
    match_stmt(f"{curr} = {tasks_name}.index({tvar})", nolog(st.orelse)[0], W)
    st = lb[4]
    e = match_stmt(f"if __D__ is not None:\n    {graph_name}.add_edge(__EA__, __EB__)", ast.If(test=st.test, body=nolog(st.body), orelse=st.orelse) if isinstance(st, ast.If) else st, W)
    guard, edge = want_name(e["D"], W), (want_name(e["EA"], W), want_name(e["EB"], W))
    st = lb[5]
    if isinstance(st, ast.For): st = ast.For(target=st.target, iter=st.iter, body=nolog(st.body), orelse=st.orelse)
    e = try_stmt(f"for __S__, __K__ in {tvar}.__M__():\n    {q_name}.append((__I0__, __I1__, __I2__))", st); push_end = ".last"
    if e is None:
        e = try_stmt(f"for __S__, __K__ in {tvar}.__M__():\n    {q_name}.insert(0, (__I0__, __I1__, __I2__))", st); push_end = ".first"
    if e is None: raise T.TieBroken(f"{W}: `{src(st)[:120]}` is not `for a, b in {tvar}.<method>(): {q_name}.append((…, …, …))`")
    push_targets = [want_name(e["S"], W), want_name(e["K"], W)]
    push_item = [atom(e[k], W) for k in ("I0", "I1", "I2")]
    push_method = e["M"]
    after = b[wpos + 1:]
    if len(after) < 2: raise T.TieBroken(f"{W}: nothing after the loop")
    e = match_stmt(f"__O__ = __SORT__({graph_name})", after[0], W)
    orders, sort_fn = want_name(e["O"], W), src(e["SORT"])
    e = match_stmt(f"self.__DA__ = [{tasks_name}[__I__] for __I__ in {orders}]", after[1], W)
    writes.append((e["DA"], "[tasks[i] for i in sorted]", "after"))
    data_attr = e["DA"]
    for st in after[2:]:
        e = match_stmt("self.__A__ = __V__", st, W)
        writes.append((e["A"], {tasks_name: "tasks", graph_name: "graph"}.get(atom(e["V"], W), atom(e["V"], W)), "after"))
    rebound = sorted({n.id for n in ast.walk(wl) if isinstance(n, ast.Name) and isinstance(n.ctx, ast.Store)})
    out("/-- `resolve(self, <params>)` as a work-list program.\n"
        "before the loop: `q = list(itertools.product(<queueInit>))` (`.single x` = `[x]`, `.each x` = the iterable `x`), `tasks = []`, `graph = nx.DiGraph()`;\n"
        "`while` the queue is non-empty: `<popTargets> = q.pop()` (`.last`) | `q.pop(0)` (`.first`);\n"
        "  `<paramsVar> = PhononContributionTaskParams.create(<createArgs>)`;\n"
        "  `<taskVar> = next((t for t in tasks if t.<lookupAttr> == <paramsVar>), None)` — `lookupCandidateLeft`: the candidate is the LEFT operand of `==`;\n"
        "  `if <taskVar> is None: <taskVar> = PhononContributionTask(<newTaskArgs>); tasks.append(<taskVar>); <currVar> = len(tasks) + <currNewOffset>; graph.add_node(<currVar>)`\n"
        "  `else: <currVar> = tasks.index(<taskVar>)`;\n"
        "  `if <edgeGuard> is not None: graph.add_edge(<edge.1>, <edge.2>)`;\n"
        "  `for <pushTargets> in <taskVar>.<pushMethod>(): q.append((<pushItem>))` (`.last`) | `q.insert(0, …)` (`.first`);\n"
        "after the loop: `orders = <sortFn>(graph)`; `self.<dataAttr> = [tasks[idx] for idx in orders]` -/")
    out("def workList : WorkList :=")
    out(f"  {{ params := {lstrs(rp[1:])}, queueInit := [{', '.join(factors)}], popEnd := {pop_end}, popTargets := {lstrs(pop_targets)},")
    out(f"    paramsVar := {q(pvar)}, createArgs := {lstrs(create_args)}, taskVar := {q(tvar)}, lookupAttr := {q(lattr)}, lookupCandidateLeft := {lbool(cand_left)},")
    out(f"    newTaskArgs := {lstrs(new_args)}, currVar := {q(curr)}, currNewOffset := {lint(off)}, edgeGuard := {q(guard)}, edge := ({q(edge[0])}, {q(edge[1])}),")
    out(f"    pushMethod := {q(push_method)}, pushTargets := {lstrs(push_targets)}, pushItem := {lstrs(push_item)}, pushEnd := {push_end},")
    out(f"    sortFn := {q(sort_fn)}, dataAttr := {q(data_attr)} }}\n")
    out("/-- the locals of `resolve` as written in the source: (canonical name used above, source name) — documentation only -/")
    out(f"def resolveLocalNames : List (String × String) := {lpairs(sorted(resolve_names.items(), key=lambda kv: int(kv[0][2:])))}")
    out("/-- every `self.<attr> = <value>` of `resolve`: (attr, value, `before` | `after` the loop); none inside the loop (the grammar has no such statement) -/")
    out(f"def resolveAttrWrites : List (String × String × String) := {lpairs(writes)}")
    out("/-- the local names the loop (re)binds — among them the parameter `strain`: after the first `pop()` it no longer is the requested strain -/")
    out(f"def resolveLoopRebinds : List String := {lstrs(rebound)}\n")
    covered[(C, "resolve")] = "translated"

    f = need_fn(C, "calculate"); W = f"{C}.calculate"
    b = nolog(f.body)
    if len(b) != 1 or sig(f, W) != ["self"] or not isinstance(b[0], ast.For) or b[0].orelse: raise T.TieBroken(f"{W}: body is not one for loop")
    lp_ = b[0]
    tv = want_name(lp_.target, W)
    e = try_expr("self.__D__", lp_.iter)
    if e is None: raise T.TieBroken(f"{W}: iterates `{src(lp_.iter)}`, not an attribute of self")
    loop_over = e["D"]
    cb = nolog(lp_.body)
    if not cb or not isinstance(cb[0], ast.If) or cb[0].orelse: raise T.TieBroken(f"{W}: the loop does not start with the shear block")
    t = cb[0].test
    if not (isinstance(t, ast.Compare) and len(t.ops) == 1 and isinstance(t.ops[0], ast.Eq) and src(t.left) == f"{tv}.calc_type"):
        raise T.TieBroken(f"{W}: `{src(t)}` is not `{tv}.calc_type == {ENUM}.<M>`")
    cmember = enum_member(t.comparators[0], W)
    feeds = []
    for st in nolog(cb[0].body):
        e = match_stmt(f"{tv}.__TA__ = self.__ST__.get_results_by_strain_keys({tv}.calculator.__SA__, {tv}.calculator.__KM__())", st, W)
        feeds.append((e["TA"], e["ST"], e["SA"], e["KM"]))
    stores = []
    for st in cb[1:]:
        e = match_stmt(f"self.__ST__[{tv}.__KEY__] = {tv}.__M__()", st, W)
        stores.append((e["ST"], e["KEY"], e["M"]))
    out("/-- `calculate()`: `for task in self.<loopOver>:`; `if task.calc_type == <guardType>:` the assignments\n"
        "`task.<taskAttr> = self.<store>.get_results_by_strain_keys(task.calculator.<strainAttr>, task.calculator.<keysMethod>())` (`feeds`);\n"
        "then, for EVERY task, `self.<store>[task.<key>] = task.<method>()` in this order (`writes`) -/")
    out(f"def calcSpec : CalcSpec :=\n  {{ loopOver := {q(loop_over)}, guardType := {q(cmember)},\n    feeds := [" +
        ", ".join(f"⟨{q(a)}, {q(s)}, {q(sa)}, {q(km)}⟩" for a, s, sa, km in feeds) + "],\n    writes := " + lpairs(stores) + " }\n")
    covered[(C, "calculate")] = "translated"
    getters = []
    for name in ("get_adiabatic_results", "get_isothermal_results"):
        f = need_fn(C, name); W = f"{C}.{name}"
        b = nolog(f.body)
        if len(b) != 1 or sig(f, W) != ["self"]: raise T.TieBroken(f"{W}: not a single statement")
        e = match_stmt("return self.__ST__.get_results_by_strain_keys(self.__SA__, self.__KA__)", b[0], W)
        getters.append((name, e["ST"], e["SA"], e["KA"]))
        covered[(C, name)] = "translated"
    out("/-- `get_adiabatic_results` / `get_isothermal_results`: `return self.<store>.get_results_by_strain_keys(self.<strain attr>, self.<keys attr>)` -/")
    out(f"def resultGetters : List (String × String × String × String) := {lpairs(getters)}\n")

    # ---------------------------------------------------------------- the contribution classes this wiring talks to
    srcs = [path]
    def other(rel):
        p = os.path.join(T.REPO, rel)
        srcs.append(p)
        with warnings.catch_warnings():
            warnings.simplefilter("ignore")
            t = _Strip().visit(ast.parse(open(p).read()))
        ast.fix_missing_locations(t)
        return t
    ctor = {}
    sh = other("cij/core/phonon_contribution/shear.py")
    ns = other("cij/core/phonon_contribution/nonshear.py")
    pkg = other("cij/core/phonon_contribution/__init__.py")
    pkg_exports = []
    for st in pkg.body:
        if isinstance(st, ast.ImportFrom):
            for a in st.names: pkg_exports.append((a.asname or a.name, ("." * st.level) + (st.module or ""), a.name))
    def class_tab(t):
        return {c.name: c for c in t.body if isinstance(c, ast.ClassDef)}
    def init_of(tab, cname, seen=()):
        c = tab.get(cname)
        if c is None: return None, None
        for f in c.body:
            if isinstance(f, ast.FunctionDef) and f.name == "__init__": return cname, f
        for bse in c.bases:
            if isinstance(bse, ast.Name) and bse.id not in seen:
                r = init_of(tab, bse.id, seen + (cname,))
                if r[1] is not None: return r
        return None, None
    tabs = {**class_tab(ns), **class_tab(sh)}
    ctor_rows = []
    for _, cls_name, _ in disp:
        owner, f = init_of(tabs, cls_name)
        if f is None: raise T.TieBroken(f"constructor of {cls_name} not found in phonon_contribution/")
        ctor_rows.append((cls_name, owner, [a.arg for a in f.args.args][1:]))
    out("/-- constructors of the contribution classes named in the dispatch: (class, class whose `__init__` it runs, parameter names after self) -/")
    out("def ctorParams : List (String × String × List String) := [" + ", ".join(f"({q(a)}, {q(o)}, {lstrs(ps)})" for a, o, ps in ctor_rows) + "]")
    out("/-- `cij/core/phonon_contribution/__init__.py`: (name exported, module, name there) -/")
    out(f"def contributionExports : List (String × String × String) := {lpairs(pkg_exports)}")
    shear_cls = class_tab(sh).get("ShearElasticModulusPhononContribution")
    if shear_cls is None: raise T.TieBroken("ShearElasticModulusPhononContribution not found in shear.py")
    shf = {f.name: f for f in shear_cls.body if isinstance(f, ast.FunctionDef)}
    attr_binds = []
    for st in shf["__init__"].body:
        e = try_stmt("self.__A__ = __V__", st)
        if e is not None and isinstance(e["V"], ast.Name): attr_binds.append((e["A"], e["V"].id))
    reads = []
    for name in ("get_elastic_modulus", "get_elastic_modulus_rotated"):
        if name not in shf: raise T.TieBroken(f"shear.py: {name} not found")
        e = try_stmt("return self.__A__[key]", shf[name].body[0]) if len(shf[name].body) == 1 else None
        if e is None: raise T.TieBroken(f"shear.py: {name} is not `return self.<dict>[key]`")
        reads.append((name, e["A"]))
    va = shf.get("value_adiabatic")
    e = try_stmt("return self.__V__", va.body[0]) if va is not None and len(va.body) == 1 else None
    if e is None: raise T.TieBroken("shear.py: value_adiabatic is not `return self.<attr>`")
    out("/-- the shear class (shear.py): `self.<attr> = <constructor parameter>` in `__init__`; the dictionaries `get_elastic_modulus` /\n"
        "`get_elastic_modulus_rotated` read (`return self.<dict>[key]`); what `value_adiabatic` returns -/")
    out(f"def shearInitBinds : List (String × String) := {lpairs(attr_binds)}")
    out(f"def shearIface : ShearIface := {{ origAttr := {q(reads[0][1])}, rotAttr := {q(reads[1][1])}, valueAdiabaticIs := {q(e['V'])} }}\n")

    # ---------------------------------------------------------------- inventory
    missing = [m for m in all_methods if m not in covered]
    if missing: raise T.TieBroken("methods neither translated nor pinned: " + ", ".join(f"{a}.{b}" for a, b in missing))
    out("/-- every `def` found in the four classes, in source order -/")
    out(f"def allMethods : List (String × String) :=\n  {lpairs(all_methods)}")
    out("/-- how each is tied: `translated` (data above) | `TasksSpec` (data in Generated/TasksSpec.lean, normalised text compared here) -/")
    out("def methodTies : List (String × String × String) :=\n  " + lpairs([(a, b, covered[(a, b)]) for a, b in all_methods]) + "\n")
    out("end Generated.TasksGlue\n")
    return {OUT_FILE: "\n".join(L)}, srcs


GENERATORS = {"gen_tasks_glue": (gen_tasks_glue, [OUT_FILE])}
