"""Translator plug-in: `cij/core/qha_adapter.py` and `cij/util/units.py` -> lean/Generated/QhaGlue.lean  (C02; also C13)

The two files through which the thermodynamic fields of the adiabatic correction T·V·(∂P/∂T)²/(9 e_i e_j C_V) reach cij: which C_V,
which pressure, on which grid, in which units.  Everything is read with `ast` from the working tree (`T.REPO`); nothing is imported
from cij.  Docstrings, comments, annotations, line breaks and quoting never matter.

DATA (types and meaning: lean/CijModel/QhaGlue.lean; consumed by CijProofs/Lemmas/QhaGlueSource.lean and the `c02_glue_is_source_*`
theorems of Properties/C02.lean):
  * an INVENTORY of every `def` of both modules (class, name, decorator kind, parameters) with its body as a list of statements:
      assign <dotted target> <rhs> | return <rhs> | raise <Exc> | pass | <call> | if [not] <pred>(<args>): raise <Exc> | log | other
    rhs = dotted path | call of a dotted path on dotted paths | numpy.array([x.f for x in c]) | numpy.array([x_i for (x_0,…) in c]) |
          numpy.array([[x_i for (x_0,…) in y.g] for y in c]).
    A statement outside this grammar is emitted as `other <text>`; the inventory theorem then fails (nothing is skipped silently).
    `QHACalculator.desired_pressure_status` is tied by tools/gens/adapter_guard.py (Generated.pressureGuard) and is listed as such.
  * classes with bases and class-body statements; module-level statements of both modules by kind, in order
  * units.py: `convert_unit` (parameters, default, the lambda's call chain, the `is not None` test, both returns), `__all__`, the
    registry expression, and every `_to_*` / `_from_*` helper as a pint unit expression.  The helper expressions are produced by the
    extractor of tools/gens/static_src.py (`units_spec`, which also pins the registry and `convert_unit`), applied to EVERY helper
    the file defines — one reading of unit expressions for C18 and C02.
Not re-extracted here: `_h`, `_k`, `h_div_k` of nonshear.py (Generated.NonShearGlue.unitConvs / constDefs) and `Calculator.__getattr__`
(Generated.CalcGlue.calcDelegate) — the Lean side restates them.
"""
import ast
import copy
import importlib.util
import os

import gen_tables as T

ADAPTER = "cij/core/qha_adapter.py"
UNITS = "cij/util/units.py"
ELSEWHERE = {("QHACalculator", "desired_pressure_status"): "gen_adapter_guard: Generated.pressureGuard"}

q = T.lean_str


def lstrs(xs):
    return "[" + ", ".join(q(x) for x in xs) + "]"


def lpaths(ps):
    return "[" + ", ".join(lstrs(p) for p in ps) + "]"


# ------------------------------------------------------------------------------------------------ normalisation
def nodoc(body):
    if body and isinstance(body[0], ast.Expr) and isinstance(body[0].value, ast.Constant) and isinstance(body[0].value.value, str):
        body = body[1:]
    return body


class Strip(ast.NodeTransformer):
    """annotations out (`x: T = v` -> `x = v`; a bare `x: T` disappears), docstrings out"""

    def visit_FunctionDef(self, n):
        self.generic_visit(n)
        n.returns = None
        a = n.args
        for x in a.posonlyargs + a.args + a.kwonlyargs + [y for y in (a.vararg, a.kwarg) if y is not None]:
            x.annotation = None
        n.body = nodoc([s for s in n.body if s is not None]) or [ast.Pass()]
        return n

    def visit_ClassDef(self, n):
        self.generic_visit(n)
        n.body = nodoc([s for s in n.body if s is not None]) or [ast.Pass()]
        return n

    def visit_AnnAssign(self, n):
        self.generic_visit(n)
        if n.value is None:
            return None
        return ast.copy_location(ast.Assign(targets=[n.target], value=n.value), n)


def parse(rel):
    path = os.path.join(T.REPO, rel)
    tree = Strip().visit(ast.parse(open(path).read()))
    ast.fix_missing_locations(tree)
    return path, tree


# ------------------------------------------------------------------------------------------------ expressions
def path_of(n):
    """a.b.c -> ['a','b','c'];  super().x -> ['super()','x'];  else None"""
    out = []
    while isinstance(n, ast.Attribute):
        out.append(n.attr); n = n.value
    if isinstance(n, ast.Name):
        out.append(n.id)
    elif isinstance(n, ast.Call) and isinstance(n.func, ast.Name) and n.func.id == "super" and not n.args and not n.keywords:
        out.append("super()")
    else:
        return None
    return out[::-1]


def names_of_target(t):
    if isinstance(t, ast.Name): return [t.id]
    if isinstance(t, ast.Tuple) and all(isinstance(e, ast.Name) for e in t.elts): return [e.id for e in t.elts]
    return None


def comp1(n):
    """[elt for target in iter] with one generator, no condition -> (elt, target names, iter)"""
    if isinstance(n, ast.ListComp) and len(n.generators) == 1 and not n.generators[0].ifs and not n.generators[0].is_async:
        g = n.generators[0]
        names = names_of_target(g.target)
        if names is not None: return n.elt, names, g.iter
    return None


def rhs_of(n):
    """Lean text of a `Rhs`, or None when outside the grammar"""
    p = path_of(n)
    if p is not None:
        return f"(.path {lstrs(p)})"
    if isinstance(n, ast.Constant) and n.value is None:
        return '(.path ["None"])'
    if isinstance(n, ast.Call) and not n.keywords:
        f = path_of(n.func)
        if f == ["numpy", "array"] and len(n.args) == 1:
            c = comp1(n.args[0])
            if c is not None:
                elt, names, it = c
                coll = path_of(it)
                if coll is not None and len(names) == 1 and isinstance(elt, ast.Attribute) and isinstance(elt.value, ast.Name) \
                        and elt.value.id == names[0]:
                    return f"(.arrayOfField {q(elt.attr)} {lstrs(coll)})"
                if coll is not None and isinstance(elt, ast.Name) and elt.id in names and len(names) > 1:
                    return f"(.arrayOfPick {names.index(elt.id)} {len(names)} {lstrs(coll)})"
                inner = comp1(elt)
                if coll is not None and len(names) == 1 and inner is not None:
                    e2, n2, it2 = inner
                    p2 = path_of(it2)
                    if p2 is not None and len(p2) == 2 and p2[0] == names[0] and isinstance(e2, ast.Name) and e2.id in n2 and len(n2) > 1:
                        return f"(.arrayOfNestedPick {n2.index(e2.id)} {len(n2)} {q(p2[1])} {lstrs(coll)})"
            return None
        if f is not None:
            args = [path_of(a) for a in n.args]
            if all(a is not None for a in args):
                return f"(.call {lstrs(f)} {lpaths(args)})"
    return None


def is_log_call(n):
    if not isinstance(n, ast.Call): return False
    f = path_of(n.func)
    return f is not None and f[0] in ("logger", "logging") and len(f) == 2 and f[1] in ("debug", "info", "warning", "error", "critical", "exception", "log")


def only_logs(stmts):
    for st in stmts:
        if isinstance(st, ast.Expr) and is_log_call(st.value): continue
        if isinstance(st, ast.Pass): continue
        if isinstance(st, ast.If) and only_logs(st.body) and only_logs(st.orelse): continue
        if isinstance(st, ast.For) and only_logs(st.body) and only_logs(st.orelse): continue
        return False
    return True


def exc_name(st):
    e = st.exc
    if e is None or st.cause is not None: return None
    if isinstance(e, ast.Call): e = e.func
    p = path_of(e)
    return ".".join(p) if p else None


def stmt_of(st):
    def other(): return f"(.other {q(' '.join(ast.unparse(st).split())[:120])})"
    if isinstance(st, ast.Pass): return ".pass"
    if isinstance(st, ast.Assign) and len(st.targets) == 1:
        t = path_of(st.targets[0]); r = rhs_of(st.value)
        if t is not None and r is not None: return f"(.assign {lstrs(t)} {r})"
        return other()
    if isinstance(st, ast.Return):
        if st.value is None: return '(.ret (.path ["None"]))'
        r = rhs_of(st.value)
        return f"(.ret {r})" if r is not None else other()
    if isinstance(st, ast.Raise):
        e = exc_name(st)
        return f"(.raiseExc {q(e)})" if e else other()
    if isinstance(st, ast.Expr):
        if is_log_call(st.value): return ".log"
        r = rhs_of(st.value) if isinstance(st.value, ast.Call) else None
        return f"(.expr {r})" if r is not None else other()
    if isinstance(st, (ast.If, ast.For)) and only_logs([st]):
        return ".log"
    if isinstance(st, ast.If) and not st.orelse and len(st.body) == 1 and isinstance(st.body[0], ast.Raise):
        test, neg = st.test, False
        if isinstance(test, ast.UnaryOp) and isinstance(test.op, ast.Not): test, neg = test.operand, True
        e = exc_name(st.body[0])
        if isinstance(test, ast.Call) and not test.keywords and e:
            f = path_of(test.func); args = [path_of(a) for a in test.args]
            if f is not None and all(a is not None for a in args):
                return f"(.guardRaise {'true' if neg else 'false'} {lstrs(f)} {lpaths(args)} {q(e)})"
    return other()


def kind_of(fn, in_class):
    decs = [ast.unparse(d) for d in fn.decorator_list]
    if not decs: return "method" if in_class else "function"
    if decs == ["property"]: return "property"
    if decs == ["staticmethod"]: return "staticmethod"
    return "other:" + ",".join(decs)


def params_of(fn):
    a = fn.args
    out = [x.arg for x in a.posonlyargs + a.args]
    if a.vararg: out.append("*" + a.vararg.arg)
    out += [x.arg for x in a.kwonlyargs]
    if a.kwarg: out.append("**" + a.kwarg.arg)
    return out


def def_row(cls, fn):
    how = ELSEWHERE.get((cls, fn.name))
    nested = [n for n in ast.walk(fn) if isinstance(n, (ast.FunctionDef, ast.AsyncFunctionDef, ast.ClassDef, ast.Global, ast.Nonlocal)) and n is not fn]
    body = [stmt_of(st) for st in fn.body]
    if nested: body.append(f"(.other {q('nested def/class/global inside ' + fn.name)})")
    if fn.args.defaults or fn.args.kw_defaults:
        body.append(f"(.other {q('default arguments: ' + ', '.join(ast.unparse(d) for d in fn.args.defaults + [k for k in fn.args.kw_defaults if k is not None]))})")
    return (f"{{ cls := {q(cls)}, name := {q(fn.name)}, kind := {q(kind_of(fn, bool(cls)))}, params := {lstrs(params_of(fn))},\n"
            f"     body := [{', '.join(body)}],\n     how := {'.data' if how is None else '(.elsewhere ' + q(how) + ')'} }}")


def value_kind(v):
    if isinstance(v, ast.Constant): return "const"
    if isinstance(v, (ast.List, ast.ListComp)): return "list"
    if isinstance(v, (ast.Dict, ast.DictComp)): return "dict"
    if isinstance(v, (ast.Set, ast.SetComp)): return "set"
    if isinstance(v, ast.Lambda): return "function"
    if isinstance(v, ast.Call):
        f = path_of(v.func)
        args = [ast.unparse(a) for a in v.args] + [f"{k.arg}={ast.unparse(k.value)}" for k in v.keywords]
        return "call:" + (".".join(f) if f else ast.unparse(v.func)) + "(" + ", ".join(args) + ")"
    return "expr:" + " ".join(ast.unparse(v).split())[:80]


def module_stmts(tree_raw):
    """module-level statements by kind, in order (on the unstripped tree, so that the docstring is listed)"""
    rows = []
    for i, st in enumerate(tree_raw.body):
        if isinstance(st, ast.Expr) and isinstance(st.value, ast.Constant) and isinstance(st.value.value, str):
            rows.append(("docstring" if i == 0 else "string", "", ""))
        elif isinstance(st, ast.Import):
            for a in st.names: rows.append(("import", a.asname or a.name.split(".")[0], a.name + (" as " + a.asname if a.asname else "")))
        elif isinstance(st, ast.ImportFrom):
            for a in st.names: rows.append(("import", a.asname or a.name, "." * st.level + (st.module or "") + "." + a.name))
        elif isinstance(st, ast.Assign) and len(st.targets) == 1 and isinstance(st.targets[0], ast.Name):
            rows.append(("assign", st.targets[0].id, value_kind(st.value)))
        elif isinstance(st, ast.AnnAssign) and isinstance(st.target, ast.Name) and st.value is not None:
            rows.append(("assign", st.target.id, value_kind(st.value)))
        elif isinstance(st, ast.ClassDef): rows.append(("class", st.name, ""))
        elif isinstance(st, (ast.FunctionDef, ast.AsyncFunctionDef)): rows.append(("def", st.name, ""))
        else: rows.append((type(st).__name__, "", " ".join(ast.unparse(st).split())[:80]))
    return rows


def lmod(rows):
    return "[" + ",\n   ".join(f"⟨{q(a)}, {q(b)}, {q(c)}⟩" for a, b, c in rows) + "]"


# ------------------------------------------------------------------------------------------------ units.py
def convert_unit_row(fn):
    W = "units.py: convert_unit"
    def bad(what): return T.TieBroken(f"{W}: {what}")
    a = fn.args
    if a.posonlyargs or a.kwonlyargs or a.vararg or a.kwarg: raise bad("parameters are not plain positional")
    params = [x.arg for x in a.args]
    defaults = list(zip(params[len(params) - len(a.defaults):], [ast.unparse(d) for d in a.defaults]))
    body = fn.body
    if len(body) != 2 or not isinstance(body[0], ast.Assign) or not isinstance(body[1], ast.If):
        raise bad("body is not `<f> = lambda …` followed by one `if`")
    asg, iff = body
    if len(asg.targets) != 1 or not isinstance(asg.targets[0], ast.Name) or not isinstance(asg.value, ast.Lambda):
        raise bad("first statement is not `<name> = lambda …`")
    lam = asg.value
    la = lam.args
    if la.posonlyargs or la.kwonlyargs or la.vararg or la.kwarg or la.defaults: raise bad("lambda parameters are not plain")
    e = lam.body
    # <fn>(<args>).<to>(<args>).<attr>
    if not (isinstance(e, ast.Attribute) and isinstance(e.value, ast.Call) and isinstance(e.value.func, ast.Attribute)
            and isinstance(e.value.func.value, ast.Call)):
        raise bad(f"lambda body is not <f>(…).<m>(…).<attr>: {ast.unparse(e)}")
    to_call, q_call = e.value, e.value.func.value
    qf = path_of(q_call.func)
    def names(args, kws):
        if kws or not all(isinstance(x, ast.Name) for x in args): raise bad(f"call arguments are not plain names: {ast.unparse(e)}")
        return [x.id for x in args]
    if qf is None: raise bad("quantity constructor is not a dotted name")
    qargs = names(q_call.args, q_call.keywords); targs = names(to_call.args, to_call.keywords)
    t = iff.test
    if not (isinstance(t, ast.Compare) and len(t.ops) == 1 and isinstance(t.ops[0], (ast.Is, ast.IsNot)) and isinstance(t.left, ast.Name)
            and isinstance(t.comparators[0], ast.Constant)):
        raise bad(f"test is not `<name> is [not] <constant>`: {ast.unparse(t)}")
    if len(iff.body) != 1 or len(iff.orelse) != 1 or not all(isinstance(s, ast.Return) and s.value is not None for s in iff.body + iff.orelse):
        raise bad("the two branches are not single returns")
    r1, r2 = rhs_of(iff.body[0].value), rhs_of(iff.orelse[0].value)
    if r1 is None or r2 is None: raise bad("returned expressions outside grammar")
    return ("{ params := %s, defaults := [%s], lam := %s, lamParams := %s,\n    quantityFn := %s, quantityArgs := %s, toMethod := %s, toArgs := %s, finalAttr := %s,\n"
            "    testName := %s, testOp := %s, testConst := %s,\n    thenRet := %s, elseRet := %s }") % (
        lstrs(params), ", ".join(f"({q(a_)}, {q(b_)})" for a_, b_ in defaults), q(asg.targets[0].id), lstrs([x.arg for x in la.args]),
        lstrs(qf), lstrs(qargs), q(to_call.func.attr), lstrs(targs), q(e.attr),
        q(t.left.id), q("is not" if isinstance(t.ops[0], ast.IsNot) else "is"), q(repr(t.comparators[0].value)), r1, r2)


def load_static_src():
    """the plug-in of C18 as a private module instance (its `units_spec` is the one extractor of pint unit expressions)"""
    spec = importlib.util.spec_from_file_location("gens_static_src_for_qha", os.path.join(os.path.dirname(os.path.abspath(__file__)), "static_src.py"))
    mod = importlib.util.module_from_spec(spec); spec.loader.exec_module(mod)
    return mod


def is_helper_name(n):
    return n.startswith("_to_") or n.startswith("_from_")


# ------------------------------------------------------------------------------------------------ generator
def gen_qha_glue():
    apath, atree = parse(ADAPTER)
    upath, utree = parse(UNITS)
    araw = ast.parse(open(apath).read()); uraw = ast.parse(open(upath).read())

    # ---- qha_adapter.py
    class_rows, defs = [], []
    for st in atree.body:
        if isinstance(st, ast.ClassDef):
            bases = [ast.unparse(b) for b in st.bases] + [f"{k.arg}={ast.unparse(k.value)}" for k in st.keywords] \
                + ["@" + ast.unparse(d) for d in st.decorator_list]
            other = [type(s).__name__ + ": " + " ".join(ast.unparse(s).split())[:80] for s in st.body
                     if not isinstance(s, (ast.FunctionDef, ast.AsyncFunctionDef, ast.Pass))]
            other += ["AsyncFunctionDef: " + s.name for s in st.body if isinstance(s, ast.AsyncFunctionDef)]
            class_rows.append(f"⟨{q(st.name)}, {lstrs(bases)}, {lstrs(other)}⟩")
            for fn in st.body:
                if isinstance(fn, ast.FunctionDef): defs.append(def_row(st.name, fn))
        elif isinstance(st, ast.FunctionDef):
            defs.append(def_row("", st))
    # ---- units.py
    ufns = [st for st in utree.body if isinstance(st, ast.FunctionDef)]
    ufn = {f.name: f for f in ufns}
    if "convert_unit" not in ufn: raise T.TieBroken("units.py: convert_unit not found")
    cu = convert_unit_row(ufn["convert_unit"])
    helper_names = [f.name for f in ufns if is_helper_name(f.name)]
    S = load_static_src()
    S.UNITFN = {n: n for n in helper_names}          # every helper the file defines, in source order
    unit_rows, _ = S.units_spec()
    all_rows = None
    for st in utree.body:
        if isinstance(st, ast.Assign) and len(st.targets) == 1 and isinstance(st.targets[0], ast.Name) and st.targets[0].id == "__all__":
            if not (isinstance(st.value, (ast.List, ast.Tuple)) and all(isinstance(e, ast.Constant) and isinstance(e.value, str) for e in st.value.elts)):
                raise T.TieBroken("units.py: __all__ is not a list of string literals")
            if all_rows is not None: raise T.TieBroken("units.py: __all__ assigned twice")
            all_rows = [e.value for e in st.value.elts]
    if all_rows is None: raise T.TieBroken("units.py: __all__ not found")
    for n in ast.walk(utree):
        if isinstance(n, ast.AugAssign) and ast.unparse(n.target) == "__all__": raise T.TieBroken("units.py: __all__ is extended after its definition")

    L = []
    out = L.append
    out("-- GENERATED by tools/gens/qha_src.py from cij/core/qha_adapter.py and cij/util/units.py — do not edit")
    out("import CijModel.QhaGlue\nopen Cij.QhaGlue Cij.StaticSrc\nnamespace Generated.QhaGlue\n")
    out("/-- qha_adapter.py: module-level statements in order (kind, name bound, detail) -/")
    out(f"def adapterModuleStmts : List ModStmt :=\n  {lmod(module_stmts(araw))}\n")
    out("/-- qha_adapter.py: every class (name, bases / keywords / decorators, class-body statements other than defs) -/")
    out("def adapterClasses : List ClassRow :=\n  [" + ",\n   ".join(class_rows) + "]\n")
    out("/-- qha_adapter.py: every def, in source order (a name defined twice is listed twice) -/")
    out("def adapterDefs : List Def :=\n  [" + ",\n   ".join(defs) + "]\n")
    out("def adapterModule : Module := { classes := adapterClasses, defs := adapterDefs }\n")
    out("/-- units.py: module-level statements in order -/")
    out(f"def unitsModuleStmts : List ModStmt :=\n  {lmod(module_stmts(uraw))}\n")
    out("/-- units.py: every def in source order -/")
    out(f"def unitsDefs : List String := {lstrs([f.name for f in ufns])}\n")
    out("/-- units.py: `__all__` -/")
    out(f"def unitsAll : List String := {lstrs(all_rows)}\n")
    out("/-- units.py: `convert_unit` -/")
    out(f"def convertUnit : ConvertUnit :=\n  {cu}\n")
    out("/-- units.py: every `_to_*` / `_from_*` helper, `def <name>(value): return convert_unit(<src>, <dst>, value)` on the default\n"
        "`pint.UnitRegistry()` (extracted by tools/gens/static_src.py `units_spec`) -/")
    out("def unitHelpers : List UnitHelper :=\n  [" + ",\n   ".join(unit_rows) + "]\n")
    out("end Generated.QhaGlue\n")
    return {"QhaGlue.lean": "\n".join(L)}, [apath, upath]


GENERATORS = {"gen_qha_glue": (gen_qha_glue, ["QhaGlue.lean"])}
