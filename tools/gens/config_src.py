"""C16 — translator plug-in: the SOURCE CODE of cij/io/config/{config,validate,__init__}.py -> lean/Generated/ConfigSrc.lean.

A small AST -> Lean printer (shallow embedding).  Every function is parsed with `ast` from the working tree
(`T.REPO`, never imported), docstrings and annotations are dropped, and each statement must be consumed by the
grammar below; anything else raises TieBroken naming the function.  What is printed:

  update_config         a Lean DEFINITION with the control structure of the Python function: a fuel-free, structurally
                        recursive function over the model's JSON value type `Cij.J`, with the iteration order of the
                        `set` as an explicit parameter.  Grammar:
                            OUT = {}
                            for K in set([*A.keys(), *B.keys()]):      A, B = the two parameters (either order)
                                <chain>
                            return OUT
                            chain ::= OUT[K] = <expr> | if <cond>: chain else: chain          (elif = nested if)
                            cond  ::= K [not] in P.keys() | K [not] in P | isinstance(<expr>, dict)
                                    | cond and cond | cond or cond | not cond
                            expr  ::= P[K] | update_config(A0[K], <expr>)     A0 = the FIRST parameter (recursion is
                                                                               structural in it: printed as a table
                                                                               of recursive calls, one per entry)
                        plus data: parameters, the fresh local, targets of all stores, methods called on parameters.
  apply_default_config  definition: `update_config ord <arg> <arg>` with the arguments in source order, the default loaded
                        by `load "<file name literal>"`; data: parser of that file.
  read_config           `read_config_parser` (the `if suffix in {…}` chain as a definition suffix -> parser), the raised
                        exception of the else branch, and `read_config` (parse, then `if validate: validate_config(<the
                        parsed value>)`, then return the parsed value).
  validate_config       definition: `jsonschema_validate <instance> <schema>` with the keyword arguments resolved, schema
                        loaded by `load "<file name literal>"`; data: keywords passed, references to validator-extension API.
  module level          imports, assignments, functions with decorators and defaults, any other statement — as data.
  cij/data/__init__.py  get_data_fname compared with its canonical text (the translator of the data files reads
                        cij/data/<name> directly).

Honest scope: names are resolved by spelling (`yaml.load`, `json.load`, `jsonschema.validate`, `open`, `Path`, `set`,
`isinstance`, `dict`); the module-level data emitted here lets the theorems check that nothing at module level rebinds them.
"""
import ast
import os

import gen_tables as T

OUT_FILE = "ConfigSrc.lean"
RESERVED = {"ord", "load", "parse", "raised", "validate_config", "jsonschema_validate", "update_config", "update_config_recs",
            "apply_default_config", "read_config", "read_config_parser", "forAssign", "keySet", "getItem", "inKeys", "isDictOf",
            "pyTest", "pyAnd", "pyOr", "pyNot", "pyIf", "callOn", "andThen", "some", "none", "fun", "match", "with", "if", "then",
            "else", "let", "def", "end", "do", "in", "at", "from", "have", "show", "by", "open", "namespace", "mutual", "where",
            "Parser", "J", "KV", "Err", "Except"}


class Fn:
    """one function being translated: carries its name for the TieBroken messages"""

    def __init__(self, node, path):
        self.node, self.name, self.path = node, node.name, path
        self.names = {}

    def broken(self, what, node=None):
        src = ""
        if node is not None:
            try:
                src = ": " + " ".join(ast.unparse(node).split())[:140]
            except Exception:  # noqa: BLE001
                src = ""
        raise T.TieBroken(f"{os.path.basename(self.path)}: {self.name}: {what}{src}")

    def body(self):
        b = list(self.node.body)
        if b and isinstance(b[0], ast.Expr) and isinstance(b[0].value, ast.Constant) and isinstance(b[0].value.value, str):
            b = b[1:]
        return b

    def params(self):
        a = self.node.args
        if a.vararg or a.kwarg or a.kwonlyargs or a.posonlyargs:
            self.broken("signature outside grammar (*args / **kwargs / keyword-only parameters)")
        return [x.arg for x in a.args]

    def lean(self, pyname):
        """Lean identifier for a Python local (alpha-renaming only: the theorems do not see these names)"""
        if pyname not in self.names:
            cand = pyname if (pyname not in RESERVED and pyname.isidentifier() and pyname.isascii()) else pyname + "_"
            if not (cand.isidentifier() and cand.isascii()) or cand in self.names.values() or cand in RESERVED:
                self.broken(f"local name {pyname!r} cannot be printed")
            self.names[pyname] = cand
        return self.names[pyname]


def is_name(n, ident=None):
    return isinstance(n, ast.Name) and (ident is None or n.id == ident)


def dotted(n):
    try:
        return ast.unparse(n)
    except Exception:  # noqa: BLE001
        return ""


def local_imports_ok(fn, stmts, allowed):
    """drop `import X` statements (X in allowed, no alias) from a statement list"""
    out = []
    for st in stmts:
        if isinstance(st, ast.Import):
            for al in st.names:
                if al.asname is not None or al.name not in allowed:
                    fn.broken("local import outside grammar", st)
            continue
        out.append(st)
    return out


# ------------------------------------------------------------------------------------------------ update_config
def print_update_config(fn):
    params = fn.params()
    if len(params) != 2 or fn.node.args.defaults:
        fn.broken("expected exactly two parameters without defaults")
    if fn.node.decorator_list:
        fn.broken("decorated")
    A0, A1 = params
    body = fn.body()
    if len(body) != 3:
        fn.broken(f"body is not `OUT = {{}}; for …; return OUT` ({len(body)} statements)")
    s0, s1, s2 = body
    if not (isinstance(s0, ast.Assign) and len(s0.targets) == 1 and is_name(s0.targets[0])
            and isinstance(s0.value, ast.Dict) and not s0.value.keys):
        fn.broken("first statement is not `OUT = {}` (a fresh empty dict)", s0)
    OUT = s0.targets[0].id
    if OUT in params:
        fn.broken("the output dict rebinds a parameter", s0)
    if not (isinstance(s2, ast.Return) and is_name(s2.value, OUT)):
        fn.broken("last statement is not `return OUT`", s2)
    if not (isinstance(s1, ast.For) and is_name(s1.target) and not s1.orelse):
        fn.broken("second statement is not a plain `for K in …` loop", s1)
    K = s1.target.id
    if K in params or K == OUT:
        fn.broken("loop variable shadows a parameter / the output dict", s1)
    it = s1.iter
    ok = (isinstance(it, ast.Call) and is_name(it.func, "set") and len(it.args) == 1 and not it.keywords
          and isinstance(it.args[0], ast.List) and len(it.args[0].elts) == 2)
    order = []
    if ok:
        for e in it.args[0].elts:
            if (isinstance(e, ast.Starred) and isinstance(e.value, ast.Call) and not e.value.args and not e.value.keywords
                    and isinstance(e.value.func, ast.Attribute) and e.value.func.attr == "keys" and is_name(e.value.func.value)
                    and e.value.func.value.id in params):
                order.append(e.value.func.value.id)
            else:
                ok = False
    if not ok or sorted(order) != sorted(params):
        fn.broken("loop is not over `set([*A.keys(), *B.keys()])` of the two parameters", it)

    stores, methods = [], ["keys", "keys"]      # the two `.keys()` of the loop header

    def keys_of(n):
        """`P.keys()` or `P` (a parameter) -> P"""
        if isinstance(n, ast.Call) and not n.args and not n.keywords and isinstance(n.func, ast.Attribute) \
                and n.func.attr == "keys" and is_name(n.func.value) and n.func.value.id in params:
            methods.append("keys")
            return n.func.value.id
        if is_name(n) and n.id in params:
            return n.id
        return None

    def expr(n):
        if isinstance(n, ast.Subscript) and is_name(n.value) and n.value.id in params and is_name(n.slice, K):
            return f"(getItem {fn.lean(n.value.id)} {fn.lean(K)})"
        if isinstance(n, ast.Call) and is_name(n.func, fn.name) and len(n.args) == 2 and not n.keywords:
            a, b = n.args
            if not (isinstance(a, ast.Subscript) and is_name(a.value, A0) and is_name(a.slice, K)):
                fn.broken(f"recursive call whose first argument is not `{A0}[{K}]` (recursion must descend into the first parameter)", n)
            return f"(callOn (update_config_recs ord {fn.lean(A0)}) {fn.lean(K)} {expr(b)})"
        fn.broken("expression outside grammar", n)

    def cond(n):
        if isinstance(n, ast.Compare) and len(n.ops) == 1 and is_name(n.left, K) and isinstance(n.ops[0], (ast.In, ast.NotIn)):
            P = keys_of(n.comparators[0])
            if P is None:
                fn.broken("membership test outside grammar", n)
            t = f"inKeys {fn.lean(K)} {fn.lean(P)}"
            return f"(pyTest (!{t}))" if isinstance(n.ops[0], ast.NotIn) else f"(pyTest ({t}))"
        if isinstance(n, ast.Call) and is_name(n.func, "isinstance") and len(n.args) == 2 and not n.keywords and is_name(n.args[1], "dict"):
            return f"(isDictOf {expr(n.args[0])})"
        if isinstance(n, ast.BoolOp) and isinstance(n.op, (ast.And, ast.Or)):
            op = "pyAnd" if isinstance(n.op, ast.And) else "pyOr"
            parts = [cond(v) for v in n.values]
            acc = parts[-1]
            for p in reversed(parts[:-1]):
                acc = f"({op} {p} {acc})"
            return acc
        if isinstance(n, ast.UnaryOp) and isinstance(n.op, ast.Not):
            return f"(pyNot {cond(n.operand)})"
        fn.broken("condition outside grammar", n)

    def chain(stmts, ind):
        if len(stmts) != 1:
            fn.broken(f"a branch of the loop body is not a single statement ({len(stmts)} statements)", stmts[0] if stmts else None)
        st = stmts[0]
        sp = " " * ind
        if isinstance(st, ast.Assign) and len(st.targets) == 1 and isinstance(st.targets[0], ast.Subscript):
            tg = st.targets[0]
            if not (is_name(tg.value, OUT) and is_name(tg.slice, K)):
                fn.broken(f"store is not `{OUT}[{K}] = …`", st)
            stores.append(tg.value.id)
            return expr(st.value)
        if isinstance(st, ast.If):
            if not st.orelse:
                fn.broken("`if` without `else`: an iteration that stores nothing", st)
            return f"pyIf {cond(st.test)}\n{sp}  ({chain(st.body, ind + 2)})\n{sp}  ({chain(st.orelse, ind + 2)})"
        fn.broken("statement outside grammar", st)

    value = " " * 6 + chain(s1.body, 6)
    # every store / assignment anywhere in the function (belt and braces: the grammar above admits nothing else)
    assigned = sorted({n.id for n in ast.walk(fn.node) if isinstance(n, ast.Name) and isinstance(n.ctx, (ast.Store, ast.Del))})
    if assigned != sorted({OUT, K}):
        fn.broken(f"assigned names are {assigned}, expected the output dict and the loop variable only")
    a0, a1 = fn.lean(A0), fn.lean(A1)
    # a set has no order: `set([*A.keys(), *B.keys()])` and `set([*B.keys(), *A.keys()])` are the same set, and the order in
    # which it is iterated is the parameter `ord` anyway -> always printed with the parameters in signature order
    first, second = a0, a1
    q = T.lean_str
    text = (
        f"mutual\n"
        f"/-- PRINTED from `{fn.name}({A0}, {A1})`: `{OUT} = {{}}`; `for {K} in set([*{order[0]}.keys(), *{order[1]}.keys()])` stores\n"
        f"`{OUT}[{K}]` once per iteration; `return {OUT}`.  `.keys()` of a non-dict argument raises AttributeError. -/\n"
        f"def update_config (ord : List String → List String) : J → J → Except Err J\n"
        f"  | .obj {a0}, .obj {a1} =>\n"
        f"    forAssign (keySet ord {first} {second}) fun {fn.lean(K)} =>\n"
        f"{value}\n"
        f"  | _, _ => .error .attributeError\n"
        f"/-- for every entry `(k, v)` of the first argument: the recursive call `fun x => {fn.name}(v, x)` -/\n"
        f"def update_config_recs (ord : List String → List String) : KV → List (String × (J → Except Err J))\n"
        f"  | [] => []\n"
        f"  | (k, v) :: r => (k, update_config ord v) :: update_config_recs ord r\n"
        f"end\n\n"
        f"/-- `{fn.name}`: its parameters; the local created as `{{}}`; the dict of every subscript store; what is returned;\n"
        f"every method called on a parameter -/\n"
        f"def updateConfigParams : List String := [{q(A0)}, {q(A1)}]\n"
        f"def updateConfigFresh : String := {q(OUT)}\n"
        f"def updateConfigStoreTargets : List String := [{', '.join(q(s) for s in stores)}]\n"
        f"def updateConfigReturned : String := {q(OUT)}\n"
        f"def updateConfigParamMethods : List String := [{', '.join(q(m) for m in methods)}]\n")
    return text


# ------------------------------------------------------------------------------------------------ file loads
PARSER_CALLS = {"yaml.load(FP, Loader=yaml.FullLoader)": "yaml", "json.load(FP)": "json"}


def parser_of_call(fn, call, fp):
    """`yaml.load(fp, Loader=yaml.FullLoader)` -> 'yaml'; `json.load(fp)` -> 'json'"""
    src = " ".join(dotted(call).split())
    for pat, p in PARSER_CALLS.items():
        if src == pat.replace("FP", fp):
            return p
    fn.broken("parser call outside grammar (expected yaml.load(fp, Loader=yaml.FullLoader) or json.load(fp))", call)


def data_load(fn, st):
    """with open(cij.data.get_data_fname(<STR>)) as FP: X = <parser call>   ->  (X, STR, parser)"""
    if not (isinstance(st, ast.With) and len(st.items) == 1 and is_name(st.items[0].optional_vars) and len(st.body) == 1):
        fn.broken("expected `with open(cij.data.get_data_fname(…)) as fp: X = <load>(fp)`", st)
    fp = st.items[0].optional_vars.id
    ce = st.items[0].context_expr
    if not (isinstance(ce, ast.Call) and is_name(ce.func, "open") and len(ce.args) == 1 and not ce.keywords
            and isinstance(ce.args[0], ast.Call) and dotted(ce.args[0].func) == "cij.data.get_data_fname"
            and len(ce.args[0].args) == 1 and not ce.args[0].keywords
            and isinstance(ce.args[0].args[0], ast.Constant) and isinstance(ce.args[0].args[0].value, str)):
        fn.broken("the opened file is not `cij.data.get_data_fname(<string literal>)`", ce)
    a = st.body[0]
    if not (isinstance(a, ast.Assign) and len(a.targets) == 1 and is_name(a.targets[0]) and isinstance(a.value, ast.Call)):
        fn.broken("the `with` body is not `X = <load>(fp)`", a)
    return a.targets[0].id, ce.args[0].args[0].value, parser_of_call(fn, a.value, fp)


def print_apply_default(fn, merge_name):
    params = fn.params()
    if len(params) != 1 or fn.node.args.defaults:
        fn.broken("expected exactly one parameter without default")
    if fn.node.decorator_list:
        fn.broken("decorated")
    body = local_imports_ok(fn, fn.body(), {"yaml", "cij.data", "cij"})
    if len(body) != 2:
        fn.broken(f"body is not `with open(…) as fp: D = yaml.load(…)`; `return {merge_name}(…)` ({len(body)} statements)")
    D, fname, parser = data_load(fn, body[0])
    if D in params:
        fn.broken("the loaded default rebinds the parameter", body[0])
    ret = body[1]
    if not (isinstance(ret, ast.Return) and isinstance(ret.value, ast.Call) and is_name(ret.value.func, merge_name)
            and len(ret.value.args) == 2 and not ret.value.keywords and all(is_name(a) for a in ret.value.args)):
        fn.broken(f"last statement is not `return {merge_name}(X, Y)`", ret)
    args = [a.id for a in ret.value.args]
    if sorted(args) != sorted([params[0], D]):
        fn.broken(f"`{merge_name}` is not applied to the parameter and the loaded default", ret)
    P = params[0]
    q = T.lean_str
    return (
        f"/-- PRINTED from `{fn.name}({P})`: the default is loaded inside the call (`load` = reading the packaged data file with\n"
        f"that name) and `{merge_name}` receives its arguments in this order -/\n"
        f"def apply_default_config (ord : List String → List String) (load : String → J) ({fn.lean(P)} : J) : Except Err J :=\n"
        f"  let {fn.lean(D)} := load {q(fname)}\n"
        f"  update_config ord {fn.lean(args[0])} {fn.lean(args[1])}\n\n"
        f"/-- the parser `{fn.name}` reads that file with -/\n"
        f"def applyDefaultParser : Parser := Parser.{parser}\n")


# ------------------------------------------------------------------------------------------------ read_config
def print_read_config(fn, validate_name):
    params = fn.params()
    if len(params) != 2 or fn.node.decorator_list:
        fn.broken("expected two parameters (file name, validate flag), undecorated")
    FNAME, VALIDATE = params
    body = local_imports_ok(fn, fn.body(), {"yaml", "json"})
    if len(body) != 4:
        fn.broken(f"body is not `suffix = …; with open(…): <chain>; if validate: …; return config` ({len(body)} statements)")
    s0, s1, s2, s3 = body
    if not (isinstance(s0, ast.Assign) and len(s0.targets) == 1 and is_name(s0.targets[0])
            and " ".join(dotted(s0.value).split()) == f"Path({FNAME}).suffix"):
        fn.broken(f"first statement is not `SUFFIX = Path({FNAME}).suffix`", s0)
    SUFFIX = s0.targets[0].id
    if not (isinstance(s1, ast.With) and len(s1.items) == 1 and is_name(s1.items[0].optional_vars)
            and " ".join(dotted(s1.items[0].context_expr).split()) == f"open({FNAME})" and len(s1.body) == 1):
        fn.broken(f"second statement is not `with open({FNAME}) as fp: <if chain>`", s1)
    FP = s1.items[0].optional_vars.id
    branches, CONFIG, raised = [], [None], [None]

    def suffix_test(n):
        if isinstance(n, ast.Compare) and len(n.ops) == 1 and is_name(n.left, SUFFIX):
            c = n.comparators[0]
            if isinstance(n.ops[0], ast.In) and isinstance(c, (ast.Set, ast.List, ast.Tuple)) \
                    and all(isinstance(e, ast.Constant) and isinstance(e.value, str) for e in c.elts):
                return [e.value for e in c.elts]
            if isinstance(n.ops[0], ast.Eq) and isinstance(c, ast.Constant) and isinstance(c.value, str):
                return [c.value]
        fn.broken("suffix test outside grammar (expected `SUFFIX in {<strings>}`)", n)

    def walk_chain(st):
        if not isinstance(st, ast.If):
            fn.broken("the `with` body is not an if / elif / else chain", st)
        sfx = suffix_test(st.test)
        b = local_imports_ok(fn, st.body, {"yaml", "json"})
        if not (len(b) == 1 and isinstance(b[0], ast.Assign) and len(b[0].targets) == 1 and is_name(b[0].targets[0])
                and isinstance(b[0].value, ast.Call)):
            fn.broken("a branch is not `CONFIG = <parser>(fp)`", st.body[0] if st.body else st)
        var = b[0].targets[0].id
        if CONFIG[0] not in (None, var):
            fn.broken("the branches assign different variables", b[0])
        CONFIG[0] = var
        branches.append((sfx, parser_of_call(fn, b[0].value, FP)))
        if len(st.orelse) == 1 and isinstance(st.orelse[0], ast.If):
            walk_chain(st.orelse[0])
        elif len(st.orelse) == 1 and isinstance(st.orelse[0], ast.Raise) and isinstance(st.orelse[0].exc, ast.Call) \
                and is_name(st.orelse[0].exc.func) and st.orelse[0].cause is None:
            raised[0] = st.orelse[0].exc.func.id
        else:
            fn.broken("the chain does not end in `else: raise <Exception>(…)`", st.orelse[0] if st.orelse else st)

    walk_chain(s1.body[0])
    CFG = CONFIG[0]
    if CFG in params or CFG in (SUFFIX, FP):
        fn.broken("the parsed value rebinds another name")
    if not (isinstance(s2, ast.If) and is_name(s2.test, VALIDATE) and not s2.orelse and len(s2.body) == 1
            and isinstance(s2.body[0], ast.Expr) and isinstance(s2.body[0].value, ast.Call)
            and is_name(s2.body[0].value.func, validate_name)):
        fn.broken(f"third statement is not `if {VALIDATE}: {validate_name}(…)`", s2)
    vc = s2.body[0].value
    if not (len(vc.args) == 1 and not vc.keywords and is_name(vc.args[0], CFG)):
        fn.broken(f"`{validate_name}` is not applied to the value parsed from the file (`{CFG}`)", vc)
    if not (isinstance(s3, ast.Return) and is_name(s3.value, CFG)):
        fn.broken(f"last statement is not `return {CFG}` (the value parsed from the file)", s3)
    d = fn.node.args.defaults
    if len(d) != 1 or not (isinstance(d[0], ast.Constant) and isinstance(d[0].value, bool)):
        fn.broken("the validate flag has no boolean default")
    q = T.lean_str
    sfx, cfg, val = fn.lean(SUFFIX), fn.lean(CFG), fn.lean(VALIDATE)
    chain = ""
    for i, (ss, p) in enumerate(branches):
        chain += f"  {'if' if i == 0 else 'else if'} {sfx} ∈ [{', '.join(q(s) for s in ss)}] then some Parser.{p}\n"
    chain += "  else none\n"
    return (
        f"/-- PRINTED from the `if {SUFFIX} in {{…}}` chain of `{fn.name}`: the parser the file is read with; `none` = the\n"
        f"`else` branch (`raise {raised[0]}`) -/\n"
        f"def read_config_parser ({sfx} : String) : Option Parser :=\n{chain}\n"
        f"/-- the exception of the `else` branch -/\n"
        f"def readConfigElseRaises : String := {q(raised[0])}\n\n"
        f"/-- the default of the `{VALIDATE}` flag -/\n"
        f"def readConfigValidateDefault : Bool := {'true' if d[0].value else 'false'}\n\n"
        f"/-- PRINTED from `{fn.name}({FNAME}, {VALIDATE})` with `{SUFFIX} = Path({FNAME}).suffix`: parse the file, then\n"
        f"`if {VALIDATE}: {validate_name}({CFG})`, then `return {CFG}`.  `parse p` = what parser `p` makes of the file,\n"
        f"`raised` = the exception of the else branch. -/\n"
        f"def read_config {{ε : Type}} (raised : ε) (parse : Parser → Except ε J) (validate_config : J → Except ε Unit)\n"
        f"    ({sfx} : String) ({val} : Bool) : Except ε J :=\n"
        f"  andThen (match read_config_parser {sfx} with | some p => parse p | none => .error raised) fun {cfg} =>\n"
        f"  andThen (if {val} then validate_config {cfg} else .ok ()) fun _ =>\n"
        f"  .ok {cfg}\n")


# ------------------------------------------------------------------------------------------------ validate_config
def print_validate_config(fn, tree):
    params = fn.params()
    if len(params) != 1 or fn.node.args.defaults or fn.node.decorator_list:
        fn.broken("expected exactly one parameter without default, undecorated")
    P = params[0]
    body = local_imports_ok(fn, fn.body(), {"json", "jsonschema", "cij.data", "cij"})
    if len(body) != 2:
        fn.broken(f"body is not `with open(…) as fp: schema = json.load(fp)`; `jsonschema.validate(…)` ({len(body)} statements)")
    S, fname, parser = data_load(fn, body[0])
    if S == P:
        fn.broken("the loaded schema rebinds the parameter", body[0])
    st = body[1]
    if not (isinstance(st, ast.Expr) and isinstance(st.value, ast.Call) and dotted(st.value.func) == "jsonschema.validate"):
        fn.broken("second statement is not a call of `jsonschema.validate`", st)
    call = st.value
    slots = {}
    for name, a in zip(["instance", "schema"], call.args):
        slots[name] = a
    if len(call.args) > 2:
        fn.broken("`jsonschema.validate` gets more than (instance, schema) positionally — the third is the validator class", call)
    kws = []
    for kw in call.keywords:
        if kw.arg is None or kw.arg in slots:
            fn.broken("keyword arguments of `jsonschema.validate` outside grammar", call)
        slots[kw.arg] = kw.value
        kws.append(kw.arg)
    if set(slots) != {"instance", "schema"}:
        fn.broken(f"`jsonschema.validate` is called with {sorted(slots)} — expected exactly instance and schema (no `cls`: "
                  "no extended / default-filling validator class)", call)
    if not (is_name(slots["instance"], P) and is_name(slots["schema"], S)):
        fn.broken(f"`jsonschema.validate` is not applied to instance={P}, schema={S}", call)
    # any mention of the validator-extension API anywhere in the module
    ext = {"extend", "validators", "validator_for", "create", "TYPE_CHECKER", "VALIDATORS"}
    refs = sorted({n.attr for n in ast.walk(tree) if isinstance(n, ast.Attribute) and n.attr in ext}
                  | {n.id for n in ast.walk(tree) if isinstance(n, ast.Name) and n.id in ext})
    q = T.lean_str
    return (
        f"/-- PRINTED from `{fn.name}({P})`: the schema is loaded inside the call; `jsonschema_validate i s` =\n"
        f"`jsonschema.validate(instance=i, schema=s)` with no other argument -/\n"
        f"def validate_config {{ε : Type}} (load : String → J) (jsonschema_validate : J → J → Except ε Unit) ({fn.lean(P)} : J) : Except ε Unit :=\n"
        f"  let {fn.lean(S)} := load {q(fname)}\n"
        f"  jsonschema_validate {fn.lean(P)} {fn.lean(S)}\n\n"
        f"/-- the parser the schema file is read with; the argument names `jsonschema.validate` receives; every mention of the\n"
        f"validator-extension API (`jsonschema.validators.extend`, `validator_for`, …) in validate.py -/\n"
        f"def validateConfigSchemaParser : Parser := Parser.{parser}\n"
        f"def validateConfigArgs : List String := [{', '.join(q(s) for s in sorted(slots))}]\n"
        f"def validateExtendedValidatorRefs : List String := [{', '.join(q(s) for s in refs)}]\n")


# ------------------------------------------------------------------------------------------------ module level
def module_data(path, prefix):
    tree = ast.parse(open(path).read())
    imports, assigns, funcs, other = [], [], [], []
    body = list(tree.body)
    if body and isinstance(body[0], ast.Expr) and isinstance(body[0].value, ast.Constant) and isinstance(body[0].value.value, str):
        body = body[1:]
    for st in body:
        if isinstance(st, (ast.Import, ast.ImportFrom)):
            imports.append(" ".join(ast.unparse(st).split()))
        elif isinstance(st, (ast.Assign, ast.AnnAssign, ast.AugAssign)):
            tg = st.targets if isinstance(st, ast.Assign) else [st.target]
            assigns += [" ".join(ast.unparse(t).split()) for t in tg]
        elif isinstance(st, (ast.FunctionDef, ast.AsyncFunctionDef)):
            a = st.args
            names = [x.arg for x in a.posonlyargs + a.args]
            defaults = [None] * (len(names) - len(a.defaults)) + [" ".join(ast.unparse(d).split()) for d in a.defaults]
            sig = list(zip(names, defaults))
            if a.vararg: sig.append(("*" + a.vararg.arg, None))
            for x, d in zip(a.kwonlyargs, a.kw_defaults):
                sig.append((x.arg, None if d is None else " ".join(ast.unparse(d).split())))
            if a.kwarg: sig.append(("**" + a.kwarg.arg, None))
            funcs.append((st.name, [" ".join(ast.unparse(d).split()) for d in st.decorator_list], sig))
        else:
            other.append(type(st).__name__ + ": " + " ".join(ast.unparse(st).split())[:80])
    q = T.lean_str
    opt = lambda d: "none" if d is None else f"some {q(d)}"
    rel = os.path.relpath(path, T.REPO)
    txt = (
        f"/-- module level of `{rel}`: import statements; targets of assignments; functions as (name, decorators,\n"
        f"parameters with their defaults); every other statement (class, if, try, with, expression, …) -/\n"
        f"def {prefix}Imports : List String := [{', '.join(q(s) for s in imports)}]\n"
        f"def {prefix}Assignments : List String := [{', '.join(q(s) for s in assigns)}]\n"
        f"def {prefix}Functions : List (String × List String × List (String × Option String)) :=\n  ["
        + ",\n   ".join(f"({q(n)}, [{', '.join(q(d) for d in decs)}], [{', '.join(f'({q(a)}, {opt(d)})' for a, d in sig)}])"
                        for n, decs, sig in funcs) + "]\n"
        f"def {prefix}Other : List String := [{', '.join(q(s) for s in other)}]\n")
    return tree, txt


def the_function(tree, name, path):
    fs = [st for st in tree.body if isinstance(st, ast.FunctionDef) and st.name == name]
    if len(fs) != 1:
        raise T.TieBroken(f"{os.path.basename(path)}: {name}: defined {len(fs)} times at module level")
    return Fn(fs[0], path)


def gen_config_src():
    p_cfg = os.path.join(T.REPO, "cij/io/config/config.py")
    p_val = os.path.join(T.REPO, "cij/io/config/validate.py")
    p_ini = os.path.join(T.REPO, "cij/io/config/__init__.py")
    p_dat = os.path.join(T.REPO, "cij/data/__init__.py")
    t_cfg, m_cfg = module_data(p_cfg, "configPy")
    t_val, m_val = module_data(p_val, "validatePy")
    t_ini, m_ini = module_data(p_ini, "initPy")
    upd = print_update_config(the_function(t_cfg, "update_config", p_cfg))
    app = print_apply_default(the_function(t_cfg, "apply_default_config", p_cfg), "update_config")
    rd = print_read_config(the_function(t_cfg, "read_config", p_cfg), "validate_config")
    val = print_validate_config(the_function(t_val, "validate_config", p_val), t_val)
    # cij.data.get_data_fname: the data-file translator (gen_config) reads cij/data/<name> directly
    t_dat = ast.parse(open(p_dat).read())
    g = the_function(t_dat, "get_data_fname", p_dat)
    got = [" ".join(ast.unparse(s).split()) for s in g.body()]
    if got != ["return pkg_resources.resource_filename(__name__, fname)"] or g.params() != ["fname"] or g.node.decorator_list:
        g.broken("is not `return pkg_resources.resource_filename(__name__, fname)` (data files are resolved inside the package directory)")
    # the package's re-exports
    exports = []
    for st in t_ini.body:
        if isinstance(st, ast.ImportFrom):
            for al in st.names:
                exports.append((al.asname or al.name, "." * st.level + (st.module or ""), al.name))
    q = T.lean_str
    ini = ("/-- `cij/io/config/__init__.py`: (public name, module it is imported from, name there) -/\n"
           "def initPyExports : List (String × String × String) := ["
           + ", ".join(f"({q(a)}, {q(m)}, {q(n)})" for a, m, n in exports) + "]\n")
    text = ("-- GENERATED by tools/gens/config_src.py from cij/io/config/{config,validate,__init__}.py — do not edit\n"
            "import CijModel.ConfigPy\nopen Cij Cij.Config Cij.ConfigPy\nnamespace Generated.ConfigSrc\n\n"
            + upd + "\n" + app + "\n" + rd + "\n" + val + "\n" + m_cfg + "\n" + m_val + "\n" + m_ini + "\n" + ini
            + "\nend Generated.ConfigSrc\n")
    return {OUT_FILE: text}, [p_cfg, p_val, p_ini, p_dat]


GENERATORS = {"gen_config_src": (gen_config_src, [OUT_FILE])}
