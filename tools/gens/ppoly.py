"""Translator plug-in for C11: the node-based piecewise-cubic branch of cij/core/mode_gamma.py and the scipy classes it calls.

gen_ppoly_spec   (-> Generated/PPolySpec.lean)      from the CURRENT working tree (T.REPO), via ast:
    * the method -> scipy class dispatch of interpolate_mode_ppoly (if/elif chain),
    * the constructor call: positional arguments as (array name, logged?, flipped?), keyword names,
    * the three evaluation calls of the returned triple as (nu, extrapolate) and the evaluation abscissa,
    * everything else of the function compared on the normalised ast (docstrings / annotations stripped, locals renamed).
gen_scipy_cubic  (-> Generated/ScipyCubicSpec.lean) from the scipy INSTALLED for the interpreter that runs the check (located with
    importlib.util.find_spec, never imported): `break_mult` of Akima1DInterpolator as an exact decimal, the `3.` of
    PchipInterpolator._edge_case, the version; the four functions CijModel/PPoly.lean mirrors are pinned on their normalised ast
    ("the model was written against exactly these statements", nothing more; the correspondence run compares behaviour).
"""
import ast, hashlib, importlib.util, os, re, warnings
from fractions import Fraction

import gen_tables as T


# ----------------------------------------------------------------------------- helpers
def strip_doc_ann(fn):
    """drop docstrings and annotations in place"""
    for node in ast.walk(fn):
        if isinstance(node, (ast.FunctionDef, ast.ClassDef, ast.AsyncFunctionDef)):
            if node.body and isinstance(node.body[0], ast.Expr) and isinstance(getattr(node.body[0], "value", None), ast.Constant) \
                    and isinstance(node.body[0].value.value, str):
                node.body = node.body[1:] or [ast.Pass()]
        if isinstance(node, (ast.FunctionDef, ast.AsyncFunctionDef)):
            node.returns = None
            for a in node.args.args + node.args.kwonlyargs + node.args.posonlyargs:
                a.annotation = None
    return fn


def rename_locals(fn):
    """locals (names assigned inside the function, not parameters) -> v0, v1, ... in order of first assignment"""
    params = {a.arg for a in fn.args.args + fn.args.kwonlyargs + fn.args.posonlyargs}
    order = []
    for node in ast.walk(fn):
        if isinstance(node, ast.Name) and isinstance(node.ctx, ast.Store) and node.id not in params and node.id not in order:
            order.append((node.lineno, node.col_offset, node.id))
    names = []
    for _, _, n in sorted(order):
        if n not in names:
            names.append(n)
    mp = {n: f"v{i}" for i, n in enumerate(names)}
    for node in ast.walk(fn):
        if isinstance(node, ast.Name) and node.id in mp:
            node.id = mp[node.id]
    return fn


def sort_keywords(fn):
    """keyword arguments of every call in name order (their order has no meaning in Python; `**kw` entries stay last)"""
    for node in ast.walk(fn):
        if isinstance(node, ast.Call) and all(k.arg is not None for k in node.keywords):
            node.keywords = sorted(node.keywords, key=lambda k: k.arg)
    return fn


def norm_text(fn, rename=True):
    fn = strip_doc_ann(fn)
    if rename:
        fn = sort_keywords(rename_locals(fn))
    return ast.unparse(fn)


def lean_opt_bool(v):
    return "none" if v is None else ("some true" if v else "some false")


# ----------------------------------------------------------------------------- interpolate_mode_ppoly
CANON_PPOLY = (
    "def interpolate_mode_ppoly(mode_volumes, mode_freqs, v_array, method, order=6):\n"
    "    v0 = int(numpy.ceil(mode_volumes.shape[0] / order))\n"
    "    mode_volumes = mode_volumes[::v0]\n"
    "    mode_freqs = mode_freqs[::v0]\n"
    "    if method == 'pchip':\n"
    "        v1 = scipy.interpolate.PchipInterpolator\n"
    "    elif method == 'akima':\n"
    "        v1 = scipy.interpolate.Akima1DInterpolator\n"
    "    elif method == 'hermite':\n"
    "        v1 = scipy.interpolate.CubicHermiteSpline\n"
    "    v2 = v1(numpy.flip(numpy.log(mode_volumes), axis=0), numpy.flip(numpy.log(mode_freqs), axis=0))\n"
    "    v3 = numpy.log(v_array)\n"
    "    return (numpy.exp(v2(v3, extrapolate=True)), -v2(v3, extrapolate=True, nu=1), -v2(v3, extrapolate=True, nu=2))"
)


CANON_DATA = ([("pchip", "PchipInterpolator"), ("akima", "Akima1DInterpolator"), ("hermite", "CubicHermiteSpline")],
              [("mode_volumes", True, True), ("mode_freqs", True, True)], [], [(0, True), (1, True), (2, True)], "numpy.log(v_array)")


def _node_arg(n):
    """numpy.flip(numpy.log(NAME), axis=0) / numpy.log(NAME) / numpy.flip(NAME, axis=0) / NAME -> (NAME, logged, flipped)"""
    logged = flipped = False
    for _ in range(2):
        if isinstance(n, ast.Call) and ast.unparse(n.func) == "numpy.flip":
            kws = {k.arg: ast.unparse(k.value) for k in n.keywords}
            if len(n.args) != 1 or kws not in ({"axis": "0"}, {}):
                raise T.TieBroken(f"interpolate_mode_ppoly: numpy.flip call outside grammar: {ast.unparse(n)}")
            if flipped: raise T.TieBroken("interpolate_mode_ppoly: node array flipped twice")
            flipped = True; n = n.args[0]
        elif isinstance(n, ast.Call) and ast.unparse(n.func) == "numpy.log":
            if len(n.args) != 1 or n.keywords or logged:
                raise T.TieBroken(f"interpolate_mode_ppoly: numpy.log call outside grammar: {ast.unparse(n)}")
            logged = True; n = n.args[0]
    if not isinstance(n, ast.Name):
        raise T.TieBroken(f"interpolate_mode_ppoly: constructor argument outside grammar: {ast.unparse(n)}")
    return n.id, logged, flipped


def gen_ppoly_spec():
    path = os.path.join(T.REPO, "cij/core/mode_gamma.py")
    tree = ast.parse(open(path).read())
    fns = {f.name: f for f in tree.body if isinstance(f, ast.FunctionDef)}
    if "interpolate_mode_ppoly" not in fns:
        raise T.TieBroken("interpolate_mode_ppoly not found")
    fn = fns["interpolate_mode_ppoly"]
    # (1) method -> class dispatch
    disp, var = [], None
    chain = [s for s in fn.body if isinstance(s, ast.If)]
    if len(chain) != 1:
        raise T.TieBroken("interpolate_mode_ppoly: expected exactly one if/elif chain (the class dispatch)")
    node = chain[0]
    while True:
        t = node.test
        if not (isinstance(t, ast.Compare) and isinstance(t.left, ast.Name) and t.left.id == "method" and len(t.ops) == 1
                and isinstance(t.ops[0], ast.Eq) and isinstance(t.comparators[0], ast.Constant) and isinstance(t.comparators[0].value, str)):
            raise T.TieBroken(f"interpolate_mode_ppoly: dispatch test outside grammar: {ast.unparse(t)}")
        if not (len(node.body) == 1 and isinstance(node.body[0], ast.Assign) and len(node.body[0].targets) == 1
                and isinstance(node.body[0].targets[0], ast.Name)):
            raise T.TieBroken("interpolate_mode_ppoly: dispatch branch is not a single assignment")
        tgt = node.body[0].targets[0].id
        if var not in (None, tgt): raise T.TieBroken("interpolate_mode_ppoly: dispatch assigns different names")
        var = tgt
        cls = ast.unparse(node.body[0].value)
        if not cls.startswith("scipy.interpolate."): raise T.TieBroken(f"interpolate_mode_ppoly: class outside scipy.interpolate: {cls}")
        disp.append((t.comparators[0].value, cls[len("scipy.interpolate."):]))
        if len(node.orelse) == 1 and isinstance(node.orelse[0], ast.If): node = node.orelse[0]
        elif not node.orelse: break
        else: raise T.TieBroken("interpolate_mode_ppoly: dispatch has an else branch")
    # (2) constructor call
    ctor = [s for s in fn.body if isinstance(s, ast.Assign) and isinstance(s.value, ast.Call) and isinstance(s.value.func, ast.Name)
            and s.value.func.id == var]
    if len(ctor) != 1 or not isinstance(ctor[0].targets[0], ast.Name):
        raise T.TieBroken("interpolate_mode_ppoly: expected exactly one constructor call of the dispatched class")
    obj = ctor[0].targets[0].id
    args = [_node_arg(a) for a in ctor[0].value.args]
    kwnames = [k.arg or "**" for k in ctor[0].value.keywords]
    # (3) evaluation calls of the returned triple, and the abscissa
    ret = [x for x in ast.walk(fn) if isinstance(x, ast.Return)]
    if len(ret) != 1 or not isinstance(ret[0].value, ast.Tuple) or len(ret[0].value.elts) != 3:
        raise T.TieBroken("interpolate_mode_ppoly: return is not a triple")
    local = {s.targets[0].id: s.value for s in fn.body if isinstance(s, ast.Assign) and len(s.targets) == 1 and isinstance(s.targets[0], ast.Name)}
    calls, absc = [], set()
    for e in ret[0].value.elts:
        found = [c for c in ast.walk(e) if isinstance(c, ast.Call) and isinstance(c.func, ast.Name) and c.func.id == obj]
        if len(found) != 1: raise T.TieBroken(f"interpolate_mode_ppoly: triple element does not evaluate the interpolator once: {ast.unparse(e)}")
        c = found[0]
        if len(c.args) != 1: raise T.TieBroken(f"interpolate_mode_ppoly: evaluation call with {len(c.args)} positional arguments")
        a = c.args[0]
        if isinstance(a, ast.Name) and a.id in local: a = local[a.id]
        absc.add(ast.unparse(a))
        kws = {}
        for k in c.keywords:
            if k.arg not in ("nu", "extrapolate"): raise T.TieBroken(f"interpolate_mode_ppoly: unexpected keyword {k.arg} in evaluation call")
            kws[k.arg] = ast.literal_eval(k.value)
        nu = kws.get("nu", 0); ex = kws.get("extrapolate", None)
        if not (isinstance(nu, int) and nu >= 0) or ex not in (None, True, False):
            raise T.TieBroken(f"interpolate_mode_ppoly: evaluation keywords outside grammar: {kws}")
        calls.append((nu, ex))
    if len(absc) != 1: raise T.TieBroken(f"interpolate_mode_ppoly: the three evaluations use different abscissae: {sorted(absc)}")
    absc = absc.pop()
    # (4) the rest, on the normalised ast.  When the extracted data themselves changed, the Generated file is written and the
    # theorems that consume it (`ppoly_glue_is_source`) stop checking; a change elsewhere in the function is reported here.
    text = norm_text(ast.parse(ast.unparse(fn)).body[0])
    if text != CANON_PPOLY and (disp, args, kwnames, calls, absc) == CANON_DATA:
        import difflib
        d = [l for l in difflib.unified_diff(CANON_PPOLY.splitlines(), text.splitlines(), lineterm="", n=0) if not l.startswith(("---", "+++", "@@"))]
        raise T.TieBroken("interpolate_mode_ppoly changed (normalised ast): " + " | ".join(d)[:400])
    b = lambda v: "true" if v else "false"
    txt = ("-- GENERATED by tools/gens/ppoly.py from cij/core/mode_gamma.py — do not edit\nnamespace Generated\n\n"
           "/-- `interpolate_mode_ppoly`: method string -> class of `scipy.interpolate` (the if/elif chain, in order) -/\n"
           "def ppolyDispatch : List (String × String) :=\n  [" + ", ".join(f"({T.lean_str(m)}, {T.lean_str(c)})" for m, c in disp) + "]\n\n"
           "/-- positional arguments of the constructor call as (array, wrapped in numpy.log?, wrapped in numpy.flip(…, axis=0)?) -/\n"
           "def ppolyCtorArgs : List (String × Bool × Bool) :=\n  [" + ", ".join(f"({T.lean_str(n)}, {b(l)}, {b(f)})" for n, l, f in args) + "]\n\n"
           "/-- keyword arguments of the constructor call (none: `axis=0`, Akima `method=\"akima\"`, the class's own `extrapolate` default) -/\n"
           "def ppolyCtorKeywords : List String := [" + ", ".join(T.lean_str(k) for k in kwnames) + "]\n\n"
           "/-- the three evaluation calls of the returned triple, in order, as (`nu`, `extrapolate` keyword if present) -/\n"
           "def ppolyEvalCalls : List (Nat × Option Bool) :=\n  [" + ", ".join(f"({nu}, {lean_opt_bool(ex)})" for nu, ex in calls) + "]\n\n"
           "/-- the abscissa all three calls are evaluated at -/\n"
           f"def ppolyEvalAbscissa : String := {T.lean_str(absc)}\n\n"
           "/-- the remaining statements of the function (thinning, assignment order) were compared on the normalised ast -/\n"
           "def ppolyBodyCanonical : Bool := true\n\nend Generated\n")
    return {"PPolySpec.lean": txt}, [path]


# ----------------------------------------------------------------------------- the installed scipy
SCIPY_PINS = {
    # qualified name -> sha256 of the normalised ast text (docstrings/annotations stripped; locals NOT renamed), scipy 1.18.1
    "CubicHermiteSpline.__init__": "ecfe25523273dd45fba00e5ba33536ab4b4c749626d53318c10fafc5154ec527",
    "PchipInterpolator._edge_case": "c92d0a6dc4e74ab78f6125e3d9cd42aa98c83f4da1795232a24e322746716b34",
    "PchipInterpolator._find_derivatives": "574307267829f5a50364ec0abd3a6a0bd3929b7a36bba7874a42db899eac75c9",
    "Akima1DInterpolator.__init__": "0402cb7546a6a0269ef470d3acc0ef66f368a9e9604ee88e8e044569f9b15c08",
}


def _scipy_cubic_path():
    spec = importlib.util.find_spec("scipy")
    if spec is None or not spec.origin:
        raise T.TieBroken("scipy not found for this interpreter")
    root = os.path.dirname(spec.origin)
    p = os.path.join(root, "interpolate", "_cubic.py")
    if not os.path.exists(p):
        raise T.TieBroken(f"{p} not found")
    return root, p


def scipy_fn_hashes(path):
    with warnings.catch_warnings():
        warnings.simplefilter("ignore")          # scipy's docstrings contain '\,' in non-raw strings
        tree = ast.parse(open(path).read())
    out = {}
    for c in tree.body:
        if isinstance(c, ast.ClassDef):
            for f in c.body:
                if isinstance(f, ast.FunctionDef):
                    f.decorator_list = []
                    out[f"{c.name}.{f.name}"] = (hashlib.sha256(norm_text(f, rename=False).encode()).hexdigest(), f)
    return out


def gen_scipy_cubic():
    root, path = _scipy_cubic_path()
    vpath = os.path.join(root, "version.py")
    version = "unknown"
    if os.path.exists(vpath):
        m = re.search(r'^version\s*=\s*["\']([^"\']+)["\']', open(vpath).read(), re.M)
        if m: version = m.group(1)
    hs = scipy_fn_hashes(path)
    bad = [q for q, h in SCIPY_PINS.items() if q not in hs or hs[q][0] != h]
    if bad:
        raise T.TieBroken(f"scipy {version} interpolate/_cubic.py: {', '.join(bad)} differ(s) from the statements CijModel/PPoly.lean was written against (scipy 1.18.1)")
    # data: break_mult (exact decimal of the literal as written) and the factor 3. of _edge_case
    src = open(path).read()
    ak = hs["Akima1DInterpolator.__init__"][1]
    lit = None
    for st in ast.walk(ak):
        if isinstance(st, ast.Assign) and len(st.targets) == 1 and isinstance(st.targets[0], ast.Name) and st.targets[0].id == "break_mult":
            seg = ast.get_source_segment(src, st.value)
            lit = seg
    if lit is None: raise T.TieBroken("Akima1DInterpolator.__init__: break_mult literal not found")
    try:
        fr = Fraction(lit if not lit.endswith(".") else lit + "0")
    except Exception:
        raise T.TieBroken(f"break_mult literal outside grammar: {lit}")
    ed = hs["PchipInterpolator._edge_case"][1]
    threes = sorted({float(c.value) for c in ast.walk(ed) if isinstance(c, ast.Constant) and isinstance(c.value, float) and c.value != 0.0})
    if threes != [3.0]: raise T.TieBroken(f"_edge_case: float constants {threes}")
    txt = ("-- GENERATED by tools/gens/ppoly.py from the installed scipy/interpolate/_cubic.py — do not edit\nnamespace Generated\n\n"
           f"def scipyVersion : String := {T.lean_str(version)}\n\n"
           "/-- `break_mult` of `Akima1DInterpolator.__init__` as the exact decimal written in the source: numerator, denominator -/\n"
           f"def akimaBreakMult : Nat × Nat := ({fr.numerator}, {fr.denominator})\n\n"
           "/-- the shape-correction factor `3.` of `PchipInterpolator._edge_case` -/\n"
           "def pchipEdgeFactor : Nat := 3\n\n"
           "/-- `CubicHermiteSpline.__init__`, `PchipInterpolator._edge_case`, `._find_derivatives`, `Akima1DInterpolator.__init__` equal (normalised\n"
           "ast) the statements `CijModel/PPoly.lean` mirrors -/\n"
           "def scipyCubicPinned : Bool := true\n\nend Generated\n")
    return {"ScipyCubicSpec.lean": txt}, [path]


GENERATORS = {
    "gen_ppoly_spec": (gen_ppoly_spec, ["PPolySpec.lean"]),
    "gen_scipy_cubic": (gen_scipy_cubic, ["ScipyCubicSpec.lean"]),
}
