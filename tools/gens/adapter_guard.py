"""Translator plug-in: the pressure-range guard and the loading sequence of cij/core/qha_adapter.py (C06, C12).

  QHACalculator.desired_pressure_status   the `if` test that decides whether the requested pressure grid is accepted, as a value of
                                          Cij.GuardExpr.Guard (field, column selection, reduction, comparison operator, exception raised)
  QHACalculatorAdapter._load_qha_calculator   settings = copy of qha's DEFAULT_SETTINGS updated with the user's; the order of the calls on
                                          the qha calculator (read_input → refine_grid → desired_pressure_status) and that it is returned
"""
import ast, os, re
import gen_tables as T

CMP = {ast.Lt: ".lt", ast.LtE: ".le", ast.Gt: ".gt", ast.GtE: ".ge"}


def side(node, what):
    """self.<field>[:, -1].min()  |  self.<field>.max()"""
    if not (isinstance(node, ast.Call) and not node.args and not node.keywords and isinstance(node.func, ast.Attribute)
            and node.func.attr in ("min", "max")):
        raise T.TieBroken(f"desired_pressure_status: {what} side of the test is not <array>.min()/.max(): {ast.unparse(node)}")
    red = "." + node.func.attr
    arr = node.func.value
    sel = ".all"
    if isinstance(arr, ast.Subscript):
        s = ast.unparse(arr.slice).replace(" ", "").strip("()")
        if s == ":,-1": sel = ".lastColumn"
        elif s == ":,0": sel = ".firstColumn"
        else: raise T.TieBroken(f"desired_pressure_status: {what} side selects {s!r}, not a first/last column")
        arr = arr.value
    m = re.fullmatch(r"self\.(\w+)", ast.unparse(arr))
    if not m: raise T.TieBroken(f"desired_pressure_status: {what} side does not read an attribute of self: {ast.unparse(arr)}")
    return f'⟨"{m.group(1)}", {sel}, {red}⟩'


def gen_adapter_guard():
    path = os.path.join(T.REPO, "cij/core/qha_adapter.py")
    tree = ast.parse(open(path).read())
    cls = {c.name: c for c in tree.body if isinstance(c, ast.ClassDef)}
    Q = cls.get("QHACalculator")
    if Q is None: raise T.TieBroken("QHACalculator not found")
    fns = {f.name: f for f in Q.body if isinstance(f, ast.FunctionDef)}
    dps = fns.get("desired_pressure_status")
    if dps is None: raise T.TieBroken("QHACalculator.desired_pressure_status not found")
    # statements other than logging calls: exactly one `if` whose body (after logging) ends in a single `raise`
    def is_log(st):
        return isinstance(st, ast.Expr) and isinstance(st.value, ast.Call) and (ast.unparse(st.value.func).split(".")[0] in ("logger", "logging"))
    def is_doc(st):
        return isinstance(st, ast.Expr) and isinstance(st.value, ast.Constant)
    body = [st for st in dps.body if not is_log(st) and not is_doc(st)]
    if len(body) != 1 or not isinstance(body[0], ast.If) or body[0].orelse:
        raise T.TieBroken("desired_pressure_status: not a single `if` (without else) besides logging")
    test = body[0].test
    if not (isinstance(test, ast.Compare) and len(test.ops) == 1 and type(test.ops[0]) in CMP):
        raise T.TieBroken(f"desired_pressure_status: test is not one ordering comparison: {ast.unparse(test)}")
    inner = [st for st in body[0].body if not is_log(st)]
    raises = [st for st in inner if isinstance(st, ast.Raise)]
    others = [st for st in inner if not isinstance(st, (ast.Raise, ast.Assign))]   # `ntv_max = …` feeds the log message only
    if len(raises) != 1 or others or inner[-1] is not raises[0]:
        raise T.TieBroken("desired_pressure_status: the guarded block is not (message preparation,) one raise")
    exc = raises[0].exc
    exc_name = ast.unparse(exc.func) if isinstance(exc, ast.Call) else ast.unparse(exc)
    # the guard must not write to self (no clipping of the grid instead of refusing it)
    for n in ast.walk(dps):
        if isinstance(n, (ast.Assign, ast.AugAssign)):
            for t in (n.targets if isinstance(n, ast.Assign) else [n.target]):
                if ast.unparse(t).startswith("self."): raise T.TieBroken(f"desired_pressure_status assigns to {ast.unparse(t)}")
    # the subclass overrides nothing else that concerns the grids
    allowed = {"__init__", "read_input", "desired_pressure_status"}
    extra = set(fns) - allowed
    if extra: raise T.TieBroken(f"QHACalculator overrides more of qha's calculator than before: {sorted(extra)}")
    init = fns.get("__init__")
    if init is not None and [ast.unparse(st) for st in init.body if not is_doc(st)] != ["super().__init__(settings)"]:
        raise T.TieBroken("QHACalculator.__init__ does more than super().__init__(settings)")
    A = cls.get("QHACalculatorAdapter")
    load = {f.name: f for f in A.body if isinstance(f, ast.FunctionDef)}.get("_load_qha_calculator") if A else None
    if load is None: raise T.TieBroken("QHACalculatorAdapter._load_qha_calculator not found")
    stmts = [st for st in load.body if not is_log(st) and not is_doc(st)]
    src = [" ".join(ast.unparse(st).split()) for st in stmts]
    if src[:3] != ["user_settings = copy.copy(DEFAULT_SETTINGS)", "user_settings.update(settings)", "calculator = QHACalculator(user_settings)"]:
        raise T.TieBroken(f"_load_qha_calculator: settings are not qha's defaults updated with the user's: {src[:3]}")
    calls = []
    for st in stmts[3:]:
        if isinstance(st, ast.Expr) and isinstance(st.value, ast.Call):
            m = re.fullmatch(r"calculator\.(\w+)", ast.unparse(st.value.func))
            if not m: raise T.TieBroken(f"_load_qha_calculator: unexpected call {ast.unparse(st)[:80]}")
            args = [ast.unparse(a) for a in st.value.args] + [f"{k.arg}={ast.unparse(k.value)}" for k in st.value.keywords]
            calls.append((m.group(1), ",".join(args)))
        elif isinstance(st, ast.Assign) and re.fullmatch(r"calculator\.\w+", ast.unparse(st.value)) and isinstance(st.targets[0], ast.Name):
            continue        # local alias of a calculator attribute (read only)
        elif isinstance(st, ast.If) and ast.unparse(st.test).startswith("tmp is not None"):
            continue        # logging of negative frequencies
        elif isinstance(st, ast.Return):
            if ast.unparse(st) != "return calculator": raise T.TieBroken(f"_load_qha_calculator returns {ast.unparse(st)}")
        else:
            raise T.TieBroken(f"_load_qha_calculator: unexpected statement {ast.unparse(st)[:80]}")
    if not isinstance(stmts[-1], ast.Return): raise T.TieBroken("_load_qha_calculator does not end in `return calculator`")
    init_a = {f.name: f for f in A.body if isinstance(f, ast.FunctionDef)}.get("__init__")
    want_init = ["self.calculator = self._load_qha_calculator(settings, qha_input)",
                 "self.volume_base_results = QHAVolumeBaseInterface(self.calculator)",
                 "self.pressure_base_results = QHAPressureBaseInterface(self.calculator)"]
    if init_a is None or [" ".join(ast.unparse(st).split()) for st in init_a.body if not is_doc(st)] != want_init:
        raise T.TieBroken("QHACalculatorAdapter.__init__ changed")
    q = T.lean_str
    txt = ("-- GENERATED by tools/gens/adapter_guard.py from cij/core/qha_adapter.py — do not edit\nimport CijModel.GuardExpr\nnamespace Generated\nopen Cij.GuardExpr\n\n"
           "/-- `QHACalculator.desired_pressure_status`: `if <left> <op> <right>: raise <raises>(…)` (logging aside, nothing else) -/\n"
           f"def pressureGuard : Guard :=\n  ⟨{side(test.left, 'left')}, {CMP[type(test.ops[0])]}, {side(test.comparators[0], 'right')}, {q(exc_name)}⟩\n\n"
           "/-- `_load_qha_calculator`: the calls made on the qha calculator after `QHACalculator(DEFAULT_SETTINGS updated with the user's)`,\n"
           "in order, with their arguments; the calculator is then returned -/\n"
           "def adapterLoadCalls : List (String × String) := [" + ", ".join(f"({q(a)}, {q(b)})" for a, b in calls) + "]\n\nend Generated\n")
    return {"AdapterGuard.lean": txt}, [path]


GENERATORS = {"gen_adapter_guard": (gen_adapter_guard, ["AdapterGuard.lean"])}
