"""Translator plug-in: cij/cli/static.py (`cij run-static`) and the unit helpers of cij/util/units.py -> lean/Generated/StaticSpec.lean

Everything is read from the working tree (`T.REPO`) with `ast`; cij is never imported.

What becomes DATA (types: lean/CijModel/StaticExpr.lean; consumed by lean/CijProofs/Lemmas/StaticSource.lean and the
`static_model_is_source…` theorems of Properties/C18.lean):
  * the click declaration: command name, every argument / option with its names, type, choices, default, required; the
    parameter list of `main`;
  * the helper functions `fit_modulus` and `v2p1d`: parameters with defaults, the returned value as an expression tree
    (locals substituted);
  * the body of `main` as an ordered list of BLOCKS (guard + statements).  A block is a maximal run of unguarded
    statements, or the body of one `if` / `elif` branch (an `elif` carries the negated earlier tests).  Statements are
    `df[col] = <tree>`, `<local> = <tree>`, `df = DataFrame(index=range(<tree>))`, and a few recognised compound shapes
    (frame from INPUT01, per-key fit loop, 6x6 assembly, fill, sampling, write).  Calls of the helpers are inlined.  Local
    variables are renamed canonically (k-th assigned local -> k-th name of VOCAB), so renaming a local is no change;
  * the six formulas of the VRH block as `VExpr` trees (the tree type of calculator.py's averages, Generated/VRHExprs.lean);
  * `_to_*` / `_from_*` of units.py as pint unit expressions.
What is only PINNED (normalised ast text, locals renamed in order of appearance): imports used, the tuple-compatibility branch
and the float copy of `fit_modulus`, the allocation / inverse / 7x7-view statements of the VRH block, `convert_unit`, the
registry.  A pin says: the model was written against exactly this statement.
Anything outside the grammar raises TieBroken naming the block.
"""
import ast, os, copy
from fractions import Fraction

import gen_tables as T

STATIC = "cij/cli/static.py"
UNITS = "cij/util/units.py"

# canonical names of the locals of `main`, in order of first assignment
VOCAB = ["volumes", "v_array", "energies", "f_array", "p_array", "_p_array", "_v_array", "_f_array"]
FIT_PARAMS = ["volumes", "v_array", "moduli", "order"]
V2P_PARAMS = ["x_old", "p_old", "p_new"]

OPTS = {"p_min": "pMin", "delta_p": "deltaP", "delta_p_sample": "deltaPSample", "cellmass": "cellmass",
        "v_ratio": "vRatio", "ntv": "ntv"}
UNITFN = {"_to_gpa": "toGpa", "_from_gpa": "fromGpa", "_to_ang3": "toAng3", "_from_ang3": "fromAng3",
          "_to_gcm3": "toGcm3", "_to_ev": "toEv", "_to_kms": "toKms"}
PROPS = {"bm_V": "kV", "bm_R": "kR", "bm_VRH": "kH", "G_V": "gV", "G_R": "gR", "G_VRH": "gH"}

# qualified names the grammar knows (resolved through the import statements of `main`)
KNOWN = {
    "numpy.sqrt", "numpy.gradient", "numpy.min", "numpy.max", "numpy.linspace", "numpy.array", "numpy.zeros",
    "numpy.linalg.inv", "numpy.newaxis", "pandas.DataFrame", "itertools.product", "sys.stdout.write",
    "scipy.interpolate.InterpolatedUnivariateSpline", "qha.fitting.polynomial_least_square_fitting",
    "qha.grid_interpolation.calculate_eulerian_strain", "qha.v2p.v2p", "cij.io.traditional.read_elast_data",
    "cij.io.traditional.read_energy", "cij.util.fill.fill_cij",
} | {"cij.util.units." + k for k in UNITFN}


class Broken(T.TieBroken):
    pass


def brk(where, what):
    return T.TieBroken(f"static.py [{where}]: {what}")


# ------------------------------------------------------------------------------------------------ ast helpers
def strip_fn(fn):
    """docstrings, annotations, type comments out (a copy)"""
    fn = copy.deepcopy(fn)
    for n in ast.walk(fn):
        if isinstance(n, (ast.FunctionDef, ast.AsyncFunctionDef)):
            n.returns = None
            for a in n.args.args + n.args.kwonlyargs + n.args.posonlyargs:
                a.annotation = None
            if n.args.vararg: n.args.vararg.annotation = None
            if n.args.kwarg: n.args.kwarg.annotation = None
            n.body = [s for s in n.body if not (isinstance(s, ast.Expr) and isinstance(s.value, ast.Constant)
                                                and isinstance(s.value.value, str))] or [ast.Pass()]
    for n in ast.walk(fn):
        for f in ("body", "orelse"):
            b = getattr(n, f, None)
            if isinstance(b, list):
                for i, s in enumerate(b):
                    if isinstance(s, ast.AnnAssign) and s.value is not None:
                        b[i] = ast.copy_location(ast.Assign(targets=[s.target], value=s.value), s)
    return ast.fix_missing_locations(fn)


def canon_text(nodes, free=()):
    """`ast.unparse` with every name that is ASSIGNED somewhere in `nodes` (targets, loop variables) renamed _1, _2 … in order
    of first appearance; names in `free` and all other names stay"""
    nodes = [copy.deepcopy(n) for n in nodes]
    assigned = set()
    for n in nodes:
        for x in ast.walk(n):
            if isinstance(x, ast.Name) and isinstance(x.ctx, (ast.Store, ast.Del)) and x.id not in free:
                assigned.add(x.id)
    order = {}
    class R(ast.NodeTransformer):
        def visit_Name(self, node):
            if node.id in assigned:
                order.setdefault(node.id, f"_{len(order) + 1}")
                node.id = order[node.id]
            return node
    return "\n".join(ast.unparse(R().visit(n)) for n in nodes)


def lean_str(s):
    return T.lean_str(s)


def lean_list(xs):
    return "[" + ", ".join(xs) + "]"


def pylit(node, where):
    if node is None:
        return "PyLit.none"
    try:
        v = ast.literal_eval(node)
    except Exception:
        raise brk(where, f"default / literal outside grammar: {ast.unparse(node)}")
    if v is None: return "PyLit.none"
    if isinstance(v, bool): return f"PyLit.bool {'true' if v else 'false'}"
    if isinstance(v, int): return f"PyLit.int ({v})"
    if isinstance(v, float):
        fr = Fraction(repr(v))
        return f"PyLit.rat ({fr.numerator}) {fr.denominator}"
    if isinstance(v, str): return f"PyLit.str {lean_str(v)}"
    raise brk(where, f"literal outside grammar: {v!r}")


# ------------------------------------------------------------------------------------------------ click declaration
def click_decl(fn):
    params, cmd = [], None
    for d in fn.decorator_list:
        if not (isinstance(d, ast.Call) and isinstance(d.func, ast.Attribute) and isinstance(d.func.value, ast.Name)
                and d.func.value.id == "click"):
            raise brk("click", f"decorator outside grammar: {ast.unparse(d)[:80]}")
        kind = d.func.attr
        kws = {k.arg: k.value for k in d.keywords}
        names = []
        for a in d.args:
            if not (isinstance(a, ast.Constant) and isinstance(a.value, str)):
                raise brk("click", f"non-literal name in {ast.unparse(d)[:80]}")
            names.append(a.value)
        if kind == "command":
            if len(names) != 1 or set(kws) - {"help"}: raise brk("click", "command declaration changed")
            cmd = names[0]
            continue
        if kind not in ("argument", "option"):
            raise brk("click", f"decorator outside grammar: click.{kind}")
        extra = set(kws) - {"type", "default", "required", "show_default", "help"}
        if extra: raise brk("click", f"{names}: keyword(s) outside grammar: {sorted(extra)}")
        ty, choices = "", []
        if "type" in kws:
            t = kws["type"]
            src = ast.unparse(t)
            if src in ("click.INT", "click.FLOAT", "click.STRING", "click.BOOL"):
                ty = src.split(".")[1]
            elif src in ("int", "float", "str", "bool"):
                ty = {"int": "INT", "float": "FLOAT", "str": "STRING", "bool": "BOOL"}[src]
            elif isinstance(t, ast.Call) and ast.unparse(t.func) == "click.Choice":
                ty = "Choice"
                try: choices = list(ast.literal_eval(t.args[0]))
                except Exception: raise brk("click", f"{names}: choices not literal")
                if len(t.args) != 1 or t.keywords or not all(isinstance(c, str) for c in choices):
                    raise brk("click", f"{names}: Choice outside grammar")
            elif isinstance(t, ast.Call) and ast.unparse(t.func) == "click.Path":
                ty = "Path(" + ", ".join(sorted(f"{k.arg}={ast.unparse(k.value)}" for k in t.keywords)) + ")"
                if t.args: raise brk("click", f"{names}: Path outside grammar")
            else:
                raise brk("click", f"{names}: type outside grammar: {src}")
        req = kind == "argument"
        if "required" in kws:
            r = ast.literal_eval(kws["required"])
            if not isinstance(r, bool): raise brk("click", f"{names}: required not a bool")
            req = r
        params.append("{ kind := %s, names := %s, type := %s, choices := %s, default := %s, required := %s }" % (
            lean_str(kind), lean_list(lean_str(n) for n in names), lean_str(ty), lean_list(lean_str(c) for c in choices),
            pylit(kws.get("default"), "click"), "true" if req else "false"))
    if cmd is None: raise brk("click", "no click.command decorator")
    # click applies decorators bottom-up; the declaration order (top-down) is what the help shows — keep source order
    a = fn.args
    if a.vararg or a.kwarg or a.kwonlyargs or a.posonlyargs: raise brk("click", "signature of main outside grammar")
    names = [x.arg for x in a.args]
    defaults = [None] * (len(names) - len(a.defaults)) + list(a.defaults)
    sig = [f"({lean_str(n)}, {pylit(d, 'click') if d is not None else 'PyLit.none'})" for n, d in zip(names, defaults)]
    for n, d in zip(names, defaults):
        if d is not None and ast.literal_eval(d) is not None:
            raise brk("click", f"main({n}=...) has a Python-level default other than None")
    return cmd, params, sig, names


# ------------------------------------------------------------------------------------------------ expression translation
class Tr:
    """symbolic translation of the body of `main`"""

    def __init__(self, main):
        self.imports = {}                     # local name -> qualified name
        self.params = [a.arg for a in main.args.args]
        self.locals = {}                      # source name -> canonical name (top-level locals)
        self.poisoned = {}                    # names rebound inside a loop: reading them afterwards is outside the grammar
        self.helpers = {}                     # helper name -> (params [(name, default node)], ret X-string over .loc params)
        self.renames = []                     # (source name, canonical name) for the comment

    # ---- names
    def qual(self, node):
        """qualified name of a Name / dotted Attribute through the import table, else None"""
        parts = []
        n = node
        while isinstance(n, ast.Attribute):
            parts.insert(0, n.attr); n = n.value
        if not isinstance(n, ast.Name): return None
        base = self.imports.get(n.id)
        if base is None: return None
        return ".".join([base] + parts)

    def canon_local(self, name):
        if name not in self.locals:
            k = len(self.locals)
            c = VOCAB[k] if k < len(VOCAB) else f"extra_{k - len(VOCAB)}"
            self.locals[name] = c
            self.renames.append((name, c))
        return self.locals[name]

    # ---- subscripts of df
    @staticmethod
    def _is_full_slice(s):
        return isinstance(s, ast.Slice) and s.lower is None and s.upper is None and s.step is None

    def df_col(self, n):
        """`df.loc[:, "name"]` or `df["name"]` -> name, else None"""
        if isinstance(n, ast.Subscript):
            v, s = n.value, n.slice
            if isinstance(v, ast.Name) and v.id == "df" and isinstance(s, ast.Constant) and isinstance(s.value, str):
                return s.value
            if isinstance(v, ast.Attribute) and v.attr == "loc" and isinstance(v.value, ast.Name) and v.value.id == "df" \
                    and isinstance(s, ast.Tuple) and len(s.elts) == 2 and self._is_full_slice(s.elts[0]) \
                    and isinstance(s.elts[1], ast.Constant) and isinstance(s.elts[1].value, str):
                return s.elts[1].value
        return None

    # ---- expressions
    def x(self, n, where, env=None):
        """expression -> Lean `X` term.  `env`: extra symbolic bindings (helper parameters / loop locals) name -> X-string"""
        env = env or {}
        r = lambda m: self.x(m, where, env)
        if isinstance(n, ast.UnaryOp) and isinstance(n.op, ast.UAdd): return r(n.operand)
        if isinstance(n, ast.UnaryOp) and isinstance(n.op, ast.USub): return f"(.neg {r(n.operand)})"
        if isinstance(n, ast.Constant):
            v = n.value
            if isinstance(v, bool) or not isinstance(v, (int, float)): raise brk(where, f"literal outside grammar: {v!r}")
            if isinstance(v, int):
                if v < 0: raise brk(where, f"negative literal {v}")
                return f"(.lit {v})"
            fr = Fraction(repr(v))
            if fr < 0: raise brk(where, f"negative literal {v}")
            return f"(.div (.lit {fr.numerator}) (.lit {fr.denominator}))"
        if isinstance(n, ast.BinOp):
            for k, v in ((ast.Add, "add"), (ast.Sub, "sub"), (ast.Mult, "mul"), (ast.Div, "div")):
                if isinstance(n.op, k): return f"(.{v} {r(n.left)} {r(n.right)})"
            raise brk(where, f"operator outside grammar in `{ast.unparse(n)[:80]}`")
        if isinstance(n, ast.Name):
            if n.id in env: return env[n.id]
            if n.id in self.poisoned: raise brk(where, f"`{n.id}` is read after the loop that rebinds it")
            if n.id in self.locals: return f"(.loc {lean_str(self.locals[n.id])})"
            if n.id in OPTS and n.id in self.params: return f"(.opt .{OPTS[n.id]})"
            raise brk(where, f"name outside grammar: {n.id}")
        if isinstance(n, ast.Attribute) and ast.unparse(n) == "input02.cellmass": return "(.opt .tableCellmass)"
        # df.loc[:, "c"], df["c"], optionally .to_numpy()
        if isinstance(n, ast.Call) and isinstance(n.func, ast.Attribute) and n.func.attr == "to_numpy" and not n.args and not n.keywords:
            c = self.df_col(n.func.value)
            if c is not None: return f"(.col {lean_str(c)})"
        c = self.df_col(n)
        if c is not None: return f"(.col {lean_str(c)})"
        if isinstance(n, ast.Subscript):
            # a[k]
            if isinstance(n.slice, ast.Constant) and isinstance(n.slice.value, int) and n.slice.value >= 0:
                return f"(.index {r(n.value)} {n.slice.value})"
            # a[::-1]
            s = n.slice
            if isinstance(s, ast.Slice) and s.lower is None and s.upper is None and isinstance(s.step, ast.UnaryOp) \
                    and isinstance(s.step.op, ast.USub) and isinstance(s.step.operand, ast.Constant) and s.step.operand.value == 1:
                return f"(.rev {r(n.value)})"
            # v2p(x[nax, S], p[nax, S'], pn)[0]  is handled at the call
            raise brk(where, f"subscript outside grammar: {ast.unparse(n)[:80]}")
        if isinstance(n, ast.Call):
            return self.call(n, where, env)
        raise brk(where, f"expression outside grammar: {ast.unparse(n)[:100]}")

    def row_arg(self, n, where, env):
        """`a[nax, ::-1]` / `a[nax, :]` / `a[nax]` -> X of the 1-d row"""
        if isinstance(n, ast.Subscript):
            s = n.slice
            elts = s.elts if isinstance(s, ast.Tuple) else [s]
            if elts and (self.qual(elts[0]) == "numpy.newaxis" or (isinstance(elts[0], ast.Constant) and elts[0].value is None)):
                if len(elts) == 1: return self.x(n.value, where, env)
                if len(elts) == 2:
                    inner = ast.Subscript(value=n.value, slice=elts[1], ctx=ast.Load())
                    if self._is_full_slice(elts[1]): return self.x(n.value, where, env)
                    return self.x(inner, where, env)
        raise brk(where, f"v2p argument is not a single row `a[nax, …]`: {ast.unparse(n)[:80]}")

    def call(self, n, where, env):
        r = lambda m: self.x(m, where, env)
        # InterpolatedUnivariateSpline(x, y)(z)
        if isinstance(n.func, ast.Call) and self.qual(n.func.func) == "scipy.interpolate.InterpolatedUnivariateSpline":
            if len(n.func.args) != 2 or n.func.keywords or len(n.args) != 1 or n.keywords:
                raise brk(where, "spline call outside grammar (keywords change the spline)")
            return f"(.spline {r(n.func.args[0])} {r(n.func.args[1])} {r(n.args[0])})"
        # local helpers
        if isinstance(n.func, ast.Name) and n.func.id in self.helpers and n.func.id not in self.locals:
            params, ret = self.helpers[n.func.id]
            names = [p for p, _ in params]
            bound = {}
            if len(n.args) > len(names): raise brk(where, f"too many arguments for {n.func.id}")
            for p, a in zip(names, n.args): bound[p] = r(a)
            for k in n.keywords:
                if k.arg not in names or k.arg in bound: raise brk(where, f"bad keyword {k.arg} for {n.func.id}")
                bound[k.arg] = r(k.value)
            for p, d in params:
                if p not in bound:
                    if d is None: raise brk(where, f"{n.func.id}: argument {p} missing")
                    bound[p] = self.x(d, where)
            return ret(bound)
        q = self.qual(n.func)
        if q is None:
            raise brk(where, f"call outside grammar: {ast.unparse(n)[:80]}")
        if q not in KNOWN:
            raise brk(where, f"call of `{q}` is outside the grammar")
        def plain(k):
            if len(n.args) != k or n.keywords: raise brk(where, f"`{q}` with other arguments: {ast.unparse(n)[:80]}")
        if q == "numpy.sqrt": plain(1); return f"(.sqrt {r(n.args[0])})"
        if q == "numpy.gradient": plain(1); return f"(.gradient {r(n.args[0])})"
        if q == "numpy.min": plain(1); return f"(.amin {r(n.args[0])})"
        if q == "numpy.max": plain(1); return f"(.amax {r(n.args[0])})"
        if q == "numpy.linspace": plain(3); return f"(.linspace {r(n.args[0])} {r(n.args[1])} {r(n.args[2])})"
        if q == "numpy.array":
            # `numpy.array(a, dtype=float)`: a float copy — the identity on values
            kws = {k.arg: ast.unparse(k.value) for k in n.keywords}
            if len(n.args) == 1 and kws in ({}, {"dtype": "float"}): return r(n.args[0])
            raise brk(where, f"numpy.array with other arguments: {ast.unparse(n)[:80]}")
        if q == "qha.grid_interpolation.calculate_eulerian_strain":
            plain(2); return f"(.strain {r(n.args[0])} {r(n.args[1])})"
        if q == "qha.fitting.polynomial_least_square_fitting":
            if len(n.args) != 3 or [k.arg for k in n.keywords] != ["order"]:
                raise brk(where, f"least-squares call outside grammar: {ast.unparse(n)[:100]}")
            return f"(.lsq {r(n.args[0])} {r(n.args[1])} {r(n.args[2])} {r(n.keywords[0].value)})"
        if q.startswith("cij.util.units."):
            plain(1); return f"(.unit .{UNITFN[q.rsplit('.', 1)[1]]} {r(n.args[0])})"
        raise brk(where, f"call of `{q}` in an expression")

    # ---- helper functions
    def helper(self, fn, canon_params, where):
        a = fn.args
        if a.vararg or a.kwarg or a.kwonlyargs or a.posonlyargs or len(a.args) != len(canon_params):
            raise brk(where, "signature changed")
        src_names = [x.arg for x in a.args]
        defaults = [None] * (len(src_names) - len(a.defaults)) + list(a.defaults)
        env = {s: f"(.loc {lean_str(c)})" for s, c in zip(src_names, canon_params)}
        ret = None
        body = list(fn.body)
        pins = []
        i = 0
        while i < len(body):
            st = body[i]; i += 1
            if isinstance(st, ast.ImportFrom) and st.module == "numpy" and [(x.name, x.asname) for x in st.names] == [("newaxis", "nax")]:
                self.imports["nax"] = "numpy.newaxis"; continue
            if isinstance(st, (ast.Import, ast.ImportFrom)):
                self.add_import(st, where); continue
            if isinstance(st, ast.Assign) and len(st.targets) == 1 and isinstance(st.targets[0], ast.Name):
                env[st.targets[0].id] = self.expr_or_v2p(st.value, where, env); continue
            if isinstance(st, ast.If):
                # qha < 1.1 compatibility: `if isinstance(NAME, tuple): _, NAME = NAME`
                t = ast.unparse(st)
                nm = st.test.args[0].id if (isinstance(st.test, ast.Call) and st.test.args and isinstance(st.test.args[0], ast.Name)) else "?"
                if t == f"if isinstance({nm}, tuple):\n    _, {nm} = {nm}" and nm in env:
                    pins.append("tuple-compat"); continue
                raise brk(where, f"branch outside grammar: {t[:100]}")
            if isinstance(st, ast.Return) and i == len(body):
                ret = self.expr_or_v2p(st.value, where, env); continue
            raise brk(where, f"statement outside grammar: {ast.unparse(st)[:100]}")
        if ret is None: raise brk(where, "no final return")
        # `ret` mentions the parameters as (.loc "<canon>") — for inlining, substitute textually
        def inline(bound):
            out = ret
            # substitute through unique placeholders to avoid re-substitution
            for k, c in enumerate(canon_params):
                out = out.replace(f"(.loc {lean_str(c)})", f"\x00{k}\x00")
            for k, s in enumerate(src_names):
                out = out.replace(f"\x00{k}\x00", bound[s])
            return out
        params = list(zip(src_names, defaults))
        lean_params = lean_list(f"({lean_str(c)}, {pylit(d, where) if d is not None else 'PyLit.none'})"
                                for c, d in zip(canon_params, defaults))
        return params, inline, ret, lean_params, pins

    def expr_or_v2p(self, n, where, env):
        # v2p(A[nax, S], B[nax, S], C)[0]
        if isinstance(n, ast.Subscript) and isinstance(n.slice, ast.Constant) and n.slice.value == 0 \
                and isinstance(n.value, ast.Call) and self.qual(n.value.func) == "qha.v2p.v2p":
            c = n.value
            if len(c.args) != 3 or c.keywords: raise brk(where, "v2p call outside grammar")
            return f"(.v2pRow0 {self.row_arg(c.args[0], where, env)} {self.row_arg(c.args[1], where, env)} {self.x(c.args[2], where, env)})"
        return self.x(n, where, env)

    def add_import(self, st, where):
        if isinstance(st, ast.Import):
            for a in st.names:
                self.imports[a.asname or a.name.split(".")[0]] = a.name if a.asname else a.name.split(".")[0]
        else:
            if st.level: raise brk(where, "relative import")
            for a in st.names:
                self.imports[a.asname or a.name] = f"{st.module}.{a.name}"


# ------------------------------------------------------------------------------------------------ statements of main
def guard_of(test, where):
    """test -> list of (positive?, atom)"""
    if isinstance(test, ast.BoolOp) and isinstance(test.op, ast.And):
        out = []
        for v in test.values: out += guard_of(v, where)
        return out
    if isinstance(test, ast.UnaryOp) and isinstance(test.op, ast.Not):
        g = guard_of(test.operand, where)
        if len(g) != 1: raise brk(where, f"negated conjunction: {ast.unparse(test)}")
        return [(not g[0][0], g[0][1])]
    if isinstance(test, ast.Name) and test.id == "input02": return [(True, ".input02")]
    if isinstance(test, ast.Name) and test.id == "cellmass": return [(True, ".cellmass")]
    if isinstance(test, ast.Name) and test.id == "delta_p_sample": return [(True, ".deltaPSample")]
    if isinstance(test, ast.Compare) and len(test.ops) == 1:
        l, op, r = test.left, test.ops[0], test.comparators[0]
        if isinstance(l, ast.Name) and l.id == "interp" and isinstance(op, ast.Eq) and isinstance(r, ast.Constant) and isinstance(r.value, str):
            return [(True, f"(.interpIs {lean_str(r.value)})")]
        if isinstance(l, ast.Name) and l.id == "system" and isinstance(op, (ast.Eq, ast.Is)) and isinstance(r, ast.Constant) and r.value is None:
            return [(True, ".systemIsNone")]
        if isinstance(l, ast.Name) and l.id == "system" and isinstance(op, (ast.NotEq, ast.IsNot)) and isinstance(r, ast.Constant) and r.value is None:
            return [(False, ".systemIsNone")]
        if isinstance(l, ast.Constant) and isinstance(l.value, str) and isinstance(op, ast.In) and ast.unparse(r) == "df.columns":
            return [(True, f"(.hasCol {lean_str(l.value)})")]
    raise brk(where, f"condition outside grammar: {ast.unparse(test)}")


def lean_guard(g):
    return lean_list(f"({'true' if p else 'false'}, {a})" for p, a in g)


class Main:
    def __init__(self, tr):
        self.tr = tr
        self.blocks = []          # (guard, [stmt strings], comment)
        self.vrh = []             # (column, VExpr string, source)
        self.pins = []

    # -- VExpr for the VRH formulas
    def vexpr(self, n, where, cnames):
        r = lambda m: self.vexpr(m, where, cnames)
        if isinstance(n, ast.UnaryOp) and isinstance(n.op, ast.UAdd): return r(n.operand)
        if isinstance(n, ast.Constant) and isinstance(n.value, int) and not isinstance(n.value, bool) and n.value >= 0:
            return f"(.lit {n.value})"
        if isinstance(n, ast.Constant) and isinstance(n.value, float) and n.value >= 0:
            fr = Fraction(repr(n.value)); return f"(.div (.lit {fr.numerator}) (.lit {fr.denominator}))"
        if isinstance(n, ast.BinOp):
            for k, v in ((ast.Add, "add"), (ast.Sub, "sub"), (ast.Mult, "mul"), (ast.Div, "div")):
                if isinstance(n.op, k): return f"(.{v} {r(n.left)} {r(n.right)})"
            raise brk(where, f"operator outside grammar in `{ast.unparse(n)[:80]}`")
        c = self.tr.df_col(n)
        if c is not None:
            if c in PROPS: return f"(.prop .{PROPS[c]})"
            raise brk(where, f"column `{c}` read inside a VRH formula")
        if isinstance(n, ast.Subscript) and isinstance(n.value, ast.Name) and n.value.id in cnames \
                and isinstance(n.slice, ast.Tuple) and len(n.slice.elts) == 3 and Tr._is_full_slice(n.slice.elts[0]) \
                and all(isinstance(e, ast.Constant) and isinstance(e.value, int) for e in n.slice.elts[1:]):
            i, j = n.slice.elts[1].value, n.slice.elts[2].value
            lo, hi = cnames[n.value.id][1], cnames[n.value.id][2]
            if not (lo <= i <= hi and lo <= j <= hi): raise brk(where, f"index outside the {hi}x{hi} view: {ast.unparse(n)}")
            return f"(.{cnames[n.value.id][0]} {i} {j})"
        raise brk(where, f"VRH formula outside grammar: {ast.unparse(n)[:100]}")

    # -- one simple statement -> list of stmt strings
    def simple(self, st, where):
        tr = self.tr
        src = ast.unparse(st)
        if isinstance(st, ast.Expr) and isinstance(st.value, ast.Call):
            c = st.value
            if ast.unparse(c.func) == "logger.warning": return [".warn"]
            if tr.qual(c.func) == "sys.stdout.write" and ast.unparse(c.args[0]) == "df.to_string()" and len(c.args) == 1 and not c.keywords:
                return [".write"]
            raise brk(where, f"call statement outside grammar: {src[:100]}")
        if isinstance(st, ast.Assign) and len(st.targets) == 1:
            tg, val = st.targets[0], st.value
            col = tr.df_col(tg)
            if col is not None:
                return [f".setCol {lean_str(col)} {tr.x(val, where)}"]
            if isinstance(tg, ast.Name) and tg.id == "input01":
                if isinstance(val, ast.Call) and tr.qual(val.func) == "cij.io.traditional.read_energy" and ast.unparse(val.args[0]) == "input01" \
                        and len(val.args) == 1 and not val.keywords:
                    return [".readInput01"]
                raise brk(where, f"input01 assignment changed: {src[:100]}")
            if isinstance(tg, ast.Name) and tg.id == "input02":
                if isinstance(val, ast.Call) and tr.qual(val.func) == "cij.io.traditional.read_elast_data" and ast.unparse(val.args[0]) == "input02" \
                        and len(val.args) == 1 and not val.keywords:
                    return [".readInput02"]
                raise brk(where, f"input02 assignment changed: {src[:100]}")
            if isinstance(tg, ast.Name) and tg.id == "df":
                if isinstance(val, ast.Call) and tr.qual(val.func) == "pandas.DataFrame" and not val.args \
                        and [k.arg for k in val.keywords] == ["index"]:
                    idx = val.keywords[0].value
                    if isinstance(idx, ast.Call) and isinstance(idx.func, ast.Name) and idx.func.id == "range" and len(idx.args) == 1:
                        if ast.unparse(idx.args[0]) == "input01.nv":
                            return ["@frame01"]
                        return [f".newFrame {tr.x(idx.args[0], where)}"]
                if isinstance(val, ast.Call) and tr.qual(val.func) == "cij.util.fill.fill_cij" \
                        and [ast.unparse(a) for a in val.args] == ["df", "system"] and not val.keywords:
                    return [".fill"]
                raise brk(where, f"assignment to df outside grammar: {src[:100]}")
            if isinstance(tg, ast.Name):
                if tg.id in tr.params or tg.id in tr.helpers or tg.id in tr.imports:
                    raise brk(where, f"`{tg.id}` rebound: {src[:80]}")
                e = tr.x(val, where)                       # translate BEFORE the (possibly new) binding becomes visible
                if tg.id in tr.poisoned: del tr.poisoned[tg.id]
                return [f".setLocal {lean_str(tr.canon_local(tg.id))} {e}"]
        raise brk(where, f"statement outside grammar: {src[:100]}")

    # -- recognised compound shapes
    def frame01(self, loop, where):
        """for i in df.index: df.loc[i, "V"] = input01.volumes[i].volume …"""
        if not (isinstance(loop, ast.For) and isinstance(loop.target, ast.Name) and ast.unparse(loop.iter) == "df.index" and not loop.orelse):
            raise brk(where, "the frame of INPUT01 is not filled by `for i in df.index`")
        i = loop.target.id
        cols = []
        for st in loop.body:
            ok = isinstance(st, ast.Assign) and len(st.targets) == 1
            if ok:
                tg, val = st.targets[0], st.value
                ok = (isinstance(tg, ast.Subscript) and ast.unparse(tg.value) == "df.loc" and isinstance(tg.slice, ast.Tuple)
                      and len(tg.slice.elts) == 2 and ast.unparse(tg.slice.elts[0]) == i
                      and isinstance(tg.slice.elts[1], ast.Constant) and isinstance(tg.slice.elts[1].value, str)
                      and isinstance(val, ast.Attribute) and ast.unparse(val.value) == f"input01.volumes[{i}]")
            if not ok: raise brk(where, f"row assignment outside grammar: {ast.unparse(st)[:100]}")
            cols.append((tg.slice.elts[1].value, val.attr))
        return ".frameFromInput01 " + lean_list(f"({lean_str(c)}, {lean_str(a)})" for c, a in cols)

    def fit_loop(self, loop, where):
        tr = self.tr
        if not (isinstance(loop.target, ast.Name) and ast.unparse(loop.iter) == "input02.volumes[0].static_elastic_modulus.keys()" and not loop.orelse):
            raise brk(where, f"loop outside grammar: for {ast.unparse(loop.target)} in {ast.unparse(loop.iter)[:80]}")
        key = loop.target.id
        env, name_of, out = {}, {}, None
        for st in loop.body:
            src = ast.unparse(st)
            if not (isinstance(st, ast.Assign) and len(st.targets) == 1): raise brk(where, f"statement outside grammar: {src[:100]}")
            tg, val = st.targets[0], st.value
            # A, B = numpy.array([(v.volume, v.static_elastic_modulus[key]) for v in input02.volumes]).T
            if isinstance(tg, ast.Tuple) and len(tg.elts) == 2 and all(isinstance(e, ast.Name) for e in tg.elts):
                ok = isinstance(val, ast.Attribute) and val.attr == "T" and isinstance(val.value, ast.Call) \
                    and tr.qual(val.value.func) == "numpy.array" and len(val.value.args) == 1 and not val.value.keywords \
                    and isinstance(val.value.args[0], ast.ListComp)
                if ok:
                    lc = val.value.args[0]
                    g = lc.generators
                    ok = len(g) == 1 and not g[0].ifs and isinstance(g[0].target, ast.Name) and isinstance(lc.elt, ast.Tuple) and len(lc.elt.elts) == 2
                if not ok: raise brk(where, f"pair extraction outside grammar: {src[:120]}")
                v = g[0].target.id
                source = ast.unparse(g[0].iter)
                if source != "input02.volumes":
                    raise brk(where, f"the fitted (volume, value) pairs are taken from `{source}`, not from input02.volumes")
                for e, nm in zip(lc.elt.elts, tg.elts):
                    s = ast.unparse(e)
                    if s == f"{v}.volume": env[nm.id] = ".tableVolumes"
                    elif s == f"{v}.static_elastic_modulus[{key}]": env[nm.id] = ".keyValues"
                    else: raise brk(where, f"pair component outside grammar: {s}")
                continue
            # name = "c%d%d" % key.voigt
            if isinstance(tg, ast.Name) and isinstance(val, ast.BinOp) and isinstance(val.op, ast.Mod):
                if isinstance(val.left, ast.Constant) and val.left.value in ("c%d%d", "c%s%s") and ast.unparse(val.right) in (f"{key}.voigt", f"{key}.v"):
                    name_of[tg.id] = True; continue
                raise brk(where, f"column name outside grammar: {src[:100]}")
            # df.loc[:, name] = <expr>
            if isinstance(tg, ast.Subscript) and ast.unparse(tg.value) == "df.loc" and isinstance(tg.slice, ast.Tuple) and len(tg.slice.elts) == 2 \
                    and Tr._is_full_slice(tg.slice.elts[0]) and isinstance(tg.slice.elts[1], ast.Name) and tg.slice.elts[1].id in name_of and out is None:
                out = tr.x(val, where, env); continue
            if isinstance(tg, ast.Name):
                env[tg.id] = tr.x(val, where, env); continue
            raise brk(where, f"statement outside grammar: {src[:100]}")
        if out is None: raise brk(where, "the loop assigns no column")
        if ".col " in out: raise brk(where, "the fitted expression reads a column of the frame it is writing")
        for nm in list(env) + [key]:
            if nm in tr.locals: tr.poisoned[nm] = True
        return f".fitLoop {out}"

    def vrh_block(self, body, where):
        """cij = zeros((df.shape[0], 6, 6)); for i, j in product(range(6), range(6)): …; sij = inv(cij); c/s 7x7 views; formulas"""
        tr = self.tr
        k = 0
        while k < len(body) and not (isinstance(body[k], ast.Assign) and tr.df_col(body[k].targets[0]) is not None):
            k += 1
        head, tail = body[:k], body[k:]
        want = ("_1 = numpy.zeros((df.shape[0], D, D))\n"
                "for _2, _3 in itertools.product(range(D), range(D)):\n"
                "    _4 = FMT % tuple(sorted((_2 + K, _3 + K)))\n"
                "    if _4 in df.columns:\n"
                "        _1[:, _2, _3] = df.loc[:, _4]\n"
                "_5 = numpy.linalg.inv(_1)\n"
                "_6 = numpy.zeros((_1.shape[0], E, E))\n"
                "_7 = numpy.zeros((_5.shape[0], E, E))\n"
                "_6[:, W:, W:] = _1[:, :, :]\n"
                "_7[:, W:, W:] = _5[:, :, :]")
        # extract D, K, FMT, E, W from the source, then compare the canonical text
        try:
            zeros = head[0].value.args[0].elts
            D = ast.literal_eval(zeros[1])
            loop = head[1]
            keyexpr = loop.body[0].value
            FMT = keyexpr.left.value
            srt = keyexpr.right.args[0]
            inner = srt.args[0].elts if (isinstance(srt, ast.Call) and ast.unparse(srt.func) == "sorted") else None
            K = ast.literal_eval(inner[0].right)
            E = ast.literal_eval(head[3].value.args[0].elts[1])
            W = ast.literal_eval(head[5].targets[0].slice.elts[1].lower)
            cname, sname = head[3].targets[0].id, head[4].targets[0].id
        except Exception:
            raise brk(where, "assembly of the 6x6 matrices changed (shape of the statements)")
        for nm in ("numpy", "itertools"):
            if tr.imports.get(nm) != nm: raise brk(where, f"`{nm}` is not the module {nm}")
        got = canon_text(head)
        exp = want.replace("FMT", repr(FMT)).replace("D", str(D)).replace("K", str(K)).replace("E", str(E)).replace("W", str(W))
        if got != exp or FMT != "c%d%d" or not all(isinstance(v, int) and v >= 0 for v in (D, K, E, W)) or E != D + W:
            raise brk(where, "assembly of the 6x6 matrices changed:\n" + got)
        stmts = [f".assemble {{ dim := {D}, keyOffset := {K}, sorted := true, viewOffset := {W} }}"]
        cnames = {cname: ("c", W, D + W - 1), sname: ("s", W, D + W - 1)}
        for st in tail:
            if not (isinstance(st, ast.Assign) and len(st.targets) == 1 and tr.df_col(st.targets[0]) is not None):
                raise brk(where, f"statement outside grammar: {ast.unparse(st)[:100]}")
            col = tr.df_col(st.targets[0])
            e = self.vexpr(st.value, where, cnames)
            self.vrh.append((col, e, " ".join(ast.unparse(st.value).split())))
            stmts.append(f".setColV {lean_str(col)} staticVrh_{col}")
        return stmts

    def sample_block(self, body, where):
        tr = self.tr
        if len(body) == 2 and isinstance(body[0], ast.Assign) and isinstance(body[0].targets[0], ast.Name) \
                and isinstance(body[0].value, ast.Call) and isinstance(body[0].value.func, ast.Name) and body[0].value.func.id == "round" \
                and "round" not in tr.imports and "round" not in tr.locals \
                and len(body[0].value.args) == 1 and not body[0].value.keywords:
            nm = body[0].targets[0].id
            if ast.unparse(body[1]) == f"df = df.iloc[::{nm}, :]":
                return [f".sampleRound {tr.x(body[0].value.args[0], where)}"]
        raise brk(where, "sampling statements changed: " + " ; ".join(ast.unparse(s) for s in body)[:160])

    # -- a list of statements (one block body)
    def body(self, stmts, where):
        out = []
        k = 0
        while k < len(stmts):
            st = stmts[k]; k += 1
            if isinstance(st, ast.For):
                out.append(self.fit_loop(st, where)); continue
            if isinstance(st, (ast.If, ast.While, ast.With, ast.Try, ast.FunctionDef, ast.Return)):
                raise brk(where, f"nested control flow: {ast.unparse(st)[:80]}")
            r = self.simple(st, where)
            if r == ["@frame01"]:
                if k >= len(stmts): raise brk(where, "frame of INPUT01 is never filled")
                out.append(self.frame01(stmts[k], where)); k += 1
                continue
            out += r
        return out

    def block(self, guard, stmts, where, note):
        kinds = {ast.unparse(s.value.func) for s in stmts if isinstance(s, ast.Assign) and isinstance(s.value, ast.Call)}
        if any(isinstance(s, ast.Assign) and isinstance(s.value, ast.Call) and self.tr.qual(s.value.func) == "numpy.linalg.inv" for s in stmts):
            body = self.vrh_block(stmts, where)
        elif any(isinstance(s, ast.Assign) and isinstance(s.value, ast.Call) and isinstance(s.value.func, ast.Name) and s.value.func.id == "round" for s in stmts):
            body = self.sample_block(stmts, where)
        else:
            body = self.body(stmts, where)
        self.blocks.append((guard, body, note))

    def run(self, stmts):
        pend = []
        def flush():
            if pend:
                self.block([], list(pend), f"l.{pend[0].lineno}", "unguarded")
                pend.clear()
        for st in stmts:
            if isinstance(st, ast.If):
                flush()
                neg = []
                cur = st
                while True:
                    where = f"l.{cur.lineno} if {ast.unparse(cur.test)[:40]}"
                    g = guard_of(cur.test, where)
                    self.block(neg + g, cur.body, where, ("elif" if neg else "if") + f" {ast.unparse(cur.test)}:")
                    if len(cur.orelse) == 1 and isinstance(cur.orelse[0], ast.If):
                        if len(g) != 1: raise brk(where, "elif after a conjunction")
                        neg = neg + [(not g[0][0], g[0][1])]
                        cur = cur.orelse[0]; continue
                    if cur.orelse: raise brk(where, "`else` branch")
                    break
            else:
                pend.append(st)
        flush()


# ------------------------------------------------------------------------------------------------ units.py
def units_spec():
    path = os.path.join(T.REPO, UNITS)
    tree = ast.parse(open(path).read())
    fns = {f.name: strip_fn(f) for f in tree.body if isinstance(f, ast.FunctionDef)}
    reg = [ast.unparse(s) for s in tree.body if isinstance(s, ast.Assign) and ast.unparse(s.targets[0]) == "units"]
    if reg != ["units = pint.UnitRegistry()"]: raise T.TieBroken(f"units.py: the registry is not the default pint.UnitRegistry(): {reg}")
    cu = fns.get("convert_unit")
    want = ("def convert_unit(unit_from, unit_to, value=None):\n"
            "    _1 = lambda x: units.Quantity(x, unit_from).to(unit_to).magnitude\n"
            "    if value is not None:\n        return _1(value)\n    else:\n        return _1")
    if cu is None or canon_text([cu], free=("convert_unit",)) != want:
        raise T.TieBroken("units.py: convert_unit changed")
    def ux(n):
        if isinstance(n, ast.Attribute) and isinstance(n.value, ast.Name) and n.value.id == "units": return f"(.u {lean_str(n.attr)})"
        if isinstance(n, ast.BinOp) and isinstance(n.op, ast.Mult): return f"(.mul {ux(n.left)} {ux(n.right)})"
        if isinstance(n, ast.BinOp) and isinstance(n.op, ast.Div): return f"(.div {ux(n.left)} {ux(n.right)})"
        if isinstance(n, ast.BinOp) and isinstance(n.op, ast.Pow):
            e = n.right
            if isinstance(e, ast.Constant) and isinstance(e.value, int) and e.value > 0: return f"(.pow {ux(n.left)} {e.value} 1)"
            if isinstance(e, ast.BinOp) and isinstance(e.op, ast.Div) and all(isinstance(z, ast.Constant) and isinstance(z.value, int) and z.value > 0 for z in (e.left, e.right)):
                return f"(.pow {ux(n.left)} {e.left.value} {e.right.value})"
        raise T.TieBroken(f"units.py: unit expression outside grammar: {ast.unparse(n)}")
    rows = []
    for name in UNITFN:
        f = fns.get(name)
        if f is None: raise T.TieBroken(f"units.py: {name} not found")
        if len(f.args.args) != 1 or f.args.defaults or len(f.body) != 1 or not isinstance(f.body[0], ast.Return):
            raise T.TieBroken(f"units.py: {name} is not `return convert_unit(<from>, <to>, value)`")
        c = f.body[0].value
        if not (isinstance(c, ast.Call) and isinstance(c.func, ast.Name) and c.func.id == "convert_unit" and len(c.args) == 3
                and not c.keywords and isinstance(c.args[2], ast.Name) and c.args[2].id == f.args.args[0].arg):
            raise T.TieBroken(f"units.py: {name} is not `return convert_unit(<from>, <to>, value)`")
        rows.append(f"{{ name := {lean_str(name)}, src := {ux(c.args[0])}, dst := {ux(c.args[1])} }}")
    return rows, path


# ------------------------------------------------------------------------------------------------ generator
def gen_static_spec():
    path = os.path.join(T.REPO, STATIC)
    tree = ast.parse(open(path).read())
    main = next((f for f in tree.body if isinstance(f, ast.FunctionDef) and f.name == "main"), None)
    if main is None: raise T.TieBroken("static.py: main not found")
    cmd, click_params, sig, pnames = click_decl(main)
    main = strip_fn(main)
    tr = Tr(main)
    stmts = list(main.body)
    # imports first (anywhere at the top level of main), helper definitions next
    rest = []
    for st in stmts:
        if isinstance(st, (ast.Import, ast.ImportFrom)): tr.add_import(st, "imports")
        else: rest.append(st)
    need = {"numpy": "numpy", "pandas": "pandas", "sys": "sys", "itertools": "itertools"}
    helper_defs = {f.name: f for f in rest if isinstance(f, ast.FunctionDef)}
    rest = [s for s in rest if not isinstance(s, ast.FunctionDef)]
    if set(helper_defs) != {"fit_modulus", "v2p1d"}:
        raise T.TieBroken(f"static.py [helpers]: inner functions are {sorted(helper_defs)} (expected fit_modulus, v2p1d)")
    fitp, fit_inline, fit_ret, fit_lean_params, fit_pins = tr.helper(helper_defs["fit_modulus"], FIT_PARAMS, "fit_modulus")
    tr.helpers["fit_modulus"] = (fitp, fit_inline)
    v2pp, v2p_inline, v2p_ret, v2p_lean_params, _ = tr.helper(helper_defs["v2p1d"], V2P_PARAMS, "v2p1d")
    tr.helpers["v2p1d"] = (v2pp, v2p_inline)
    if fit_pins != ["tuple-compat"]:
        raise T.TieBroken("static.py [fit_modulus]: the tuple-return compatibility branch (qha < 1.1) is gone or duplicated")
    m = Main(tr)
    m.run(rest)
    # every block that reads numpy / pandas … went through `qual`; make sure the module aliases are the modules
    for k, v in need.items():
        if tr.imports.get(k) != v: raise T.TieBroken(f"static.py [imports]: `{k}` is not the module {v}")
    unit_rows, upath = units_spec()

    L = []
    L.append("-- GENERATED by tools/gens/static_src.py from cij/cli/static.py and cij/util/units.py — do not edit")
    L.append("import CijModel.StaticExpr\nopen Cij.StaticSrc Cij.VExpr\nnamespace Generated\n")
    L.append(f"/-- `@click.command({cmd!r}, …)` -/\ndef staticCommand : String := {lean_str(cmd)}\n")
    L.append("/-- the arguments and options of the command, in declaration order -/\ndef staticClick : List ClickParam :=\n  ["
             + ",\n   ".join(click_params) + "]\n")
    L.append("/-- `def main(" + ", ".join(pnames) + ")`: parameter names with their Python-level defaults -/\n"
             "def staticMainParams : List (String × PyLit) :=\n  " + lean_list(sig) + "\n")
    L.append("/-- `fit_modulus(volumes, v_array, moduli, order=…)`: the returned array (locals substituted; `numpy.array(moduli, dtype=float)`\n"
             "is a float copy; the `isinstance(…, tuple)` branch is the qha < 1.1 compatibility, not taken with qha ≥ 1.1) -/\n"
             f"def staticFitModulus : FunDef :=\n  {{ params := {fit_lean_params},\n    ret := {fit_ret} }}\n")
    L.append("/-- `v2p1d(x_old, p_old, p_new)` -/\n"
             f"def staticV2p1d : FunDef :=\n  {{ params := {v2p_lean_params},\n    ret := {v2p_ret} }}\n")
    for col, e, src in m.vrh:
        L.append(f"/-- `df.loc[:, {col!r}] = {src}` -/\ndef staticVrh_{col} : VExpr :=\n  {e}\n")
    if tr.renames:
        L.append("/- locals of `main` (source name -> canonical name): " + ", ".join(f"{a} -> {b}" for a, b in tr.renames) + " -/\n")
    L.append("/-- the body of `main` after the imports and the two helper definitions, block by block, in source order -/")
    L.append("def staticBlocks : List Block :=\n  [")
    rows = []
    for g, body, note in m.blocks:
        rows.append(f"   -- {note}\n   {{ guard := {lean_guard(g)},\n     body := [" + ",\n              ".join(body) + "] }")
    L.append(",\n".join(rows) + "]\n")
    L.append("/-- `_to_*` / `_from_*` of cij/util/units.py: `convert_unit(src, dst, value)` on the default `pint.UnitRegistry()` -/\n"
             "def staticUnitHelpers : List UnitHelper :=\n  [" + ",\n   ".join(unit_rows) + "]\n")
    L.append("end Generated\n")
    return {"StaticSpec.lean": "\n".join(L)}, [path, upath]


GENERATORS = {"gen_static_spec": (gen_static_spec, ["StaticSpec.lean"])}
