"""Translator plug-in: EVERY function of `cij/core/mode_gamma.py` -> lean/Generated/ModeGammaGlue.lean        (C11; also C01, C02, C12, C13)

(`gen_tables.gen_modegamma_spec` keeps producing Generated/ModeGammaSpec.lean — return-triple pattern, thin/flip flags, imported by
C01/C05/C12 too — and `gens/ppoly.py` Generated/PPolySpec.lean; this plug-in translates the whole module as statements and expression
trees, so nothing of it is only pinned as text.)

Everything is read with `ast` from the working tree (`T.REPO`), never imported.  Docstrings, comments, annotations, blank lines,
quoting and line breaks never matter.  LOCAL VARIABLE NAMES never matter either: names assigned inside a function (not its
parameters) are renamed `l0, l1, …` in order of first assignment, comprehension variables `c0, …`; whether a dotted name such as
`krogh.derivative` is a method call on a local object or a module function is decided on the real binding sets BEFORE the renaming.
Keyword arguments are sorted by name (their order has no meaning in Python).

Per function (types and meaning: lean/CijModel/ModeGammaGlue.lean):
  the six straight-line functions (`interpolate_mode_spline|lagrange|krogh|ppoly|lsq_poly`, `lstsq_polyfit`)
      parameters with defaults; the body as a list of statements
        `x = e` | `x += e` | `a, b, … = e` | `if t: x = e elif …` (no else) | `return e`
      with every expression as a tree: local / parameter, literals, global dotted name, call of a numpy/scipy/builtin function by its
      dotted name with positional and keyword arguments, call of a function of THIS module, call of a local object
      (`interp(ln_v, nu=1)`), method call on a local object (`krogh.derivative(ln_v, der=1)`), attribute, subscript, `[::step]`,
      unary minus, `/`, `==`, `and`, `in`, tuples, lists of string literals, list comprehensions.  Dotted library names and keyword names
      of library calls are emitted as constructors of `Lib` / `Kw` through the tables LIB / KW below (also emitted, and checked in Lean
      against `Lib.pyName` / `Kw.pyName`); a name outside the tables becomes `(.other <name>)`.  What is outside the grammar becomes
      `.other <text>`; both have NO meaning in Lean (never a default) and are listed by the theorem `nothing_outside`.
  `interpolate_modes`
      parameters with defaults; the simple assignments before the arrays; every `name = numpy.zeros((…))` with its shape expressions;
      `mode_volumes = …`; the nest of `for <v> in <iter>:` loops; the test of `if …: continue`; the per-mode data selector
      `mode_freqs = …`; the if/elif chain as a dispatch table (test tree, the assignment targets `<array>[<:|var>, …]` in order, the
      function of this module called, its positional and keyword arguments); the returned names.
  module
      imports (local name -> origin); module-level assignments; other module-level statements; every `def`/`lambda` with its
      qualified name (duplicates visible) next to the list of what was translated.
A statement outside these grammars raises TieBroken naming the function.
"""
import ast
import copy
import os
import warnings

import gen_tables as T

REL = "cij/core/mode_gamma.py"
SIMPLE = ("interpolate_mode_spline", "interpolate_mode_lagrange", "interpolate_mode_krogh", "interpolate_mode_ppoly",
          "lstsq_polyfit", "interpolate_mode_lsq_poly")
LOOP = "interpolate_modes"
BUILTIN_ROOTS = ("numpy", "scipy")                    # module-level names that must stay bound to the packages
# dotted Python name -> constructor of Cij.ModeGammaGlue.Lib (the Lean side proves `Lib.pyName` inverts this table: `libTable`)
LIB = {"numpy.log": "npLog", "numpy.exp": "npExp", "numpy.flip": "npFlip", "numpy.ceil": "npCeil", "int": "pyInt", "range": "pyRange",
       "numpy.array": "npArray", "numpy.zeros": "npZeros", "numpy.vander": "npVander", "numpy.linalg.lstsq": "npLstsq",
       "numpy.poly1d": "npPoly1d", "numpy.polyval": "npPolyval", "numpy.polyder": "npPolyder",
       "scipy.interpolate.UnivariateSpline": "spUnivariateSpline", "scipy.interpolate.lagrange": "spLagrange",
       "scipy.interpolate.KroghInterpolator": "spKrogh", "scipy.interpolate.PchipInterpolator": "spPchip",
       "scipy.interpolate.Akima1DInterpolator": "spAkima", "scipy.interpolate.CubicHermiteSpline": "spHermite"}
# keyword names of library calls -> constructor of Cij.ModeGammaGlue.Kw (`kwTable`)
KW = {"axis": "axis", "k": "k", "nu": "nu", "extrapolate": "extrapolate", "m": "m", "der": "der"}


def lib(name):
    return "." + LIB[name] if name in LIB else f"(.other {q(name)})"


def kwn(name):
    return "." + KW[name] if name in KW else f"(.other {q(name)})"


# ------------------------------------------------------------------------------------------------ normalisation
def _nodoc(body):
    body = [s for s in body if s is not None]
    if body and isinstance(body[0], ast.Expr) and isinstance(body[0].value, ast.Constant) and isinstance(body[0].value.value, str):
        body = body[1:]
    return body or [ast.Pass()]


class _Strip(ast.NodeTransformer):
    """docstrings and annotations out; `x: T = v` -> `x = v`; a bare `x: T` disappears"""

    def _fn(self, n):
        self.generic_visit(n)
        n.returns = None
        a = n.args
        for x in a.posonlyargs + a.args + a.kwonlyargs + [y for y in (a.vararg, a.kwarg) if y is not None]:
            x.annotation = None
        n.body = _nodoc(n.body)
        return n

    visit_FunctionDef = _fn
    visit_AsyncFunctionDef = _fn

    def visit_ClassDef(self, n):
        self.generic_visit(n)
        n.body = _nodoc(n.body)
        return n

    def visit_AnnAssign(self, n):
        self.generic_visit(n)
        if n.value is None:
            return None
        return ast.copy_location(ast.Assign(targets=[n.target], value=n.value), n)


def src(n):
    return ast.unparse(n) if isinstance(n, ast.AST) else str(n)


def q(s):
    return T.lean_str(s)


def broken(where, what):
    raise T.TieBroken(f"{REL}: {where}: {what}")


def llist(xs):
    return "[" + ", ".join(xs) + "]"


def lopt(x):
    return "none" if x is None else f"(some {x})"


def dotted(n):
    """a.b.c -> (root name, 'a.b.c') for pure Name/Attribute chains, else None"""
    parts = []
    while isinstance(n, ast.Attribute):
        parts.append(n.attr); n = n.value
    if isinstance(n, ast.Name):
        parts.append(n.id)
        return n.id, ".".join(reversed(parts))
    return None


def qualnames(tree):
    """every def / lambda of the module with its qualified name, in source order"""
    out = []

    def walk(node, prefix):
        for ch in ast.iter_child_nodes(node):
            if isinstance(ch, (ast.FunctionDef, ast.AsyncFunctionDef)):
                out.append((ch.lineno, ch.col_offset, prefix + ch.name)); walk(ch, prefix + ch.name + ".")
            elif isinstance(ch, ast.ClassDef):
                out.append((ch.lineno, ch.col_offset, prefix + "class " + ch.name)); walk(ch, prefix + ch.name + ".")
            elif isinstance(ch, ast.Lambda):
                out.append((ch.lineno, ch.col_offset, prefix + "<lambda>")); walk(ch, prefix + "<lambda>.")
            else:
                walk(ch, prefix)
    walk(tree, "")
    return [n for _, _, n in sorted(out)]


# ------------------------------------------------------------------------------------------------ one function
class Fn:
    """binding sets and the renaming of one function"""

    def __init__(self, fn, module_funcs):
        self.fn, self.name, self.module_funcs = fn, fn.name, module_funcs
        a = fn.args
        if a.vararg or a.kwarg or a.kwonlyargs or a.posonlyargs:
            broken(fn.name, "signature with * / ** / keyword-only / positional-only parameters")
        self.params = [x.arg for x in a.args]
        self.defaults = [None] * (len(self.params) - len(a.defaults)) + list(a.defaults)
        comp_vars, stores = [], []
        for node in ast.walk(fn):
            if isinstance(node, (ast.FunctionDef, ast.AsyncFunctionDef, ast.Lambda, ast.ClassDef)) and node is not fn:
                broken(fn.name, f"nested definition `{src(node)[:60]}`")
            if isinstance(node, (ast.Global, ast.Nonlocal)):
                broken(fn.name, f"`{src(node)}`")
            if isinstance(node, ast.comprehension):
                for nm in ast.walk(node.target):
                    if isinstance(nm, ast.Name): comp_vars.append((nm.lineno, nm.col_offset, nm.id))
        comp_ids = {id_ for _, _, id_ in comp_vars}
        comp_nodes = set()
        for node in ast.walk(fn):
            if isinstance(node, ast.comprehension):
                for nm in ast.walk(node.target): comp_nodes.add(id(nm))
        for node in ast.walk(fn):
            if isinstance(node, ast.Name) and isinstance(node.ctx, (ast.Store, ast.Del)) and id(node) not in comp_nodes:
                stores.append((node.lineno, node.col_offset, node.id))
            if isinstance(node, ast.NamedExpr):
                broken(fn.name, f"assignment expression `{src(node)[:60]}`")
        self.locals = []
        for _, _, n in sorted(stores):
            if n not in self.locals and n not in self.params:
                self.locals.append(n)
        self.comp = []
        for _, _, n in sorted(comp_vars):
            if n not in self.comp: self.comp.append(n)
        clash = set(self.comp) & (set(self.locals) | set(self.params))
        if clash: broken(fn.name, f"comprehension variable(s) {sorted(clash)} also bound as local / parameter")
        self.ren = {n: f"l{i}" for i, n in enumerate(self.locals)}
        self.ren.update({n: f"c{i}" for i, n in enumerate(self.comp)})
        bad = [p for p in self.params if p in self.ren.values()]
        if bad: broken(fn.name, f"parameter named like a canonical local: {bad}")
        self.bound = set(self.params) | set(self.locals) | set(self.comp)

    def nm(self, n):
        return self.ren.get(n, n)

    # ---------------------------------------------------------------- expressions
    def args(self, call, where, user=False):
        """positional arguments, keyword arguments sorted by name; keyword names of calls into this module stay strings (they are
        parameter names), those of library / object calls become `Kw` constructors"""
        if any(isinstance(a, ast.Starred) for a in call.args) or any(k.arg is None for k in call.keywords):
            return None
        pos = llist([self.ex(a) for a in call.args])
        kws = llist([f"({q(k.arg) if user else kwn(k.arg)}, {self.ex(k.value)})" for k in sorted(call.keywords, key=lambda k: k.arg)])
        return pos, kws

    def ex(self, n):
        """-> Lean text of a Cij.ModeGammaGlue.Ex"""
        if isinstance(n, ast.Name):
            if n.id in self.bound: return f"(.var {q(self.nm(n.id))})"
            return f"(.glob {lib(n.id)})"
        if isinstance(n, ast.Constant):
            v = n.value
            if isinstance(v, bool): return f"(.bool {'true' if v else 'false'})"
            if isinstance(v, int) and v >= 0: return f"(.int {v})"
            if isinstance(v, str): return f"(.str {q(v)})"
            if v is None: return ".pyNone"
            return f"(.other {q(src(n))})"
        if isinstance(n, ast.UnaryOp) and isinstance(n.op, ast.USub):
            return f"(.neg {self.ex(n.operand)})"
        if isinstance(n, ast.BinOp) and isinstance(n.op, ast.Div):
            return f"(.div {self.ex(n.left)} {self.ex(n.right)})"
        if isinstance(n, ast.Compare) and len(n.ops) == 1:
            l, r = self.ex(n.left), self.ex(n.comparators[0])
            if isinstance(n.ops[0], ast.Eq): return f"(.eq {l} {r})"
            if isinstance(n.ops[0], ast.In): return f"(.isin {l} {r})"
            return f"(.other {q(src(n))})"
        if isinstance(n, ast.BoolOp) and isinstance(n.op, ast.And):
            r = self.ex(n.values[-1])
            for v in reversed(n.values[:-1]):
                r = f"(.and {self.ex(v)} {r})"
            return r
        if isinstance(n, ast.Tuple) and isinstance(n.ctx, ast.Load) and not any(isinstance(e, ast.Starred) for e in n.elts):
            return f"(.tuple {llist([self.ex(e) for e in n.elts])})"
        if isinstance(n, ast.List) and isinstance(n.ctx, ast.Load) and n.elts \
                and all(isinstance(e, ast.Constant) and isinstance(e.value, str) for e in n.elts):
            return f"(.strs {llist([q(e.value) for e in n.elts])})"
        if isinstance(n, ast.ListComp) and len(n.generators) == 1:
            g = n.generators[0]
            if isinstance(g.target, ast.Name) and not g.ifs and not g.is_async:
                return f"(.comp {self.ex(n.elt)} {q(self.nm(g.target.id))} {self.ex(g.iter)})"
            return f"(.other {q(src(n))})"
        if isinstance(n, ast.Subscript) and isinstance(n.ctx, ast.Load):
            s = n.slice
            if isinstance(s, ast.Slice):
                if s.lower is None and s.upper is None and s.step is not None:
                    return f"(.sliceStep {self.ex(n.value)} {self.ex(s.step)})"
                return f"(.other {q(src(n))})"
            if isinstance(s, ast.Tuple): return f"(.other {q(src(n))})"
            return f"(.index {self.ex(n.value)} {self.ex(s)})"
        if isinstance(n, ast.Attribute) and isinstance(n.ctx, ast.Load):
            d = dotted(n)
            if d is not None and d[0] not in self.bound:
                return f"(.glob {lib(d[1])})"
            return f"(.attr {self.ex(n.value)} {q(n.attr)})"
        if isinstance(n, ast.Call):
            f = n.func
            is_user = isinstance(f, ast.Name) and f.id not in self.bound and f.id in self.module_funcs
            a = self.args(n, self.name, user=is_user)
            if a is None: return f"(.other {q(src(n))})"
            pos, kws = a
            if isinstance(f, ast.Name):
                if f.id in self.bound: return f"(.callv {q(self.nm(f.id))} {pos} {kws})"
                if is_user: return f"(.user {q(f.id)} {pos} {kws})"
                return f"(.call {lib(f.id)} {pos} {kws})"
            if isinstance(f, ast.Attribute):
                d = dotted(f)
                if d is not None and d[0] not in self.bound:
                    return f"(.call {lib(d[1])} {pos} {kws})"
                return f"(.meth {self.ex(f.value)} {q(f.attr)} {pos} {kws})"
            return f"(.other {q(src(n))})"
        return f"(.other {q(src(n))})"

    # ---------------------------------------------------------------- statements of the straight-line functions
    def target_name(self, t, st):
        if not isinstance(t, ast.Name): broken(self.name, f"assignment target outside grammar: `{src(st)[:100]}`")
        return q(self.nm(t.id))

    def stmt(self, st):
        if isinstance(st, ast.Assign) and len(st.targets) == 1:
            t = st.targets[0]
            if isinstance(t, ast.Name):
                return f".assign {q(self.nm(t.id))} {self.ex(st.value)}"
            if isinstance(t, (ast.Tuple, ast.List)) and all(isinstance(e, ast.Name) for e in t.elts):
                return f".unpack {llist([q(self.nm(e.id)) for e in t.elts])} {self.ex(st.value)}"
            broken(self.name, f"assignment target outside grammar: `{src(st)[:100]}`")
        if isinstance(st, ast.AugAssign) and isinstance(st.op, ast.Add) and isinstance(st.target, ast.Name):
            return f".augAdd {q(self.nm(st.target.id))} {self.ex(st.value)}"
        if isinstance(st, ast.Return) and st.value is not None:
            return f".ret {self.ex(st.value)}"
        if isinstance(st, ast.If):
            branches, node = [], st
            while True:
                if not (len(node.body) == 1 and isinstance(node.body[0], ast.Assign) and len(node.body[0].targets) == 1
                        and isinstance(node.body[0].targets[0], ast.Name)):
                    broken(self.name, f"branch of `if {src(node.test)[:60]}` is not a single `<name> = <expr>`")
                b = node.body[0]
                branches.append(f"({self.ex(node.test)}, {q(self.nm(b.targets[0].id))}, {self.ex(b.value)})")
                if len(node.orelse) == 1 and isinstance(node.orelse[0], ast.If): node = node.orelse[0]
                elif not node.orelse: break
                else: broken(self.name, f"`if {src(st.test)[:60]}` chain has an else branch")
            return ".ifAssign " + llist(branches)
        if isinstance(st, ast.Pass):
            return None
        broken(self.name, f"statement outside grammar: `{src(st)[:100]}`")

    def default(self, d):
        return "none" if d is None else f"(some {self.ex(d)})"

    def lparams(self):
        return llist([f"({q(p)}, {self.default(d)})" for p, d in zip(self.params, self.defaults)])

    def spec(self):
        if self.fn.decorator_list: broken(self.name, f"decorated: {[src(d) for d in self.fn.decorator_list]}")
        stmts = [s for s in (self.stmt(st) for st in self.fn.body) if s is not None]
        if not stmts or not stmts[-1].startswith(".ret "):
            broken(self.name, "last statement is not `return <expr>`")
        if any(s.startswith(".ret ") for s in stmts[:-1]):
            broken(self.name, "a `return` before the last statement")
        return (f"{{ name := {q(self.name)},\n      params := {self.lparams()},\n      body :=\n        ["
                + ",\n         ".join(stmts) + "] }")

    # ---------------------------------------------------------------- interpolate_modes
    def loop_spec(self):
        W = self.name
        if self.fn.decorator_list: broken(W, f"decorated: {[src(d) for d in self.fn.decorator_list]}")
        body = [st for st in self.fn.body if not isinstance(st, ast.Pass)]
        prelude, zeros, volumes = [], [], None
        i = 0
        while i < len(body) and isinstance(body[i], ast.Assign):
            st = body[i]
            if len(st.targets) != 1 or not isinstance(st.targets[0], ast.Name):
                broken(W, f"assignment target outside grammar: `{src(st)[:100]}`")
            t, v = self.nm(st.targets[0].id), st.value
            is_zeros = isinstance(v, ast.Call) and dotted(v.func) is not None and dotted(v.func)[1] == "numpy.zeros" \
                and dotted(v.func)[0] not in self.bound
            if is_zeros:
                if not (len(v.args) == 1 and not v.keywords and isinstance(v.args[0], ast.Tuple)
                        and not any(isinstance(e, ast.Starred) for e in v.args[0].elts)):
                    broken(W, f"`{src(st)[:100]}` is not `<name> = numpy.zeros((<e>, …))` (no dtype, no further argument)")
                if volumes is not None: broken(W, f"`{src(st)[:80]}` after the node-volume array")
                zeros.append(f"({q(t)}, {llist([self.ex(e) for e in v.args[0].elts])})")
            elif zeros:
                if volumes is not None: broken(W, f"more than one assignment between the zero arrays and the loop: `{src(st)[:80]}`")
                volumes = f"({q(t)}, {self.ex(v)})"
            else:
                prelude.append(f"({q(t)}, {self.ex(v)})")
            i += 1
        if volumes is None: broken(W, "expected `<volumes> = …` after the zero arrays")
        rest = body[i:]
        if len(rest) != 2 or not isinstance(rest[0], ast.For) or not isinstance(rest[1], ast.Return):
            broken(W, f"after the assignments expected one `for` nest and one `return`, found {[type(s).__name__ for s in rest]}")
        loops, node = [], rest[0]
        while True:
            if node.orelse or not isinstance(node.target, ast.Name):
                broken(W, f"loop `{src(node)[:60]}` has an else branch / a target that is not a name")
            loops.append(f"({q(self.nm(node.target.id))}, {self.ex(node.iter)})")
            inner = [s for s in node.body if not isinstance(s, ast.Pass)]
            if len(inner) == 1 and isinstance(inner[0], ast.For): node = inner[0]
            else: break
        if len(inner) != 3:
            broken(W, f"innermost loop body has {len(inner)} statements (expected `if …: continue`, `<series> = …`, the if/elif chain): "
                      + " | ".join(src(s)[:50].replace(chr(10), " ") for s in inner))
        s0, s1, s2 = inner
        if not (isinstance(s0, ast.If) and not s0.orelse and len(s0.body) == 1 and isinstance(s0.body[0], ast.Continue)):
            broken(W, f"`{src(s0)[:80]}` is not `if <test>: continue`")
        skip = self.ex(s0.test)
        if not (isinstance(s1, ast.Assign) and len(s1.targets) == 1 and isinstance(s1.targets[0], ast.Name)):
            broken(W, f"`{src(s1)[:80]}` is not `<series> = <expr>`")
        series = f"({q(self.nm(s1.targets[0].id))}, {self.ex(s1.value)})"
        if not isinstance(s2, ast.If): broken(W, f"`{src(s2)[:80]}` is not the if/elif dispatch chain")
        disp, node = [], s2
        while True:
            if len(node.body) != 1 or not isinstance(node.body[0], ast.Assign) or len(node.body[0].targets) != 1:
                broken(W, f"branch `{src(node.test)[:60]}` is not one assignment")
            a = node.body[0]
            tg = a.targets[0]
            if not isinstance(tg, (ast.Tuple, ast.List)): broken(W, f"branch `{src(node.test)[:60]}`: target is not a tuple of subscripts")
            targets = []
            for e in tg.elts:
                if not (isinstance(e, ast.Subscript) and isinstance(e.value, ast.Name)):
                    broken(W, f"branch `{src(node.test)[:60]}`: target `{src(e)}` is not `<array>[…]`")
                idx = e.slice.elts if isinstance(e.slice, ast.Tuple) else [e.slice]
                sel = []
                for x in idx:
                    if isinstance(x, ast.Slice) and x.lower is None and x.upper is None and x.step is None: sel.append(".all")
                    elif isinstance(x, ast.Name) and x.id in self.bound: sel.append(f"(.var {q(self.nm(x.id))})")
                    else: sel.append(f"(.other {q(src(x))})")
                targets.append(f"⟨{q(self.nm(e.value.id))}, {llist(sel)}⟩")
            c = a.value
            if not (isinstance(c, ast.Call) and isinstance(c.func, ast.Name) and c.func.id in self.module_funcs
                    and c.func.id not in self.bound):
                broken(W, f"branch `{src(node.test)[:60]}`: value `{src(c)[:60]}` is not a call of a function of this module")
            pk = self.args(c, W, user=True)
            if pk is None: broken(W, f"branch `{src(node.test)[:60]}`: * / ** in the call")
            disp.append(f"{{ test := {self.ex(node.test)},\n           targets := {llist(targets)},\n"
                        f"           callee := {q(c.func.id)}, args := {pk[0]},\n           kw := {pk[1]} }}")
            if len(node.orelse) == 1 and isinstance(node.orelse[0], ast.If): node = node.orelse[0]
            elif not node.orelse: break
            else: broken(W, "the dispatch chain has an else branch")
        rv = rest[1].value
        if not (isinstance(rv, ast.Tuple) and all(isinstance(e, ast.Name) for e in rv.elts)):
            broken(W, f"`{src(rest[1])[:80]}` is not `return <name>, <name>, …`")
        returns = llist([q(self.nm(e.id)) for e in rv.elts])
        return (f"  {{ name := {q(W)},\n    params := {self.lparams()},\n"
                f"    prelude := {llist(prelude)},\n"
                f"    zeros := {llist(zeros)},\n"
                f"    volumes := {volumes},\n"
                f"    loops := {llist(loops)},\n"
                f"    skip := {skip},\n"
                f"    series := {series},\n"
                f"    dispatch :=\n      [" + ",\n       ".join(disp) + "],\n"
                f"    returns := {returns} }}")


# ------------------------------------------------------------------------------------------------ the generator
def _parse():
    path = os.path.join(T.REPO, REL)
    with warnings.catch_warnings():
        warnings.simplefilter("ignore")
        raw = ast.parse(open(path).read())
    tree = _Strip().visit(copy.deepcopy(raw))
    ast.fix_missing_locations(tree)
    return path, tree


def gen_modegamma_glue():
    path, tree = _parse()
    imports, mod_assigns, mod_other, funcs = [], [], [], {}
    for st in tree.body:
        if isinstance(st, ast.Import):
            for a in st.names: imports.append((a.asname or a.name.split(".")[0], a.name))
        elif isinstance(st, ast.ImportFrom):
            for a in st.names: imports.append((a.asname or a.name, "." * st.level + (st.module or "") + "." + a.name))
        elif isinstance(st, ast.FunctionDef): funcs.setdefault(st.name, []).append(st)
        elif isinstance(st, ast.Assign):
            for t in st.targets:
                for nm in ast.walk(t):
                    if isinstance(nm, ast.Name): mod_assigns.append((nm.id, src(st.value)))
        elif isinstance(st, ast.Pass) or (isinstance(st, ast.Expr) and isinstance(st.value, ast.Constant)): pass
        else: mod_other.append(type(st).__name__ + ": " + src(st)[:80])
    for need in SIMPLE + (LOOP,):
        if need not in funcs: broken("module", f"function {need} not found")
    shadow = [n for n, _ in imports if n in funcs] + [n for n, _ in mod_assigns if n in funcs or n in BUILTIN_ROOTS]
    if shadow: broken("module", f"name(s) {sorted(set(shadow))} bound both as function and as import / module variable")
    module_funcs = set(funcs)
    L = []
    out = L.append
    out(f"-- GENERATED by tools/gens/modegamma_src.py from {REL} — do not edit")
    out("import CijModel.ModeGammaGlue")
    out("open Cij.ModeGammaGlue")
    out("namespace Generated.ModeGammaGlue\n")
    out("/-- imports: (local name, origin) -/")
    out("def imports : List (String × String) := " + llist([f"({q(a)}, {q(b)})" for a, b in imports]) + "\n")
    out("/-- module-level assignments (name, value as text); module-level statements other than import / def / assignment -/")
    out("def moduleAssigns : List (String × String) := " + llist([f"({q(a)}, {q(b)})" for a, b in mod_assigns]))
    out("def moduleOtherStatements : List String := " + llist([q(x) for x in mod_other]) + "\n")
    out("/-- the translator's tables: dotted Python name -> `Lib` constructor, keyword name -> `Kw` constructor -/")
    out("def libTable : List (String × Lib) := " + llist([f"({q(k)}, .{v})" for k, v in LIB.items()]))
    out("def kwTable : List (String × Kw) := " + llist([f"({q(k)}, .{v})" for k, v in KW.items()]) + "\n")
    handled = []
    specs = []
    for name in SIMPLE:
        if len(funcs[name]) != 1: broken(name, f"defined {len(funcs[name])} times")
        specs.append(Fn(funcs[name][0], module_funcs).spec())
        handled.append((name, f'.translated "fns"'))
    out("/-- the six straight-line functions, statement by statement (locals renamed `l0, l1, …` in order of first assignment;\n"
        "keyword arguments sorted by name) -/")
    out("def fns : List FnSpec :=\n  [" + ",\n   ".join(specs) + "]\n")
    if len(funcs[LOOP]) != 1: broken(LOOP, f"defined {len(funcs[LOOP])} times")
    out("/-- `interpolate_modes`: parameters; the assignments before the arrays; the zero arrays with their shapes; the node volumes;\n"
        "the loop nest; the test of `if …: continue`; the per-mode series; the dispatch chain (test, assignment targets in order,\n"
        "callee, arguments); the returned names -/")
    out("def loop : LoopSpec :=\n" + Fn(funcs[LOOP][0], module_funcs).loop_spec() + "\n")
    handled.append((LOOP, '.translated "loop"'))
    names = qualnames(tree)
    hs, rest = [], list(handled)
    for n in names:
        hit = next((h for h in rest if h[0] == n), None)
        if hit is not None:
            rest.remove(hit); hs.append(hit)
    hs += rest
    out("/-- every `def` / `lambda` / `class` of the file with its qualified name, in source order (a name listed twice = defined twice) -/")
    out("def definedFunctions : List String :=\n  [" + ",\n   ".join(q(n) for n in names) + "]\n")
    out("/-- what this translator turned into data, per function -/")
    out("def handled : List (String × Handled) :=\n  [" + ",\n   ".join(f"({q(n)}, {h})" for n, h in hs) + "]\n")
    out("end Generated.ModeGammaGlue\n")
    return {"ModeGammaGlue.lean": "\n".join(L)}, [path]


GENERATORS = {"gen_modegamma_glue": (gen_modegamma_glue, ["ModeGammaGlue.lean"])}
