"""Translator plug-in: the GLUE of `cij/core/calculator.py` -> lean/Generated/CalcGlueSpec.lean

(The formula bodies of the VRH / velocity properties are translated by gen_tables.gen_vrh_exprs, the pressure-base wiring by
gen_pressurebase_spec; this plug-in covers what is around them.)

Everything is read with `ast` from the working tree (never imported).  Docstrings and type annotations are stripped first, so
comments, blank lines, quoting, line breaks, docstrings and annotations never matter; where a statement is matched against a
template the names of LOCAL variables are holes (a renamed local does not matter either).

Extracted as DATA (consumed by theorems in CijProofs/Lemmas/CalcGlueSource.lean and Properties/C07.lean):
  * REGEX_CIJ: the literal, and its parts (own grammar: `^(a|b)_?([l-h]{m,n}|...)(x|y)?$`)
  * CijVolumeBaseInterface.__getattr__: match function, per branch (group(1) literal, group handed to c_, membership store,
    (test group, literal), store when the test holds / AttributeError, store otherwise)
  * Calculator.__init__: the sequence of calls / assignments; which class each interface attribute is; per method of Calculator
    the attributes of self it writes and reads; the attribute Calculator.__getattr__ delegates to
  * _calculate_compliances: shape, stores, loop sources, index expressions (loop variable + offset), skip comparison, label
    arguments, number of numpy.linalg.inv calls
  * _process_cij, _calculate_pressure_static, _interpolate_modes, _apply_elastic_constants_symmetry, modulus_keys, dims,
    write_output, volume_base / pressure_base: wiring as data
  * for every class: bases, class-level assignments with the kind of value, names defined (duplicates visible), dunder methods;
    module-level assignments with kinds; mutable default arguments; `global` / `nonlocal` statements; decorators
  * for every property/method of every class: decorator kind, properties of the same object it reads (source order) and the
    list of IN-PLACE operations on anything reachable from `self` without a copy (augmented assignment, subscript/attribute
    assignment on an alias, `out=` keyword, in-place methods) — for the property read graph of CijVolumeBaseInterface in the
    `(name, isLazy, reads)` format of Generated.LazyDeps
Compared as canonical text (normalised AST), TieBroken naming the method: `_load`, `Calculator.__getattr__`, and the trivial
accessors of CijVolumeBaseInterface (`__init__`, `v_array`, `t_array`, `modulus_adiabatic`, `modulus_isothermal`, `pressures`,
`write_table`, `write_variables`).
"""
import ast
import copy
import os
import re
import warnings

import gen_tables as T

REL = "cij/core/calculator.py"


# ------------------------------------------------------------------------------------------------ normalisation
class _Strip(ast.NodeTransformer):
    """docstrings and annotations out; `x: T = v` -> `x = v`; a bare `x: T` disappears"""

    def _fn(self, n):
        self.generic_visit(n)
        n.returns = None
        a = n.args
        for x in a.posonlyargs + a.args + a.kwonlyargs + [y for y in (a.vararg, a.kwarg) if y is not None]:
            x.annotation = None
        n.body = _nodoc(n.body)
        return n

    visit_FunctionDef = _fn
    visit_AsyncFunctionDef = _fn

    def visit_ClassDef(self, n):
        self.generic_visit(n)
        n.body = _nodoc(n.body)
        return n

    def visit_AnnAssign(self, n):
        self.generic_visit(n)
        if n.value is None:
            return None
        return ast.copy_location(ast.Assign(targets=[n.target], value=n.value), n)


def _nodoc(body):
    body = [s for s in body if s is not None]
    if body and isinstance(body[0], ast.Expr) and isinstance(body[0].value, ast.Constant) and isinstance(body[0].value.value, str):
        body = body[1:]
    return body or [ast.Pass()]


def local_names(fn):
    """names bound inside the function (not its arguments), in source order of their first binding"""
    args = {a.arg for a in fn.args.posonlyargs + fn.args.args + fn.args.kwonlyargs}
    for x in (fn.args.vararg, fn.args.kwarg):
        if x is not None: args.add(x.arg)
    declared = set()
    for n in ast.walk(fn):
        if isinstance(n, (ast.Global, ast.Nonlocal)): declared.update(n.names)
    seen = []
    stores = [n for n in ast.walk(fn) if isinstance(n, ast.Name) and isinstance(n.ctx, ast.Store)]
    stores.sort(key=lambda n: (n.lineno, n.col_offset))
    for n in stores:
        if n.id not in args and n.id not in declared and n.id not in seen:
            seen.append(n.id)
    for n in ast.walk(fn):
        if isinstance(n, ast.ExceptHandler) and n.name and n.name not in seen and n.name not in args:
            seen.append(n.name)
    return seen


def canon_text(fn):
    """ast.unparse of the stripped function with its locals renamed _l0, _l1, … in order of first binding"""
    fn = copy.deepcopy(fn)
    fn.decorator_list = []
    m = {n: f"_l{i}" for i, n in enumerate(local_names(fn))}
    for n in ast.walk(fn):
        if isinstance(n, ast.Name) and n.id in m: n.id = m[n.id]
        if isinstance(n, ast.ExceptHandler) and n.name in m: n.name = m[n.name]
    return ast.unparse(fn)


# ------------------------------------------------------------------------------------------------ templates with holes
def _is_hole(s):
    return isinstance(s, str) and len(s) > 4 and s.startswith("__") and s.endswith("__")


def unify(pat, node, env):
    """structural match of `node` against `pat`; identifiers `__X__` in the pattern are holes (expression, attribute name,
    keyword name or constant); a hole bound twice must be bound to the same thing"""
    if isinstance(pat, ast.Name) and _is_hole(pat.id):
        key = pat.id[2:-2]
        val = ast.unparse(node) if isinstance(node, ast.AST) else repr(node)      # the same hole twice: the same source text
        if key in env:
            return env[key][0] == val
        env[key] = (val, node)
        return True
    if isinstance(pat, ast.expr_context):
        return isinstance(node, ast.expr_context)
    if type(pat) is not type(node):
        return False
    if isinstance(pat, ast.AST):
        for f in pat._fields:
            a, b = getattr(pat, f, None), getattr(node, f, None)
            if f in ("attr", "arg", "id", "name") and _is_hole(a):
                key = a[2:-2]
                if key in env:
                    if env[key][0] != repr(b): return False
                else:
                    env[key] = (repr(b), b)
                continue
            if f in ("type_comment", "kind"): continue
            if not unify(a, b, env): return False
        return True
    if isinstance(pat, list):
        return len(pat) == len(node) and all(unify(a, b, env) for a, b in zip(pat, node))
    return pat == node


def match_stmt(template, node, what):
    """match one statement against a template (source with holes); returns {hole: value} or raises TieBroken"""
    pat = ast.parse(template).body[0]
    env = {}
    if not unify(pat, node, env):
        raise T.TieBroken(f"{what}: statement outside grammar: `{ast.unparse(node)[:110]}` (expected the shape `{template}`)")
    return {k: v[1] for k, v in env.items()}


def try_stmt(template, node):
    pat = ast.parse(template).body[0]
    env = {}
    return {k: v[1] for k, v in env.items()} if unify(pat, node, env) else None


def src(n):
    return ast.unparse(n) if isinstance(n, ast.AST) else str(n)


def want_name(n, what):
    if not isinstance(n, ast.Name): raise T.TieBroken(f"{what}: `{src(n)}` is not a plain local name")
    return n.id


def want_int(n, what):
    if isinstance(n, ast.Constant) and isinstance(n.value, int) and not isinstance(n.value, bool): return n.value
    if isinstance(n, ast.UnaryOp) and isinstance(n.op, ast.USub) and isinstance(n.operand, ast.Constant) and isinstance(n.operand.value, int):
        return -n.operand.value
    raise T.TieBroken(f"{what}: `{src(n)}` is not an integer literal")


def want_str(n, what):
    if isinstance(n, ast.Constant) and isinstance(n.value, str): return n.value
    raise T.TieBroken(f"{what}: `{src(n)}` is not a string literal")


def affine(n, vars_, what):
    """`v`, `v + k`, `v - k`, `k + v` for a loop variable v -> (position of v, offset)"""
    if isinstance(n, ast.Name) and n.id in vars_: return (vars_.index(n.id), 0)
    if isinstance(n, ast.BinOp) and isinstance(n.op, (ast.Add, ast.Sub)):
        if isinstance(n.left, ast.Name) and n.left.id in vars_:
            k = want_int(n.right, what)
            return (vars_.index(n.left.id), k if isinstance(n.op, ast.Add) else -k)
        if isinstance(n.op, ast.Add) and isinstance(n.right, ast.Name) and n.right.id in vars_:
            return (vars_.index(n.right.id), want_int(n.left, what))
    raise T.TieBroken(f"{what}: index expression `{src(n)}` is not <loop variable> ± <integer>")


def config_path(n, what):
    """self.config['a']['b']… -> ['a', 'b', …]"""
    path = []
    while isinstance(n, ast.Subscript):
        path.append(want_str(n.slice, what)); n = n.value
    if src(n) != "self.config": raise T.TieBroken(f"{what}: `{src(n)}` is not a path below self.config")
    return path[::-1]


# ------------------------------------------------------------------------------------------------ Lean literals
def q(s): return T.lean_str(s)
def lchar(c):
    if c == "'": return "'\\''"
    if c == "\\": return "'\\\\'"
    if c == "\n": return "'\\n'"
    return f"'{c}'"
def lstrs(xs): return "[" + ", ".join(q(x) for x in xs) + "]"
def lint(k): return f"({k})" if k < 0 else str(k)
def laff(a): return f"⟨{a[0]}, {lint(a[1])}⟩"
def lopt(x): return "none" if x is None else f"(some {q(x)})"


# ------------------------------------------------------------------------------------------------ REGEX_CIJ
_RX = re.compile(r"(\^?)\(([A-Za-z](?:\|[A-Za-z])*)\)(.)(\??)\((\[.-.\]\{\d+(?:,\d+)?\}(?:\|\[.-.\]\{\d+(?:,\d+)?\})*)\)\(([A-Za-z](?:\|[A-Za-z])*)\)(\??)(\$?)")


def parse_regex(lit):
    m = _RX.fullmatch(lit)
    if not m: raise T.TieBroken(f"REGEX_CIJ {lit!r} is outside the grammar ^(a|b)_?([l-h]{{m,n}}|…)(x|y)?$")
    a0, pre, sep, sepq, alts, suf, sufq, a1 = m.groups()
    if sep in r"\.^$*+?{}[]|()": raise T.TieBroken(f"REGEX_CIJ: separator {sep!r} is a metacharacter")
    out = []
    for a in alts.split("|"):
        mm = re.fullmatch(r"\[(.)-(.)\]\{(\d+)(?:,(\d+))?\}", a)
        lo, hi, mn, mx = mm.group(1), mm.group(2), int(mm.group(3)), int(mm.group(4) if mm.group(4) is not None else mm.group(3))
        out.append((lo, hi, mn, mx))
    return {"start": a0 == "^", "end": a1 == "$", "prefixes": pre.split("|"), "sep": sep, "sep_opt": sepq == "?",
            "alts": out, "suffixes": suf.split("|"), "suf_opt": sufq == "?"}


# ------------------------------------------------------------------------------------------------ facts about every function
INPLACE_METHODS = {"sort", "fill", "resize", "put", "itemset", "setfield", "partition", "byteswap", "setflags", "append", "extend",
                   "insert", "pop", "popitem", "remove", "clear", "update", "setdefault", "reverse", "add", "discard",
                   "__iadd__", "__isub__", "__imul__", "__itruediv__", "__setitem__", "__delitem__", "__setattr__", "__delattr__"}
INPLACE_FUNCS = {"numpy.copyto", "numpy.put", "numpy.place", "numpy.putmask", "numpy.fill_diagonal", "numpy.put_along_axis",
                 "setattr", "delattr", "object.__setattr__"}
VIEW_METHODS = {"view", "reshape", "ravel", "squeeze", "transpose", "swapaxes", "diagonal", "get", "setdefault", "items", "values", "keys"}
VIEW_FUNCS = {"numpy.asarray", "numpy.asanyarray", "numpy.ravel", "numpy.reshape", "numpy.squeeze", "numpy.transpose", "numpy.atleast_1d",
              "numpy.atleast_2d", "numpy.broadcast_to", "numpy.moveaxis", "numpy.swapaxes", "getattr", "numpy.array"}


def _root_aliased(n, aliases):
    """is the expression `n` (possibly) THE SAME OBJECT / a view of something reachable from self or from an alias?"""
    if isinstance(n, ast.Name): return n.id == "self" or n.id in aliases
    if isinstance(n, (ast.Attribute, ast.Subscript, ast.Starred)): return _root_aliased(n.value, aliases)
    if isinstance(n, ast.Call):
        f = src(n.func)
        if isinstance(n.func, ast.Attribute) and n.func.attr in VIEW_METHODS: return _root_aliased(n.func.value, aliases)
        if f in VIEW_FUNCS and n.args: return _root_aliased(n.args[0], aliases)
        return False
    if isinstance(n, ast.IfExp): return _root_aliased(n.body, aliases) or _root_aliased(n.orelse, aliases)
    if isinstance(n, (ast.Tuple, ast.List)): return any(_root_aliased(e, aliases) for e in n.elts)
    if isinstance(n, ast.NamedExpr): return _root_aliased(n.value, aliases)
    return False


def inplace_ops(fn, allow_self_attr_assign):
    """list of in-place operations on state reachable from `self`.  `self.x = …` (rebinding an attribute) is reported unless
    `allow_self_attr_assign` (ordinary methods build the object that way; a property body must not)"""
    aliases, ops = set(), []
    body = list(fn.body)
    changed = True
    while changed:                      # aliases to a fixed point (order of statements does not matter: conservative)
        changed = False
        for n in ast.walk(ast.Module(body=body, type_ignores=[])):
            tv = []
            if isinstance(n, ast.Assign): tv = [(t, n.value) for t in n.targets]
            elif isinstance(n, ast.NamedExpr): tv = [(n.target, n.value)]
            elif isinstance(n, (ast.For, ast.comprehension)): tv = [(n.target, n.iter)]
            elif isinstance(n, ast.withitem) and n.optional_vars is not None: tv = [(n.optional_vars, n.context_expr)]
            for t, v in tv:
                if not _root_aliased(v, aliases): continue
                for nm in ast.walk(t):
                    if isinstance(nm, ast.Name) and isinstance(nm.ctx, ast.Store) and nm.id not in aliases:
                        aliases.add(nm.id); changed = True
    for n in ast.walk(ast.Module(body=body, type_ignores=[])):
        if isinstance(n, ast.AugAssign) and _root_aliased(n.target, aliases):
            ops.append(f"augmented assignment `{src(n)}`")
        elif isinstance(n, ast.Assign):
            for t in n.targets:
                for e in (t.elts if isinstance(t, (ast.Tuple, ast.List)) else [t]):
                    if isinstance(e, ast.Subscript) and _root_aliased(e.value, aliases):
                        ops.append(f"item assignment `{src(n)}`")
                    elif isinstance(e, ast.Attribute) and _root_aliased(e.value, aliases):
                        plain = isinstance(e.value, ast.Name) and e.value.id == "self"
                        if not (plain and allow_self_attr_assign):
                            ops.append(f"attribute assignment `{src(n)}`")
        elif isinstance(n, ast.Delete):
            for t in n.targets:
                if isinstance(t, (ast.Subscript, ast.Attribute)) and _root_aliased(t.value, aliases):
                    ops.append(f"del `{src(n)}`")
        elif isinstance(n, ast.Call):
            f = src(n.func)
            for k in n.keywords:
                if k.arg == "out" and _root_aliased(k.value, aliases): ops.append(f"out= `{src(n)[:80]}`")
            if isinstance(n.func, ast.Attribute) and n.func.attr in INPLACE_METHODS and _root_aliased(n.func.value, aliases):
                ops.append(f"in-place method `{src(n)[:80]}`")
            if (f in INPLACE_FUNCS or f.endswith(".at")) and n.args and _root_aliased(n.args[0], aliases):
                ops.append(f"in-place function `{src(n)[:80]}`")
    return ops


def value_kind(v):
    if isinstance(v, ast.Constant): return "const"
    if isinstance(v, ast.UnaryOp) and isinstance(v.operand, ast.Constant): return "const"
    if isinstance(v, ast.JoinedStr): return "const"
    if isinstance(v, ast.Tuple): return "const" if all(value_kind(e) == "const" for e in v.elts) else "tuple-of-mutable"
    if isinstance(v, (ast.List, ast.ListComp)): return "list"
    if isinstance(v, (ast.Dict, ast.DictComp)): return "dict"
    if isinstance(v, (ast.Set, ast.SetComp)): return "set"
    if isinstance(v, ast.Call): return "call:" + src(v.func)
    if isinstance(v, ast.Lambda): return "function"
    if isinstance(v, (ast.Name, ast.Attribute)): return "name:" + src(v)
    return "expr"


def decorator_kind(fn):
    ds = [src(d) for d in fn.decorator_list]
    if not ds: return "method"
    if ds == ["property"]: return "property"
    if ds == ["LazyProperty"]: return "LazyProperty"
    return "other:" + ",".join(ds)


# ------------------------------------------------------------------------------------------------ the generator
def gen_calc_glue():
    path = os.path.join(T.REPO, REL)
    with warnings.catch_warnings():
        warnings.simplefilter("ignore")           # invalid escape sequences in docstrings of the source
        raw = ast.parse(open(path).read())
    tree = _Strip().visit(copy.deepcopy(raw))
    ast.fix_missing_locations(tree)
    classes = {c.name: c for c in tree.body if isinstance(c, ast.ClassDef)}
    for need in ("Calculator", "CijVolumeBaseInterface", "CijPressureBaseModulusInterface", "CijPressureBaseInterface"):
        if need not in classes: raise T.TieBroken(f"class {need} not found in {REL}")
    def fns_of(cname):
        out = {}
        for f in classes[cname].body:
            if isinstance(f, (ast.FunctionDef, ast.AsyncFunctionDef)): out[f.name] = f     # a later def replaces an earlier one, as in Python
        return out
    calc, vb = fns_of("Calculator"), fns_of("CijVolumeBaseInterface")
    def need_fn(tab, cname, name):
        if name not in tab: raise T.TieBroken(f"{cname}.{name} not found")
        return tab[name]
    L = []
    out = L.append
    out("-- GENERATED by tools/gens/calc_src.py from cij/core/calculator.py — do not edit")
    out("import CijModel.CalcGlue")
    out("open Cij.CalcGlue")
    out("namespace Generated.CalcGlue\n")

    # ---------------------------------------------------------------- REGEX_CIJ
    rx_lit = None
    for st in tree.body:
        if isinstance(st, ast.Assign) and any(isinstance(t, ast.Name) and t.id == "REGEX_CIJ" for t in st.targets):
            rx_lit = want_str(st.value, "REGEX_CIJ")
    if rx_lit is None: raise T.TieBroken("module-level REGEX_CIJ = '<literal>' not found")
    rx = parse_regex(rx_lit)
    out("/-- `REGEX_CIJ` as written -/")
    out(f"def regexLiteral : String := {q(rx_lit)}\n")
    out("/-- its parts: `^`? ( prefix alternatives ) separator `?`? ( [lo-hi]{min,max} alternatives ) ( suffix alternatives ) `?`? `$`? -/")
    out("def regexParts : RegexParts :=")
    out(f"  {{ anchoredStart := {str(rx['start']).lower()}, anchoredEnd := {str(rx['end']).lower()},")
    out(f"    prefixes := [{', '.join(lchar(c) for c in rx['prefixes'])}], sep := {lchar(rx['sep'])}, sepOptional := {str(rx['sep_opt']).lower()},")
    out("    alts := [" + ", ".join(f"⟨{lchar(lo)}, {lchar(hi)}, {mn}, {mx}⟩" for lo, hi, mn, mx in rx["alts"]) + "],")
    out(f"    suffixes := [{', '.join(lchar(c) for c in rx['suffixes'])}], suffixOptional := {str(rx['suf_opt']).lower()} }}\n")

    # ---------------------------------------------------------------- CijVolumeBaseInterface.__getattr__
    ga = need_fn(vb, "CijVolumeBaseInterface", "__getattr__")
    W = "CijVolumeBaseInterface.__getattr__"
    if [a.arg for a in ga.args.args] != ["self", "name"] or ga.args.vararg or ga.args.kwarg or ga.args.defaults:
        raise T.TieBroken(f"{W}: signature is not (self, name)")
    body = ga.body
    if len(body) != 3: raise T.TieBroken(f"{W}: body is not `res = re.<fn>(REGEX_CIJ, name); if res: …; raise AttributeError(name)`")
    e = match_stmt("__RES__ = re.__FN__(REGEX_CIJ, name)", body[0], W)
    res, matchfn = want_name(e["RES"], W), e["FN"]
    if matchfn not in ("search", "match", "fullmatch"): raise T.TieBroken(f"{W}: re.{matchfn} is not search/match/fullmatch")
    match_stmt("raise AttributeError(name)", body[2], W)
    if not (isinstance(body[1], ast.If) and src(body[1].test) == res and not body[1].orelse):
        raise T.TieBroken(f"{W}: second statement is not `if {res}:` without else")
    def group_of(n):
        e2 = {}
        if not unify(ast.parse(f"{res}.group(__G__)").body[0].value, n, e2): raise T.TieBroken(f"{W}: `{src(n)}` is not {res}.group(<n>)")
        return want_int(e2["G"][1], W)
    def store_of(n, key):
        """self.calculator.<store>[key]"""
        e2 = {}
        if not unify(ast.parse(f"self.calculator.__S__[{key}]").body[0].value, n, e2): raise T.TieBroken(f"{W}: `{src(n)}` is not self.calculator.<store>[{key}]")
        return e2["S"][1]
    branches = []
    for br in body[1].body:
        if not (isinstance(br, ast.If) and not br.orelse and isinstance(br.test, ast.Compare) and len(br.test.ops) == 1
                and isinstance(br.test.ops[0], ast.Eq)):
            raise T.TieBroken(f"{W}: branch `{src(br)[:60]}` is not `if {res}.group(n) == '<literal>':`")
        g1 = group_of(br.test.left); lit1 = want_str(br.test.comparators[0], W)
        b = br.body
        if len(b) not in (3, 4): raise T.TieBroken(f"{W}: branch {lit1!r} has {len(b)} statements (expected key / membership / suffix test [/ return])")
        e = match_stmt(f"__KEY__ = c_({res}.group(__G__))", b[0], W)
        key, g2 = want_name(e["KEY"], W), want_int(e["G"], W)
        if not (isinstance(b[1], ast.If) and not b[1].orelse and len(b[1].body) == 1 and try_stmt("raise AttributeError()", b[1].body[0]) is not None):
            raise T.TieBroken(f"{W}: branch {lit1!r}: second statement is not `if {key} not in …: raise AttributeError()`")
        t = b[1].test
        if not (isinstance(t, ast.Compare) and len(t.ops) == 1 and isinstance(t.ops[0], ast.NotIn) and src(t.left) == key):
            raise T.TieBroken(f"{W}: branch {lit1!r}: membership test `{src(t)}`")
        mem = src(t.comparators[0])
        mm = re.fullmatch(r"self\.calculator\.(\w+)(\.keys\(\))?", mem)
        if not mm: raise T.TieBroken(f"{W}: branch {lit1!r}: membership in `{mem}`")
        member = mm.group(1)
        it = b[2]
        if not (isinstance(it, ast.If) and isinstance(it.test, ast.Compare) and len(it.test.ops) == 1 and isinstance(it.test.ops[0], ast.Eq) and len(it.body) == 1):
            raise T.TieBroken(f"{W}: branch {lit1!r}: third statement is not `if {res}.group(n) == '<literal>': <return | raise>`")
        g3 = group_of(it.test.left); lit3 = want_str(it.test.comparators[0], W)
        th = it.body[0]
        if isinstance(th, ast.Return) and th.value is not None: then_store = store_of(th.value, key)
        elif try_stmt("raise AttributeError()", th) is not None: then_store = None
        else: raise T.TieBroken(f"{W}: branch {lit1!r}: `{src(th)[:60]}` is neither a return of a store entry nor raise AttributeError()")
        if it.orelse and len(b) == 3 and len(it.orelse) == 1 and isinstance(it.orelse[0], ast.Return): el = it.orelse[0]
        elif not it.orelse and len(b) == 4 and isinstance(b[3], ast.Return): el = b[3]
        else: raise T.TieBroken(f"{W}: branch {lit1!r}: no single `return self.calculator.<store>[{key}]` for the other case")
        else_store = store_of(el.value, key)
        if g1 != 1: raise T.TieBroken(f"{W}: branch {lit1!r} dispatches on group({g1}), not group(1)")
        branches.append((lit1, g2, member, g3, lit3, then_store, else_store))
    out("/-- `CijVolumeBaseInterface.__getattr__`: `res = re.<fn>(REGEX_CIJ, name)` -/")
    out(f"def getattrMatchFn : String := {q(matchfn)}\n")
    out("/-- per `if res.group(1) == <lit>:` branch: the literal, the group handed to `c_`, the attribute of `self.calculator` whose\n"
        "membership is required (else AttributeError), the inner test `res.group(<g>) == <lit>`, the store served when it holds\n"
        "(`none` = `raise AttributeError()`), the store served otherwise; after the branches: `raise AttributeError(name)` -/")
    out("def getattrBranches : List GetattrBranch :=\n  [" + ",\n   ".join(
        f"⟨{q(l1)}, {g2}, {q(mem)}, {g3}, {q(l3)}, {lopt(ts)}, {q(es)}⟩" for l1, g2, mem, g3, l3, ts, es in branches) + "]\n")

    # ---------------------------------------------------------------- Calculator.__init__
    ini = need_fn(calc, "Calculator", "__init__")
    W = "Calculator.__init__"
    steps, ctors = [], []
    for st in ini.body:
        if (isinstance(st, ast.Expr) and isinstance(st.value, ast.Call) and isinstance(st.value.func, ast.Attribute)
                and src(st.value.func.value) == "self" and not st.value.keywords):
            steps.append(("call", st.value.func.attr, [src(a) for a in st.value.args])); continue
        e = try_stmt("self.__A__ = self.__B__.__C__", st)
        if e is not None:
            steps.append(("set", e["A"], [e["B"]])); continue
        e = try_stmt("self.__A__ = __CLS__(self)", st)
        if e is not None and isinstance(e["CLS"], ast.Name):
            steps.append(("set", e["A"], [])); ctors.append((e["A"], e["CLS"].id)); continue
        raise T.TieBroken(f"{W}: statement outside grammar: `{src(st)[:100]}`")
    out("/-- `Calculator.__init__`, statement by statement: (\"call\", method, arguments) for `self.<method>(…)`;\n"
        "(\"set\", attribute, attributes of self read) for `self.<attribute> = …` -/")
    out("def initSteps : List (String × String × List String) :=\n  [" + ",\n   ".join(f"({q(a)}, {q(b)}, {lstrs(c)})" for a, b, c in steps) + "]\n")
    out("/-- `self.<attribute> = <Class>(self)` in `__init__` -/")
    out("def initInterfaces : List (String × String) := [" + ", ".join(f"({q(a)}, {q(b)})" for a, b in ctors) + "]\n")
    # attributes of self written / read by every method of Calculator
    rw = []
    for name, f in calc.items():
        writes, reads = [], []
        for n in ast.walk(f):
            if isinstance(n, ast.Attribute) and isinstance(n.value, ast.Name) and n.value.id == "self":
                (writes if isinstance(n.ctx, ast.Store) else reads).append(n.attr)
        dd = lambda xs: list(dict.fromkeys(xs))
        rw.append((name, decorator_kind(f), dd(writes), dd(reads)))
    out("/-- every method of `Calculator`: (name, decorator kind, attributes of self it assigns, attributes of self it reads) -/")
    out("def calcMethods : List (String × String × List String × List String) :=\n  [" + ",\n   ".join(
        f"({q(n)}, {q(k)}, {lstrs(w)}, {lstrs(r)})" for n, k, w, r in rw) + "]\n")
    cga = need_fn(calc, "Calculator", "__getattr__")
    want = "def __getattr__(self, prop):\n    return getattr(self.qha_calculator, prop)"
    if canon_text(cga) != want: raise T.TieBroken(f"Calculator.__getattr__ changed: {canon_text(cga)!r}")
    out("/-- `Calculator.__getattr__(self, prop)`: `return getattr(self.<this>, prop)` -/")
    out(f"def calcDelegate : String := {q('qha_calculator')}\n")

    # ---------------------------------------------------------------- _calculate_compliances
    cc = need_fn(calc, "Calculator", "_calculate_compliances")
    W = "Calculator._calculate_compliances"
    b = cc.body
    if len(b) != 5: raise T.TieBroken(f"{W}: {len(b)} top-level statements (expected zeros / fresh dict / assembly loop / inv / labelling loop)")
    z = d = None
    for s in b[:2]:
        e = try_stmt("__EM__ = numpy.zeros((*self.__DIMS__, __A__, __B__))", s)
        if e is not None: z = e; continue
        e = try_stmt("self.__D__ = {}", s)
        if e is not None: d = e; continue
        raise T.TieBroken(f"{W}: statement outside grammar: `{src(s)[:100]}`")
    if z is None or d is None: raise T.TieBroken(f"{W}: needs one `numpy.zeros((*self.dims, 6, 6))` and one `self._compliances = {{}}`")
    em, shape = want_name(z["EM"], W), (want_int(z["A"], W), want_int(z["B"], W))
    lp = b[2]
    e = try_stmt("for __KEY__ in self.__KEYS__:\n    for __I__, __J__ in __GEN__:\n        __EMX__[:, :, __R__, __C__] = self.__STORE__[__KEYX__]", lp)
    if e is None: raise T.TieBroken(f"{W}: assembly loop outside grammar: `{src(lp)[:160]}`")
    key, vi, vj = want_name(e["KEY"], W), want_name(e["I"], W), want_name(e["J"], W)
    if src(e["EMX"]) != em or src(e["KEYX"]) != key: raise T.TieBroken(f"{W}: the assembly loop writes `{src(e['EMX'])}` / reads the store at `{src(e['KEYX'])}`")
    gen = e["GEN"]
    e2 = {}
    dedup = True
    if not unify(ast.parse(f"set(itertools.permutations({key}.__ATTR__, __R__))").body[0].value, gen, e2):
        e2 = {}; dedup = False
        if not unify(ast.parse(f"itertools.permutations({key}.__ATTR__, __R__)").body[0].value, gen, e2):
            raise T.TieBroken(f"{W}: index pairs come from `{src(gen)}` (expected [set(]itertools.permutations(key.voigt, 2)[)])")
    key_attr, perm_r = e2["ATTR"][1], want_int(e2["R"][1], W)
    wr, wc = affine(e["R"], [vi, vj], W), affine(e["C"], [vi, vj], W)
    asm = (e["KEYS"], e["STORE"], key_attr, perm_r, dedup, wr, wc)
    e = try_stmt(f"__CP__ = numpy.linalg.inv({em})", b[3])
    if e is None: raise T.TieBroken(f"{W}: `{src(b[3])[:100]}` is not `<compliances> = numpy.linalg.inv({em})`")
    cp = want_name(e["CP"], W)
    n_inv = sum(1 for n in ast.walk(cc) if isinstance(n, ast.Call) and src(n.func).endswith("linalg.inv"))
    lp = b[4]
    e = try_stmt("for __I__, __J__ in itertools.product(range(__NA__), range(__NB__)):\n    if __L__ > __Rr__:\n        continue\n    self.__D__[c_(__LA__, __LB__)] = __CPX__[:, :, __RA__, __RB__]", lp)
    cmp_op = ">"
    if e is None:
        for op in ("<", ">=", "<=", "==", "!="):
            e = try_stmt(f"for __I__, __J__ in itertools.product(range(__NA__), range(__NB__)):\n    if __L__ {op} __Rr__:\n        continue\n    self.__D__[c_(__LA__, __LB__)] = __CPX__[:, :, __RA__, __RB__]", lp)
            if e is not None: cmp_op = op; break
    if e is None: raise T.TieBroken(f"{W}: labelling loop outside grammar: `{src(lp)[:200]}`")
    li, lj = want_name(e["I"], W), want_name(e["J"], W)
    if src(e["CPX"]) != cp: raise T.TieBroken(f"{W}: the labelling loop reads `{src(e['CPX'])}`, not the inverse `{cp}`")
    if e["D"] != d["D"]: raise T.TieBroken(f"{W}: labels go to self.{e['D']} but the fresh dict is self.{d['D']}")
    lab = (want_int(e["NA"], W), want_int(e["NB"], W), cmp_op, affine(e["L"], [li, lj], W), affine(e["Rr"], [li, lj], W),
           affine(e["LA"], [li, lj], W), affine(e["LB"], [li, lj], W), affine(e["RA"], [li, lj], W), affine(e["RB"], [li, lj], W))
    out("/-- `Calculator._calculate_compliances` as data.  Assembly: `<em> = numpy.zeros((*self.<dimsAttr>, shape…))`;\n"
        "`for key in self.<keysFrom>: for i, j in [set(]itertools.permutations(key.<keyAttr>, <permLen>)[)]:\n"
        "     <em>[:, :, <writeRow>, <writeCol>] = self.<store>[key]`   (index = loop variable 0|1 plus offset);\n"
        "`numpy.linalg.inv(<em>)` once (<invCalls> call in the whole method);  labelling:\n"
        "`for i, j in itertools.product(range(<rangeI>), range(<rangeJ>)): if <skipL> <skipOp> <skipR>: continue;\n"
        "     self.<dictAttr>[c_(<labelA>, <labelB>)] = <inverse>[:, :, <readRow>, <readCol>]`;  `self.<dictAttr> = {}` is assigned in the method -/")
    out("def complSpec : ComplSpec :=")
    out(f"  {{ dimsAttr := {q(z['DIMS'])}, shape := ({shape[0]}, {shape[1]}), dictAttr := {q(d['D'])},")
    out(f"    keysFrom := {q(asm[0])}, store := {q(asm[1])}, keyAttr := {q(asm[2])}, permLen := {asm[3]}, dedup := {str(asm[4]).lower()},")
    out(f"    writeRow := {laff(asm[5])}, writeCol := {laff(asm[6])}, invCalls := {n_inv},")
    out(f"    rangeI := {lab[0]}, rangeJ := {lab[1]}, skipOp := {q(lab[2])}, skipL := {laff(lab[3])}, skipR := {laff(lab[4])},")
    out(f"    labelA := {laff(lab[5])}, labelB := {laff(lab[6])}, readRow := {laff(lab[7])}, readCol := {laff(lab[8])} }}\n")

    # ---------------------------------------------------------------- _process_cij
    pc = need_fn(calc, "Calculator", "_process_cij")
    W = "Calculator._process_cij"
    if not pc.body: raise T.TieBroken(f"{W}: empty")
    e = match_stmt("self.__H__ = __CLS__(self)", pc.body[0], W)
    holder, cls_name = e["H"], src(e["CLS"])
    wiring = []
    for st in pc.body[1:]:
        e = match_stmt(f"self.__A__ = self.{holder}.__B__", st, W)
        wiring.append((e["A"], e["B"]))
    out("/-- `_process_cij`: `self.<holder> = <Class>(self)`, then `self.<a> = self.<holder>.<b>` for every (a, b) -/")
    out(f"def processCijHolder : String × String := ({q(holder)}, {q(cls_name)})")
    out("def processCijWiring : List (String × String) := [" + ", ".join(f"({q(a)}, {q(b)})" for a, b in wiring) + "]\n")

    # ---------------------------------------------------------------- _calculate_pressure_static
    ps = need_fn(calc, "Calculator", "_calculate_pressure_static")
    W = "Calculator._calculate_pressure_static"
    names = [a.arg for a in ps.args.args]
    if names != ["self", "order"] or len(ps.args.defaults) != 1: raise T.TieBroken(f"{W}: signature is not (self, order=<int>)")
    order = want_int(ps.args.defaults[0], W)
    b = ps.body
    if len(b) != 7: raise T.TieBroken(f"{W}: {len(b)} statements (expected 7)")
    e = match_stmt("__V__ = numpy.array([__X__.volume for __X__ in self.qha_input.volumes])", b[0], W); vols = want_name(e["V"], W)
    e = match_stmt("__E__ = numpy.array([__X__.energy for __X__ in self.qha_input.volumes])", b[1], W); ens = want_name(e["E"], W)
    e = match_stmt(f"__S__ = calculate_eulerian_strain({vols}[__I0__], {vols})", b[2], W); s_nodes = want_name(e["S"], W); ref_nodes = want_int(e["I0"], W)
    e = match_stmt(f"__SA__ = calculate_eulerian_strain({vols}[__I1__], self.__GRID__)", b[3], W); s_grid = want_name(e["SA"], W); ref_grid = want_int(e["I1"], W); grid_attr = e["GRID"]
    e = match_stmt(f"__F__ = polynomial_least_square_fitting({s_nodes}, {ens}, {s_grid}, order=order)", b[4], W); fit = want_name(e["F"], W)
    match_stmt(f"if isinstance({fit}, tuple):\n    __U__, {fit} = {fit}", b[5], W)
    st = b[6]
    e = try_stmt(f"self.__P__ = -numpy.gradient({fit}) / numpy.gradient(self.__G2__)", st)
    sign = -1
    if e is None:
        e = try_stmt(f"self.__P__ = numpy.gradient({fit}) / numpy.gradient(self.__G2__)", st); sign = 1
    if e is None: raise T.TieBroken(f"{W}: last statement `{src(st)[:100]}` is not self.<p> = ±numpy.gradient(fit) / numpy.gradient(self.<grid>)")
    out("/-- `_calculate_pressure_static(self, order=<defaultOrder>)`: Eulerian strains of the file volumes and of `self.<gridAttr>` both referred to\n"
        "`volumes[<refNodes>]` / `volumes[<refGrid>]`; `polynomial_least_square_fitting(strains, energies, strain_array, order=order)`;\n"
        "`self.<target> = <sign> numpy.gradient(fit) / numpy.gradient(self.<denomAttr>)` -/")
    out(f"def pressureStatic : PressureStaticSpec :=\n  {{ defaultOrder := {order}, refNodes := {lint(ref_nodes)}, refGrid := {lint(ref_grid)}, gridAttr := {q(grid_attr)},"
        f" sign := {lint(sign)}, target := {q(e['P'])}, denomAttr := {q(e['G2'])} }}\n")

    # ---------------------------------------------------------------- _interpolate_modes
    im = need_fn(calc, "Calculator", "_interpolate_modes")
    W = "Calculator._interpolate_modes"
    b = im.body
    if len(b) != 3: raise T.TieBroken(f"{W}: {len(b)} statements (expected call / freq_array / mode_gamma)")
    e = match_stmt("__A__, __B__, __C__ = interpolate_modes(self.qha_input, self.qha_calculator.v_array, method=__M__, order=__O__)", b[0], W)
    ret = [want_name(e[k], W) for k in "ABC"]
    mpath, opath = config_path(e["M"], W), config_path(e["O"], W)
    e = match_stmt("self.__FA__ = __X__", b[1], W)
    fa_attr, fa_idx = e["FA"], ret.index(want_name(e["X"], W)) if isinstance(e["X"], ast.Name) and e["X"].id in ret else None
    if fa_idx is None: raise T.TieBroken(f"{W}: `{src(b[1])}` does not store one of the returned arrays")
    e = match_stmt("self.__MG__ = __LIST__", b[2], W)
    if not isinstance(e["LIST"], ast.List): raise T.TieBroken(f"{W}: `{src(b[2])}` is not a list display")
    mg = []
    for el in e["LIST"].elts:
        if isinstance(el, ast.Name) and el.id in ret: mg.append((ret.index(el.id), 1))
        elif isinstance(el, ast.BinOp) and isinstance(el.op, ast.Pow) and isinstance(el.left, ast.Name) and el.left.id in ret:
            mg.append((ret.index(el.left.id), want_int(el.right, W)))
        else: raise T.TieBroken(f"{W}: mode_gamma entry `{src(el)}` is not a returned array or an integer power of one")
    out("/-- `_interpolate_modes`: `r0, r1, r2 = interpolate_modes(self.qha_input, self.qha_calculator.v_array, method=self.config[…], order=self.config[…])`;\n"
        "`self.<freqAttr> = r<freqIdx>`; `self.<gammaAttr> = [r<i> ** <p>, …]` as (i, p) -/")
    out(f"def interpolateModes : InterpolateModesSpec :=\n  {{ methodPath := {lstrs(mpath)}, orderPath := {lstrs(opath)}, freqAttr := {q(fa_attr)}, freqIdx := {fa_idx},"
        f" gammaAttr := {q(e['MG'])}, gamma := [" + ", ".join(f"({i}, {p})" for i, p in mg) + "] }\n")

    # ---------------------------------------------------------------- _apply_elastic_constants_symmetry
    sy = need_fn(calc, "Calculator", "_apply_elastic_constants_symmetry")
    W = "Calculator._apply_elastic_constants_symmetry"
    b = sy.body
    if len(b) != 3: raise T.TieBroken(f"{W}: {len(b)} statements (expected symmetry / system / if)")
    e = match_stmt("__SYM__ = __CFG__", b[0], W); sym = want_name(e["SYM"], W); spath = config_path(e["CFG"], W)
    e = match_stmt(f"__SYS__ = {sym}.get(__K__, None)", b[1], W); system = want_name(e["SYS"], W); sys_key = want_str(e["K"], W)
    it = b[2]
    if not (isinstance(it, ast.If) and len(it.orelse) == 1): raise T.TieBroken(f"{W}: third statement is not if/else")
    skips = []
    tests = it.test.values if isinstance(it.test, ast.BoolOp) and isinstance(it.test.op, ast.Or) else [it.test]
    for t in tests:
        if not (isinstance(t, ast.Compare) and len(t.ops) == 1 and isinstance(t.ops[0], (ast.Eq, ast.Is)) and src(t.left) == system and isinstance(t.comparators[0], ast.Constant)):
            raise T.TieBroken(f"{W}: skip condition `{src(t)}` is not `{system} == <literal>`")
        v = t.comparators[0].value
        if v is not None and not isinstance(v, str): raise T.TieBroken(f"{W}: skip literal {v!r}")
        skips.append(v)
    for st in it.body:
        if not (isinstance(st, ast.Expr) and isinstance(st.value, ast.Call) and src(st.value.func).startswith("logger.")):
            raise T.TieBroken(f"{W}: the skipping branch does more than logging: `{src(st)[:80]}`")
    e = match_stmt(f"__F__(self.__DATA__, {sym})", it.orelse[0], W)
    # the dict handed over is the config's own dict, untouched in between
    if inplace_ops(sy, True): raise T.TieBroken(f"{W}: in-place operation before the dict is handed over: {inplace_ops(sy, True)}")
    out("/-- `_apply_elastic_constants_symmetry`: `symmetry = self.config[<path>]`; `system = symmetry.get(<systemKey>, None)`; filling is skipped\n"
        "exactly for these systems (`none` = the key is absent), otherwise `<fillFn>(self.<dataAttr>, symmetry)` gets that very dict -/")
    out(f"def symmetrySpec : SymmetrySpec :=\n  {{ path := {lstrs(spath)}, systemKey := {q(sys_key)}, skip := [" + ", ".join(lopt(s) for s in skips) + "],"
        f" fillFn := {q(src(e['F']))}, dataAttr := {q(e['DATA'])} }}\n")

    # ---------------------------------------------------------------- modulus_keys, dims, volume_base / pressure_base, write_output
    mk = need_fn(calc, "Calculator", "modulus_keys")
    e = match_stmt("return list(self.elast_data.volumes[__I__].static_elastic_modulus.keys())", mk.body[0], "Calculator.modulus_keys")
    if len(mk.body) != 1: raise T.TieBroken("Calculator.modulus_keys: more than one statement")
    out("/-- `modulus_keys`: decorator kind; `list(self.elast_data.volumes[<index>].static_elastic_modulus.keys())` -/")
    out(f"def modulusKeysSpec : String × Int := ({q(decorator_kind(mk))}, {lint(want_int(e['I'], 'Calculator.modulus_keys'))})\n")
    dm = need_fn(calc, "Calculator", "dims")
    W = "Calculator.dims"
    if len(dm.body) != 3: raise T.TieBroken(f"{W}: {len(dm.body)} statements")
    e1 = match_stmt("__NT__ = self.qha_calculator.__TA__.shape[0]", dm.body[0], W)
    e2 = match_stmt("__NV__ = self.qha_calculator.__VA__.shape[0]", dm.body[1], W)
    match_stmt(f"return ({want_name(e1['NT'], W)}, {want_name(e2['NV'], W)})", dm.body[2], W)
    out("/-- `dims`: decorator kind; `(self.qha_calculator.<a>.shape[0], self.qha_calculator.<b>.shape[0])` -/")
    out(f"def dimsSpec : String × String × String := ({q(decorator_kind(dm))}, {q(e1['TA'])}, {q(e2['VA'])})\n")
    props = []
    for nm in ("volume_base", "pressure_base"):
        f = need_fn(calc, "Calculator", nm)
        if len(f.body) != 1: raise T.TieBroken(f"Calculator.{nm}: more than one statement")
        e = match_stmt("return self.__A__", f.body[0], f"Calculator.{nm}")
        props.append((nm, decorator_kind(f), e["A"]))
    out("/-- `volume_base` / `pressure_base`: (property, decorator kind, attribute of self returned) -/")
    out("def interfaceProps : List (String × String × String) := [" + ", ".join(f"({q(a)}, {q(b)}, {q(c)})" for a, b, c in props) + "]\n")
    wo = need_fn(calc, "Calculator", "write_output")
    W = "Calculator.write_output"
    e = match_stmt("__OC__ = __CFG__", wo.body[0], W); oc = want_name(e["OC"], W); opath = config_path(e["CFG"], W)
    disp = []
    for st in wo.body[1:]:
        e = match_stmt(f"if __K__ in {oc}.keys():\n    self.__IF__.__M__({oc}[__K__])", st, W)
        disp.append((want_str(e["K"], W), e["IF"], e["M"]))
    out("/-- `write_output`: `output_config = self.config[<path>]`; per statement `if <key> in output_config.keys(): self.<interface>.<method>(output_config[<key>])` -/")
    out(f"def writeOutputPath : List String := {lstrs(opath)}")
    out("def writeOutputDispatch : List (String × String × String) := [" + ", ".join(f"({q(a)}, {q(b)}, {q(c)})" for a, b, c in disp) + "]\n")

    # ---------------------------------------------------------------- shared state: classes, module level, defaults, globals
    bases, class_assigns, names_defined, dunders, other_stmts = [], [], [], [], []
    for cname, c in classes.items():
        bases.append((cname, [src(x) for x in c.bases] + [f"{k.arg}={src(k.value)}" for k in c.keywords] + [("@" + src(dd)) for dd in c.decorator_list]))
        defined = []
        for st in c.body:
            if isinstance(st, (ast.FunctionDef, ast.AsyncFunctionDef)): defined.append(st.name)
            elif isinstance(st, ast.Assign):
                for t in st.targets:
                    for nm in ast.walk(t):
                        if isinstance(nm, ast.Name): class_assigns.append((cname, nm.id, value_kind(st.value))); defined.append(nm.id)
            elif isinstance(st, ast.AugAssign): class_assigns.append((cname, src(st.target), "augmented"))
            elif isinstance(st, ast.Pass): pass
            else: other_stmts.append((cname, type(st).__name__ + ": " + src(st)[:60]))
        names_defined.append((cname, defined))
        dunders.append((cname, [n for n in defined if n.startswith("__") and n.endswith("__")]))
    out("/-- every class of the module: base classes / metaclass keywords / class decorators -/")
    out("def classBases : List (String × List String) := [" + ", ".join(f"({q(a)}, {lstrs(b)})" for a, b in bases) + "]\n")
    out("/-- every class-level assignment: (class, name, kind of the value: const | list | dict | set | tuple-of-mutable | call:<f> | name:<x> | function | expr | augmented) -/")
    out("def classAssigns : List (String × String × String) := [" + ", ".join(f"({q(a)}, {q(b)}, {q(c)})" for a, b, c in class_assigns) + "]\n")
    out("/-- class-body statements that are neither a def, an assignment nor a docstring -/")
    out("def classOtherStatements : List (String × String) := [" + ", ".join(f"({q(a)}, {q(b)})" for a, b in other_stmts) + "]\n")
    out("/-- the names every class body defines, in source order (a name listed twice = a later definition replaces an earlier one) -/")
    out("def classNames : List (String × List String) :=\n  [" + ",\n   ".join(f"({q(a)}, {lstrs(b)})" for a, b in names_defined) + "]\n")
    out("/-- the special (dunder) names every class defines -/")
    out("def classDunders : List (String × List String) := [" + ", ".join(f"({q(a)}, {lstrs(b)})" for a, b in dunders) + "]\n")
    mod_assigns, mod_other = [], []
    for st in tree.body:
        if isinstance(st, ast.Assign):
            for t in st.targets:
                for nm in ast.walk(t):
                    if isinstance(nm, ast.Name): mod_assigns.append((nm.id, value_kind(st.value)))
        elif isinstance(st, (ast.Import, ast.ImportFrom, ast.ClassDef, ast.Pass)): pass
        elif isinstance(st, ast.Expr) and isinstance(st.value, ast.Constant): pass
        else: mod_other.append(type(st).__name__ + ": " + src(st)[:60])
    out("/-- module-level assignments (name, kind) and module-level statements other than import / class / assignment -/")
    out("def moduleAssigns : List (String × String) := [" + ", ".join(f"({q(a)}, {q(b)})" for a, b in mod_assigns) + "]")
    out(f"def moduleOtherStatements : List String := {lstrs(mod_other)}\n")
    lazy_from = [f"{st.module}.{a.name}" for st in tree.body if isinstance(st, ast.ImportFrom) for a in st.names if (a.asname or a.name) == "LazyProperty"]
    out("/-- where the name `LazyProperty` comes from -/")
    out(f"def lazyPropertyImport : List String := {lstrs(lazy_from)}\n")
    defaults, scope_decls = [], []
    for cname, c in classes.items():
        for f in ast.walk(c):
            if isinstance(f, (ast.FunctionDef, ast.AsyncFunctionDef, ast.Lambda)):
                fname = getattr(f, "name", "<lambda>")
                for dflt in list(f.args.defaults) + [x for x in f.args.kw_defaults if x is not None]:
                    k = value_kind(dflt)
                    if k != "const": defaults.append((cname, fname, k))
            if isinstance(f, (ast.Global, ast.Nonlocal)):
                scope_decls.append((cname, type(f).__name__.lower() + " " + ", ".join(f.names)))
    out("/-- default argument values that are not constants: (class, function, kind) -/")
    out("def nonConstDefaults : List (String × String × String) := [" + ", ".join(f"({q(a)}, {q(b)}, {q(c)})" for a, b, c in defaults) + "]\n")
    out("/-- `global` / `nonlocal` declarations inside the classes -/")
    out("def scopeDeclarations : List (String × String) := [" + ", ".join(f"({q(a)}, {q(b)})" for a, b in scope_decls) + "]\n")

    # ---------------------------------------------------------------- per method: decorator, reads of sibling properties, in-place operations
    facts = []
    for cname, c in classes.items():
        tab = fns_of(cname)
        propnames = {n for n, f in tab.items() if decorator_kind(f) in ("property", "LazyProperty")}
        for name, f in tab.items():
            kind = decorator_kind(f)
            reads = []
            for n in sorted((n for n in ast.walk(f) if isinstance(n, ast.Attribute) and isinstance(n.value, ast.Name) and n.value.id == "self"
                             and isinstance(n.ctx, ast.Load)), key=lambda n: (n.lineno, n.col_offset)):
                if n.attr in propnames: reads.append(n.attr)
            ops = inplace_ops(f, allow_self_attr_assign=(kind == "method"))
            facts.append((cname, name, kind, reads, ops))
    out("/-- every function of every class: (class, name, decorator kind: method | property | LazyProperty | other:<…>, sibling properties read\n"
        "through `self` in source order, in-place operations on anything reachable from `self` without a copy) -/")
    out("def methodFacts : List MethodFact :=\n  [" + ",\n   ".join(
        f"⟨{q(a)}, {q(b)}, {q(k)}, {lstrs(r)}, {lstrs(o)}⟩" for a, b, k, r, o in facts) + "]\n")
    rows = sorted((b, k == "LazyProperty", r) for a, b, k, r, o in facts if a == "CijVolumeBaseInterface" and k in ("property", "LazyProperty"))
    out("/-- the property read graph of `CijVolumeBaseInterface` in the format of `Generated.lazyDeps*`: (property, is LazyProperty, properties it reads);\n"
        "the `cIJ` / `sIJ` names go through `__getattr__` to the calculator's dictionaries: inputs of the object, not nodes -/")
    out("def volumeBaseDeps : List (String × Bool × List String) :=\n  [" + ",\n   ".join(
        f"({q(n)}, {str(z).lower()}, {lstrs(list(dict.fromkeys(r)))})" for n, z, r in rows) + "]\n")

    # ---------------------------------------------------------------- attribute lookup: what normal lookup finds before `__getattr__`
    def is_self_attr(n): return isinstance(n, ast.Attribute) and isinstance(n.value, ast.Name) and n.value.id == "self"
    init_attrs, later_attrs, lazy_caches, self_reads, foreign, dynamic = [], [], [], [], [], []
    for cname, c in classes.items():
        tab = fns_of(cname)
        ia, la, sr = [], [], []
        for name, f in tab.items():
            top = set()
            if name == "__init__":
                for st in f.body:                                   # unconditional top-level `self.<x> = …` of __init__: there from construction on
                    if isinstance(st, ast.Assign):
                        for t in st.targets:
                            if is_self_attr(t):
                                top.add(id(t))
                                if t.attr not in ia: ia.append(t.attr)
            reads = []
            for n in sorted((n for n in ast.walk(f) if isinstance(n, (ast.Attribute, ast.Call, ast.Name, ast.Delete))),
                            key=lambda n: (getattr(n, "lineno", 0), getattr(n, "col_offset", 0))):
                if isinstance(n, ast.Attribute):
                    if isinstance(n.ctx, (ast.Store, ast.Del)):
                        if is_self_attr(n):
                            if id(n) not in top and n.attr not in la: la.append(n.attr)
                            if isinstance(n.ctx, ast.Del): dynamic.append(f"{cname}.{name}: del {src(n)}")
                        else: foreign.append(f"{cname}.{name}: {src(n)}")
                    elif is_self_attr(n) and n.attr not in reads: reads.append(n.attr)
                    if n.attr in ("__dict__", "__setattr__", "__delattr__", "__getattribute__", "__class__", "__slots__"):
                        dynamic.append(f"{cname}.{name}: {src(n)}")
                elif isinstance(n, ast.Call) and isinstance(n.func, ast.Name):
                    if n.func.id in ("setattr", "delattr", "vars", "globals", "locals", "exec", "eval"):
                        dynamic.append(f"{cname}.{name}: {src(n)[:60]}")
                    if n.func.id in ("getattr", "hasattr") and n.args and isinstance(n.args[0], ast.Name) and n.args[0].id == "self":
                        if len(n.args) > 1 and isinstance(n.args[1], ast.Constant) and isinstance(n.args[1].value, str):
                            if n.args[1].value not in reads: reads.append(n.args[1].value)
                        else: dynamic.append(f"{cname}.{name}: {src(n)[:60]}")
            sr.append((cname, name, reads))
        init_attrs.append((cname, ia)); later_attrs.append((cname, la)); self_reads += sr
        lazy_caches.append((cname, ["_" + n for n, f in tab.items() if decorator_kind(f) == "LazyProperty"]))
    out("/-- attribute lookup.  Per class: the attributes `self.<x> = …` assigned unconditionally at the top level of `__init__` (there from\n"
        "construction on); the attributes assigned on `self` anywhere else in the class (there from some moment on); the cache attributes\n"
        "`_<name>` that `lazy_property.LazyProperty.__get__` sets on the instance on the first read of each LazyProperty -/")
    out("def initAttrs : List (String × List String) := [" + ", ".join(f"({q(a)}, {lstrs(b)})" for a, b in init_attrs) + "]")
    out("def laterAttrs : List (String × List String) := [" + ", ".join(f"({q(a)}, {lstrs(b)})" for a, b in later_attrs) + "]")
    out("def lazyCacheAttrs : List (String × List String) := [" + ", ".join(f"({q(a)}, {lstrs(b)})" for a, b in lazy_caches) + "]\n")
    out("/-- attribute stores / deletions on an object other than `self` inside the classes, and uses of `setattr`, `delattr`, `vars`, `__dict__`,\n"
        "`__setattr__`, `__getattribute__`, `__class__`, `__slots__`, `exec`, `eval`, `getattr(self, <not a literal>)`: (where: what) -/")
    out(f"def foreignAttrStores : List String := {lstrs(foreign)}")
    out(f"def dynamicAttrUses : List String := {lstrs(dynamic)}\n")
    out("/-- every attribute read through `self` (`self.<x>` loads, `getattr(self, '<x>')`), per function: (class, function, names in source order) -/")
    out("def selfReads : List (String × String × List String) :=\n  [" + ",\n   ".join(f"({q(a)}, {q(b)}, {lstrs(r)})" for a, b, r in self_reads) + "]\n")
    pg = need_fn(fns_of("CijPressureBaseInterface"), "CijPressureBaseInterface", "__getattr__")
    W = "CijPressureBaseInterface.__getattr__"
    if [a.arg for a in pg.args.args] != ["self", "name"] or pg.args.vararg or pg.args.kwarg or pg.args.defaults:
        raise T.TieBroken(f"{W}: signature is not (self, name)")
    if len(pg.body) != 3: raise T.TieBroken(f"{W}: body is not `x = getattr(self.calculator.<interface>, name); y = self.<conv>(x); return y`")
    e1 = match_stmt("__X__ = getattr(self.calculator.__IF__, name)", pg.body[0], W)
    e2 = match_stmt(f"__Y__ = self.__CONV__({want_name(e1['X'], W)})", pg.body[1], W)
    match_stmt(f"return {want_name(e2['Y'], W)}", pg.body[2], W)
    out("/-- `CijPressureBaseInterface.__getattr__(self, name)`: `x = getattr(self.calculator.<interface>, name); y = self.<conv>(x); return y` for EVERY name\n"
        "that reaches it -/")
    out(f"def pressureGetattr : String × String := ({q(e1['IF'])}, {q(e2['CONV'])})\n")

    # ---------------------------------------------------------------- canonical text of what is not data
    pins = {
        ("Calculator", "_load"):
            "def _load(self, config_fname):\n    config_fname = Path(config_fname)\n    _l0 = config_fname.parent\n"
            "    self.config = cij.io.read_config(config_fname)\n    self.config = cij.io.apply_default_config(self.config)\n"
            "    self.qha_input = cij.io.traditional.read_energy(_l0 / self.config['qha']['input'])\n"
            "    self.elast_data = cij.io.traditional.read_elast_data(_l0 / self.config['elast']['input'])\n"
            "    self.qha_calculator = QHACalculatorAdapter(self.config['qha']['settings'], self.qha_input)",
        ("CijVolumeBaseInterface", "__init__"): "def __init__(self, calculator):\n    self.calculator = calculator",
        ("CijVolumeBaseInterface", "v_array"): "def v_array(self):\n    return self.calculator.qha_calculator.volume_base.v_array",
        ("CijVolumeBaseInterface", "t_array"): "def t_array(self):\n    return self.calculator.qha_calculator.volume_base.t_array",
        ("CijVolumeBaseInterface", "modulus_adiabatic"): "def modulus_adiabatic(self):\n    return self.calculator.modulus_adiabatic",
        ("CijVolumeBaseInterface", "modulus_isothermal"): "def modulus_isothermal(self):\n    return self.calculator.modulus_isothermal",
        ("CijVolumeBaseInterface", "pressures"): "def pressures(self):\n    return self.calculator.qha_calculator.volume_base.pressures",
        ("CijVolumeBaseInterface", "write_table"):
            "def write_table(self, fname, value):\n    _l0 = _to_ang3(self.v_array)\n    save_x_tv(value, self.t_array, _l0, self.t_array, fname)",
        ("CijVolumeBaseInterface", "write_variables"):
            "def write_variables(self, variables):\n    _l0 = ResultsWriter(self)\n    for _l1 in variables:\n        _l0.write(_l1)",
    }
    for (cname, name), want in pins.items():
        f = need_fn(fns_of(cname), cname, name)
        got = canon_text(f)
        if got != want: raise T.TieBroken(f"{cname}.{name} changed (normalised text): {got!r}")
    out("/-- `_load`, and `__init__`, `v_array`, `t_array`, `modulus_adiabatic`, `modulus_isothermal`, `pressures`, `write_table`, `write_variables` of\n"
        "`CijVolumeBaseInterface` were compared as normalised text with what the models were written against -/")
    out(f"def pinnedMethods : List String := {lstrs([a + '.' + b for a, b in pins])}\n")
    out("end Generated.CalcGlue\n")
    return {"CalcGlueSpec.lean": "\n".join(L)}, [path]


GENERATORS = {"gen_calc_glue": (gen_calc_glue, ["CalcGlueSpec.lean"])}
