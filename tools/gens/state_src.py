"""Translator plug-in: inventory of PROCESS-WIDE STATE in the cij package (every module under cij/), for C14.

C14 says results do not depend on what happened earlier in the process.  The Lean model (CijModel/Memo.lean) has exactly one kind
of state: per-object read-through caches (LazyProperty) and per-object attributes.  This generator reads every module of the
working tree with `ast` and lists everything that could carry state ACROSS objects / calls:

  sharedObjects   module-level and class-level bindings whose value is (or may be) a mutable object
                  (dict/list/set literals and comprehensions, calls other than a small list of constructors of immutable values)
  sharedWrites    statements inside functions/methods that mutate an object reachable from a module-level name, a class, a function
                  object, an imported module (pandas.options…, numpy.seterr, os.environ, os.chdir, random.seed …), or `global`/`nonlocal`
  mutableDefaults function parameters whose default value is a mutable object
  cachingDecorators  decorators other than property/classmethod/staticmethod/LazyProperty/click.* (lru_cache, cache, cached_property, …)
  idCalls         uses of id(...) (address-keyed tables)

It is a syntactic inventory (sound for the listed constructs only); what it finds is DATA, and the theorems in
CijProofs/Properties/C14.lean state what the model relies on: the shared objects are exactly the known constant tables, and nothing
in the package writes to any shared object after import.
"""
import ast, os, warnings
import gen_tables as T

IMMUTABLE_CALLS = {  # constructors / factories whose result is immutable or is never mutated by design (checked separately by sharedWrites)
    "re.compile", "logging.getLogger", "getLogger", "Logger", "TypeVar", "auto", "namedtuple", "NamedTuple", "frozenset", "tuple",
    "float", "int", "str", "bool", "Path", "os.path.join", "os.path.dirname", "os.path.abspath",
}
MUTATORS = {"append", "extend", "insert", "remove", "pop", "popitem", "clear", "update", "setdefault", "add", "discard", "sort",
            "reverse", "__setitem__", "__delitem__", "appendleft", "put", "fill", "resize", "itemset", "setflags"}
GLOBAL_SETTERS = {  # calls that change interpreter / library wide settings
    "pandas.set_option", "pandas.reset_option", "pd.set_option", "numpy.seterr", "numpy.set_printoptions", "numpy.random.seed",
    "np.seterr", "np.set_printoptions", "np.random.seed", "random.seed", "os.chdir", "os.putenv", "warnings.simplefilter",
    "warnings.filterwarnings", "sys.setrecursionlimit", "locale.setlocale", "matplotlib.use", "setattr", "delattr",
}
OK_DECORATORS = {"property", "classmethod", "staticmethod", "LazyProperty", "abstractmethod", "abc.abstractmethod"}


def dotted(n):
    if isinstance(n, ast.Name): return n.id
    if isinstance(n, ast.Attribute):
        b = dotted(n.value)
        return None if b is None else b + "." + n.attr
    if isinstance(n, ast.Call): return dotted(n.func)
    return None


def root_names(n):
    """names an assignment target / receiver hangs off: `a.b[c]` -> {a}; `f(x, y.z)[...]` -> roots of the arguments (a view of them)"""
    while isinstance(n, (ast.Attribute, ast.Subscript, ast.Starred)):
        n = n.value
    if isinstance(n, ast.Call):
        out = set()
        for a in list(n.args) + [k.value for k in n.keywords]:
            if not isinstance(a, ast.Constant): out |= root_names(a)
        if isinstance(n.func, ast.Attribute) and not isinstance(n.func.value, ast.Name):
            out |= root_names(n.func.value)
        elif isinstance(n.func, ast.Attribute) and isinstance(n.func.value, ast.Name) and not n.args:
            out.add(n.func.value.id)
        return out
    return {n.id} if isinstance(n, ast.Name) else set()


def value_kind(v):
    """classification of a bound value: ('const'|'immutable'|'mutable', description)"""
    if v is None: return "const", "None"
    if isinstance(v, ast.Constant): return "const", type(v.value).__name__
    if isinstance(v, (ast.UnaryOp, ast.BinOp, ast.Compare, ast.BoolOp, ast.JoinedStr)): return "const", "expr"
    if isinstance(v, ast.Tuple):
        ks = [value_kind(e)[0] for e in v.elts]
        return ("mutable", "tuple-of-mutable") if "mutable" in ks else ("immutable", "tuple")
    if isinstance(v, (ast.Dict, ast.DictComp)): return "mutable", "dict"
    if isinstance(v, (ast.List, ast.ListComp)): return "mutable", "list"
    if isinstance(v, (ast.Set, ast.SetComp)): return "mutable", "set"
    if isinstance(v, ast.Lambda): return "immutable", "lambda"
    if isinstance(v, (ast.Name, ast.Attribute)): return "immutable", "alias:" + (dotted(v) or "?")
    if isinstance(v, ast.Subscript): return "immutable", "subscript"
    if isinstance(v, ast.Call):
        d = dotted(v.func) or "?"
        if d in IMMUTABLE_CALLS or d.split(".")[-1] in IMMUTABLE_CALLS: return "immutable", "call:" + d
        return "mutable", "call:" + d
    return "mutable", type(v).__name__


class FnScan(ast.NodeVisitor):
    """mutations, inside one function, of things that outlive the call"""
    def __init__(self, shared, classes, imported, params):
        self.shared, self.classes, self.imported = shared, classes, imported
        self.locals = set(params)
        self.out = []

    def note_local(self, t):
        if isinstance(t, ast.Name): self.locals.add(t.id)
        elif isinstance(t, (ast.Tuple, ast.List)):
            for e in t.elts: self.note_local(e)

    def outlives(self, name):
        return name is not None and name not in self.locals and (name in self.shared or name in self.classes or name in self.imported)

    def target(self, t, what):
        if isinstance(t, (ast.Tuple, ast.List)):
            for e in t.elts: self.target(e, what)
            return
        if isinstance(t, ast.Name):
            return
        rs = root_names(t)
        d = ast.unparse(t)
        if isinstance(t, (ast.Attribute, ast.Subscript)):
            # type(self).x = …, self.__class__.x = …, cls.x = …
            if "__class__" in d or d.startswith("type(") or "cls" in rs:
                self.out.append(f"{what} {d}")
            elif any(self.outlives(r) for r in rs):
                self.out.append(f"{what} {d}")

    def visit_Global(self, n): self.out.append("global " + ",".join(n.names))
    def visit_Nonlocal(self, n): self.out.append("nonlocal " + ",".join(n.names))

    def visit_Assign(self, n):
        for t in n.targets:
            self.target(t, "assign")
        for t in n.targets: self.note_local(t)
        self.generic_visit(n)

    def visit_AugAssign(self, n):
        self.target(n.target, "augassign"); self.generic_visit(n)

    def visit_AnnAssign(self, n):
        if n.value is not None: self.target(n.target, "assign")
        self.note_local(n.target); self.generic_visit(n)

    def visit_Delete(self, n):
        for t in n.targets: self.target(t, "del")

    def visit_For(self, n):
        self.note_local(n.target); self.generic_visit(n)

    def visit_With(self, n):
        for it in n.items:
            if it.optional_vars is not None: self.note_local(it.optional_vars)
        self.generic_visit(n)

    def visit_Call(self, n):
        d = dotted(n.func)
        if d in GLOBAL_SETTERS or (d and d.split(".")[0] in ("pandas", "pd") and "option" in d):
            if d in ("setattr", "delattr"):
                a0 = ast.unparse(n.args[0]) if n.args else "?"
                if a0 != "self" and not (a0 in self.locals):
                    self.out.append(f"call {d}({a0}, …)")
            else:
                self.out.append(f"call {d}")
        if isinstance(n.func, ast.Attribute) and n.func.attr in MUTATORS:
            rs = root_names(n.func.value)
            dv = ast.unparse(n.func.value)
            module_function = isinstance(n.func.value, ast.Name) and n.func.value.id in self.imported and n.func.value.id not in self.locals
            if module_function:
                pass    # numpy.sort(x), itertools.… : a function of an imported module, not a method of a shared object
            elif "__class__" in dv or dv.startswith("type(") or "cls" in rs or any(self.outlives(r) for r in rs):
                self.out.append(f"call {dv}.{n.func.attr}")
        self.generic_visit(n)

    def visit_FunctionDef(self, n):  # nested function: same scan, parameters local
        sub = FnScan(self.shared, self.classes, self.imported, self.locals | {a.arg for a in n.args.args + n.args.kwonlyargs})
        for st in n.body: sub.visit(st)
        self.out += sub.out
    visit_AsyncFunctionDef = visit_FunctionDef


def scan_module(rel, tree):
    shared_objects, shared_writes, mutable_defaults, caching, idcalls = [], [], [], [], []
    shared, classes, imported = set(), set(), set()
    for st in tree.body:
        if isinstance(st, (ast.Import, ast.ImportFrom)):
            for a in st.names: imported.add((a.asname or a.name).split(".")[0])
        elif isinstance(st, ast.ClassDef): classes.add(st.name)
        elif isinstance(st, (ast.FunctionDef, ast.AsyncFunctionDef)): shared.add(st.name)   # attributes stored on function objects
        elif isinstance(st, ast.Assign):
            for t in st.targets:
                if isinstance(t, ast.Name): shared.add(t.id)
        elif isinstance(st, ast.AnnAssign) and isinstance(st.target, ast.Name): shared.add(st.target.id)

    def binding(scope, name, v):
        if name == "__all__": return   # export list: a list by convention; writes to it are still reported by sharedWrites
        k, d = value_kind(v)
        if k == "mutable": shared_objects.append((rel, scope, name, d))

    def function(scope, fn):
        a = fn.args
        pos = a.posonlyargs + a.args
        for arg, dv in zip(pos[len(pos) - len(a.defaults):], a.defaults):
            if value_kind(dv)[0] == "mutable": mutable_defaults.append((rel, scope + fn.name, arg.arg, value_kind(dv)[1]))
        for arg, dv in zip(a.kwonlyargs, a.kw_defaults):
            if dv is not None and value_kind(dv)[0] == "mutable": mutable_defaults.append((rel, scope + fn.name, arg.arg, value_kind(dv)[1]))
        for dec in fn.decorator_list:
            d = dotted(dec) or ast.unparse(dec)
            if d in OK_DECORATORS or d.startswith("click.") or d.endswith(".setter") or d.endswith(".command") or d.endswith(".group"):
                continue
            caching.append((rel, scope + fn.name, d))
        params = {x.arg for x in pos + a.kwonlyargs} | ({a.vararg.arg} if a.vararg else set()) | ({a.kwarg.arg} if a.kwarg else set())
        sc = FnScan(shared, classes, imported, params)
        for st in fn.body: sc.visit(st)
        for w in sc.out: shared_writes.append((rel, scope + fn.name, w))
        for n in ast.walk(fn):
            if isinstance(n, ast.Call) and isinstance(n.func, ast.Name) and n.func.id == "id":
                idcalls.append((rel, scope + fn.name, ast.unparse(n)))

    for st in tree.body:
        if isinstance(st, ast.Assign):
            for t in st.targets:
                if isinstance(t, ast.Name): binding("<module>", t.id, st.value)
                else:
                    shared_writes.append((rel, "<module>", "assign " + ast.unparse(t)))
        elif isinstance(st, ast.AnnAssign) and st.value is not None and isinstance(st.target, ast.Name):
            binding("<module>", st.target.id, st.value)
        elif isinstance(st, (ast.FunctionDef, ast.AsyncFunctionDef)):
            function("", st)
        elif isinstance(st, ast.ClassDef):
            for dec in st.decorator_list:
                caching.append((rel, st.name, dotted(dec) or ast.unparse(dec)))
            for c in st.body:
                if isinstance(c, ast.Assign):
                    for t in c.targets:
                        if isinstance(t, ast.Name): binding(st.name, t.id, c.value)
                elif isinstance(c, ast.AnnAssign) and c.value is not None and isinstance(c.target, ast.Name):
                    binding(st.name, c.target.id, c.value)
                elif isinstance(c, (ast.FunctionDef, ast.AsyncFunctionDef)):
                    function(st.name + ".", c)
        elif isinstance(st, ast.Expr) and isinstance(st.value, ast.Call):
            d = dotted(st.value.func) or ast.unparse(st.value.func)
            shared_writes.append((rel, "<module>", "call " + d))
        elif isinstance(st, (ast.If, ast.For, ast.While, ast.Try, ast.With)):
            test = ast.unparse(st.test) if isinstance(st, ast.If) else ""
            if test.replace('"', "'") == "__name__ == '__main__'":
                continue
            shared_writes.append((rel, "<module>", "statement " + " ".join(ast.unparse(st).split())[:160]))
    return shared_objects, shared_writes, mutable_defaults, caching, idcalls


def gen_state():
    root = os.path.join(T.REPO, "cij")
    files = []
    for dp, dn, fn in os.walk(root):
        dn[:] = sorted(d for d in dn if d != "__pycache__")
        for f in sorted(fn):
            if f.endswith(".py"): files.append(os.path.join(dp, f))
    if len(files) < 30:
        raise T.TieBroken(f"only {len(files)} python modules found under {root}")
    acc = [[], [], [], [], []]
    for p in files:
        rel = os.path.relpath(p, T.REPO)
        with warnings.catch_warnings():
            warnings.simplefilter("ignore")     # invalid-escape SyntaxWarnings of the scanned sources are not ours to report
            tree = ast.parse(open(p, encoding="utf8").read())
        for a, r in zip(acc, scan_module(rel, tree)): a += r

    def lst(rows):
        if not rows: return "[]"
        return "[\n" + ",\n".join("  (" + ", ".join(T.lean_str(x) for x in r) + ")" for r in rows) + "]"

    txt = ("-- GENERATED by tools/gens/state_src.py from every module under cij/ — do not edit\nnamespace Generated.State\n\n"
           f"/-- number of python modules scanned -/\ndef modulesScanned : Nat := {len(files)}\n\n"
           "/-- (file, scope, name, kind): module-level / class-level bindings to possibly mutable objects -/\n"
           f"def sharedObjects : List (String × String × String × String) := {lst(acc[0])}\n\n"
           "/-- (file, function, what): statements in functions that mutate something that outlives the call (module-level object, class,\n"
           "imported module setting, global/nonlocal), and module-level statements other than imports/defs/bindings -/\n"
           f"def sharedWrites : List (String × String × String) := {lst(acc[1])}\n\n"
           "/-- (file, function, parameter, kind): mutable default values -/\n"
           f"def mutableDefaults : List (String × String × String × String) := {lst(acc[2])}\n\n"
           "/-- (file, function or class, decorator): decorators other than property/classmethod/staticmethod/LazyProperty/click -/\n"
           f"def otherDecorators : List (String × String × String) := {lst(acc[3])}\n\n"
           "/-- (file, function, call): uses of id(…) -/\n"
           f"def idCalls : List (String × String × String) := {lst(acc[4])}\n\nend Generated.State\n")
    return {"StateSpec.lean": txt}, files


GENERATORS = {"gen_state": (gen_state, ["StateSpec.lean"])}
