"""Translator plug-in: the SOURCE CODE of the output path -> lean/Generated/WriterSpec.lean  (property C15).

Read with `ast` from the working tree (`T.REPO`), never imported:

  cij/io/output/results_writer.py   ResultsWriterRule.{create,_format_ij,write_variable,write_ij_variable,write},
                                    ResultsWriter.{__init__,_init_rules,write}, _load_writer_rules_file, DEFAULT_WRITER_RULES
  cij/io/traditional/qha_output.py  pure re-export of qha.basic_io.out.save_x_*
  cij/core/calculator.py            write_table / write_variables / _base_name / grid arrays / modulus views of BOTH
                                    CijVolumeBaseInterface and CijPressureBaseInterface, CijPressureBaseModulusInterface,
                                    Calculator.{write_output,volume_base,pressure_base}
  cij/util/units.py                 convert_unit, _to_gpa, _to_ang3  (+ the re-exports in cij/util/__init__.py,
                                    cij/io/output/__init__.py, cij/data/__init__.py: get_data_fname)

What is extracted as DATA (consumed by `lean/CijProofs/Lemmas/WriterSource.lean` and the `writer_model_is_source_*` theorems of
`Properties/C15.lean`): the NamedTuple fields and the dict key `create` reads for each; the `_format_ij` format and the attribute of the
key it formats; for write_variable / write_ij_variable the order in which `_config` is layered (rule dict, user entry), which dict and key
feed each positional argument of `convert_unit`, which positional parameter of `convert_unit` is the source / target unit of the pint
conversion, the attribute read off the base, the file-name rule (dict+key tested, dict+key read, pattern field, keyword arguments of
`.format`), whether one `write_table` call is made per item of `.items()`, the arguments of that call; the `var_type` dispatch table; the
field whose entries become registry keys; the key a bare string is wrapped under and the key `write` dispatches on; the packaged rules
file; per base class the saver called by `write_table` and the (conversion, source) of each of its five arguments; `_base_name`; the
sources of the grid arrays; which calculator attribute each modulus view hands out; the constructor call and loop of `write_variables`;
the (key tested, base attribute, list passed) steps of `write_output`; the import table of qha_output.py.

Everything else of these functions is compared on the NORMALISED ast (docstrings, annotations and pure `logger.<level>(f"...")`
statements stripped, local variables renamed `_L0, _L1, ...` in order of first assignment, `ast.unparse`) against the canonical text
below: such a pin says "the model was written against exactly this statement", nothing more.  TieBroken names every function that
left the grammar.
"""
import ast, copy, os, re, warnings
import gen_tables as T


# ---------------------------------------------------------------------------------------------- normalisation
def _is_doc(st):
    return isinstance(st, ast.Expr) and isinstance(st.value, ast.Constant) and isinstance(st.value.value, str)


def _is_pure_log(st):
    """`logger.info(f"... {name} ...")`: arguments are literals / f-strings over plain names -> cannot change what is written"""
    if not (isinstance(st, ast.Expr) and isinstance(st.value, ast.Call)): return False
    f = st.value.func
    if not (isinstance(f, ast.Attribute) and isinstance(f.value, ast.Name) and f.value.id == "logger"
            and f.attr in ("debug", "info", "warning")): return False
    if st.value.keywords: return False
    for a in st.value.args:
        if isinstance(a, ast.Constant): continue
        if isinstance(a, ast.JoinedStr) and all(
                isinstance(v, ast.Constant) or (isinstance(v, ast.FormattedValue) and isinstance(v.value, ast.Name) and v.format_spec is None)
                for v in a.values): continue
        return False
    return True


class _Strip(ast.NodeTransformer):
    def _body(self, body):
        out = [st for i, st in enumerate(body) if not (i == 0 and _is_doc(st)) and not _is_pure_log(st)]
        return out or [ast.Pass()]

    def generic_visit(self, node):
        node = super().generic_visit(node)
        for fld in ("body", "orelse", "finalbody"):
            b = getattr(node, fld, None)
            if isinstance(b, list) and b and isinstance(b[0], ast.stmt):
                setattr(node, fld, self._body(b) if fld == "body" else [st for st in b if not _is_pure_log(st)])
        return node

    def visit_FunctionDef(self, node):
        node = self.generic_visit(node)
        node.returns = None
        a = node.args
        for x in a.posonlyargs + a.args + a.kwonlyargs + ([a.vararg] if a.vararg else []) + ([a.kwarg] if a.kwarg else []):
            x.annotation = None
        return node

    def visit_AnnAssign(self, node):
        node = self.generic_visit(node)
        if node.value is None: return None
        return ast.copy_location(ast.Assign(targets=[node.target], value=node.value, lineno=node.lineno), node)


def _params(fn):
    a = fn.args
    return [x.arg for x in a.posonlyargs + a.args] + ([a.vararg.arg] if a.vararg else []) + [x.arg for x in a.kwonlyargs] + ([a.kwarg.arg] if a.kwarg else [])


def _rename_locals(fn):
    params = set(_params(fn))
    stores = sorted((n.lineno, n.col_offset, n.id) for n in ast.walk(fn)
                    if isinstance(n, ast.Name) and isinstance(n.ctx, (ast.Store, ast.Del)) and n.id not in params)
    order = []
    for _, _, name in stores:
        if name not in order: order.append(name)
    mp = {name: f"_L{i}" for i, name in enumerate(order)}
    for n in ast.walk(fn):
        if isinstance(n, ast.Name) and n.id in mp: n.id = mp[n.id]
    return fn


def norm(fn):
    """normalised copy of a FunctionDef"""
    fn = _rename_locals(copy.deepcopy(fn))
    fn = _Strip().visit(fn)
    ast.fix_missing_locations(fn)
    return fn


def lines(fn):
    return [ast.unparse(st) for st in fn.body]


def sig(fn):
    """decorators | parameter list (annotations stripped)"""
    a = copy.deepcopy(fn.args)
    for x in a.posonlyargs + a.args + a.kwonlyargs + ([a.vararg] if a.vararg else []) + ([a.kwarg] if a.kwarg else []):
        x.annotation = None
    return ", ".join(ast.unparse(d) for d in fn.decorator_list) + "|" + ast.unparse(a)


class Problems:
    def __init__(self): self.items = []
    def __call__(self, msg): self.items.append(msg)


def _module(rel):
    path = os.path.join(T.REPO, rel)
    with warnings.catch_warnings():
        warnings.simplefilter("ignore")          # invalid escape sequences in the repo's docstrings
        return path, ast.parse(open(path).read())


def _top_bindings(tree):
    """name -> list of (kind, detail) of module-level bindings"""
    out = {}
    for st in tree.body:
        if isinstance(st, ast.ImportFrom):
            for a in st.names: out.setdefault(a.asname or a.name, []).append(("from", ("." * st.level) + (st.module or ""), a.name))
        elif isinstance(st, ast.Import):
            for a in st.names: out.setdefault((a.asname or a.name).split(".")[0], []).append(("import", a.name, a.asname))
        elif isinstance(st, (ast.FunctionDef, ast.ClassDef, ast.AsyncFunctionDef)):
            out.setdefault(st.name, []).append(("def", type(st).__name__, st.name))
        elif isinstance(st, (ast.Assign, ast.AnnAssign, ast.AugAssign)):
            tg = st.targets if isinstance(st, ast.Assign) else [st.target]
            for t in tg:
                for n in ast.walk(t):
                    if isinstance(n, ast.Name): out.setdefault(n.id, []).append(("assign", ast.unparse(st), None))
        elif isinstance(st, (ast.If, ast.Try, ast.With, ast.For, ast.While)):
            for n in ast.walk(st):
                if isinstance(n, ast.Name) and isinstance(n.ctx, ast.Store): out.setdefault(n.id, []).append(("nested", None, None))
                if isinstance(n, (ast.FunctionDef, ast.ClassDef)): out.setdefault(n.name, []).append(("nested", None, None))
                if isinstance(n, (ast.Import, ast.ImportFrom)):
                    for a in n.names: out.setdefault((a.asname or a.name).split(".")[0], []).append(("nested", None, None))
    return out


def _expect_binding(bad, where, binds, name, want):
    got = binds.get(name, [])
    if got != [want]:
        bad(f"{where}: module-level name `{name}` is bound by {got or 'nothing'} (expected exactly {want})")


def _methods(cls):
    return {f.name: f for f in cls.body if isinstance(f, ast.FunctionDef)}


def _rebinds_in_functions(tree, names):
    """a `global X` statement anywhere, or an assignment to `module.X`, is outside the grammar"""
    hits = []
    for n in ast.walk(tree):
        if isinstance(n, ast.Global):
            hits += [x for x in n.names if x in names]
    return hits


# ---------------------------------------------------------------------------------------------- results_writer.py
RULE_MEMBERS = ["create", "_format_ij", "write_variable", "write_ij_variable", "write"]
WRITER_MEMBERS = ["__init__", "_init_rules", "write"]


def _dictref(s, cfgvar):
    """`_L0` (the merged `_config`) -> merged ; `config` -> user ; self._asdict() -> rule"""
    if s == cfgvar: return "merged"
    if s == "config": return "user"
    if s == "self._asdict()": return "rule"
    return None


def _parse_write_method(bad, name, fn, per_item):
    """returns the WriteMethodSpec fields of write_variable / write_ij_variable (None when outside the grammar)"""
    where = f"ResultsWriterRule.{name}"
    if sig(fn) != "|self, base, config=None":
        bad(f"{where}: signature changed: {sig(fn)}"); return None
    n = norm(fn)
    body = list(n.body)
    spec = {"perItem": per_item}
    # --- 1. the layers of `_config`
    if not body: bad(f"{where}: empty body"); return None
    m = re.fullmatch(r"(_L\d+) = (self\._asdict\(\)|dict\(config\)|dict\(config or \{\}\))", ast.unparse(body[0]))
    if not m: bad(f"{where}: first statement is not `_config = self._asdict()`: {ast.unparse(body[0])[:90]}"); return None
    cfgvar = m.group(1)
    layers = ["rule" if m.group(2) == "self._asdict()" else "user"]
    i = 1
    while i < len(body):
        st = body[i]
        txt = ast.unparse(st)
        if isinstance(st, ast.If) and ast.unparse(st.test) == "config is not None" and not st.orelse and len(st.body) == 1 \
                and ast.unparse(st.body[0]) == f"{cfgvar}.update(config)":
            layers.append("user"); i += 1
        elif txt == f"{cfgvar}.update(config)":
            layers.append("user"); i += 1
        elif txt == f"{cfgvar}.update(self._asdict())":
            layers.append("rule"); i += 1
        else:
            break
    spec["layers"] = layers
    rest = body[i:]
    # --- 2. convert = convert_unit(<dict>[k1], <dict>[k2])
    if len(rest) < 3: bad(f"{where}: statements missing after the `_config` prologue"); return None
    m = re.fullmatch(r"(_L\d+) = convert_unit\((.+?)\['(\w+)'\], (.+?)\['(\w+)'\]\)", ast.unparse(rest[0]))
    m_attr = re.fullmatch(r"(_L\d+) = convert_unit\(self\.(\w+), self\.(\w+)\)", ast.unparse(rest[0]))
    if m:
        d1, d2 = _dictref(m.group(2), cfgvar), _dictref(m.group(4), cfgvar)
        if d1 is None or d2 is None: bad(f"{where}: convert_unit reads an unknown dict: {ast.unparse(rest[0])}"); return None
        convvar, spec["convertFrom"], spec["convertTo"] = m.group(1), (d1, m.group(3)), (d2, m.group(5))
    elif m_attr:
        convvar, spec["convertFrom"], spec["convertTo"] = m_attr.group(1), ("rule", m_attr.group(2)), ("rule", m_attr.group(3))
    else:
        bad(f"{where}: `convert = convert_unit(_config[..], _config[..])` changed: {ast.unparse(rest[0])[:100]}"); return None
    # --- 3. variable = getattr(base, self.<field>)
    m = re.fullmatch(r"(_L\d+) = getattr\(base, self\.(\w+)\)", ast.unparse(rest[1]))
    if not m: bad(f"{where}: `variable = getattr(base, self.prop)` changed: {ast.unparse(rest[1])[:100]}"); return None
    varvar, spec["propField"] = m.group(1), m.group(2)
    tail = rest[2:]
    itemvar = keyvar = None
    if per_item:
        if len(tail) != 1 or not isinstance(tail[0], ast.For) or tail[0].orelse:
            bad(f"{where}: the loop over `.items()` is not the last statement"); return None
        loop = tail[0]
        m = re.fullmatch(r"\(?(_L\d+), (_L\d+)\)?", ast.unparse(loop.target))
        if not m or ast.unparse(loop.iter) != f"{varvar}.items()":
            bad(f"{where}: loop header changed: for {ast.unparse(loop.target)} in {ast.unparse(loop.iter)}"); return None
        keyvar, itemvar = m.group(1), m.group(2)
        tail = list(loop.body)
    # --- 4. file-name rule
    if len(tail) != 2 or not isinstance(tail[0], ast.If):
        bad(f"{where}: expected the `if \"fname\" in _config` block followed by one `base.write_table` call, got {[ast.unparse(s)[:60] for s in tail]}")
        return None
    iff = tail[0]
    m = re.fullmatch(r"'(\w+)' in (.+)", ast.unparse(iff.test))
    d = _dictref(m.group(2), cfgvar) if m else None
    if not m or d is None: bad(f"{where}: file-name test changed: {ast.unparse(iff.test)}"); return None
    spec["fnameTest"] = (d, m.group(1))
    if len(iff.body) != 1 or len(iff.orelse) != 1: bad(f"{where}: file-name branches changed"); return None
    m = re.fullmatch(r"(_L\d+) = (.+?)\['(\w+)'\]", ast.unparse(iff.body[0]))
    d = _dictref(m.group(2), cfgvar) if m else None
    if not m or d is None: bad(f"{where}: override branch changed: {ast.unparse(iff.body[0])}"); return None
    fnvar, spec["fnameRead"] = m.group(1), (d, m.group(3))
    els = iff.orelse[0]
    ok = isinstance(els, ast.Assign) and len(els.targets) == 1 and ast.unparse(els.targets[0]) == fnvar and isinstance(els.value, ast.Call) \
        and isinstance(els.value.func, ast.Attribute) and els.value.func.attr == "format" and not els.value.args
    m = re.fullmatch(r"self\.(\w+)", ast.unparse(els.value.func.value)) if ok else None
    if not m: bad(f"{where}: pattern branch changed: {ast.unparse(els)[:100]}"); return None
    spec["patternField"] = m.group(1)
    kws = []
    for kw in els.value.keywords:
        v = ast.unparse(kw.value)
        if kw.arg is None: bad(f"{where}: `**` in .format()"); return None
        if v == "base._base_name": kws.append((kw.arg, "base._base_name"))
        elif keyvar is not None and v == f"self._format_ij({keyvar})": kws.append((kw.arg, "self._format_ij(key)"))
        else: bad(f"{where}: .format() argument outside the grammar: {kw.arg}={v}"); return None
    spec["formatKwargs"] = kws
    # --- 5. base.write_table(fname, convert(value))
    valvar = itemvar if per_item else varvar
    call = tail[1]
    m = re.fullmatch(r"base\.write_table\((.+)\)", ast.unparse(call)) if isinstance(call, ast.Expr) else None
    if not m or not isinstance(call.value, ast.Call) or call.value.keywords:
        bad(f"{where}: the `base.write_table(fname, convert(value))` call changed: {ast.unparse(call)[:100]}"); return None
    args = []
    for a in call.value.args:
        s = ast.unparse(a)
        if s == fnvar: args.append("fname")
        elif s == f"{convvar}({valvar})": args.append("convert(value)")
        else: bad(f"{where}: write_table argument outside the grammar: {s}"); return None
    spec["tableArgs"] = args
    return spec


def section_results_writer(bad, out, sources):
    rel = "cij/io/output/results_writer.py"
    path, tree = _module(rel); sources.append(path)
    binds = _top_bindings(tree)
    _expect_binding(bad, rel, binds, "convert_unit", ("from", "cij.util", "convert_unit"))
    _expect_binding(bad, rel, binds, "get_data_fname", ("from", "cij.data", "get_data_fname"))
    _expect_binding(bad, rel, binds, "yaml", ("import", "yaml", None))
    _expect_binding(bad, rel, binds, "DEFAULT_WRITER_RULES", ("assign", "DEFAULT_WRITER_RULES = _load_writer_rules_file()", None))
    for nm, kind in (("_load_writer_rules_file", "FunctionDef"), ("ResultsWriterRule", "ClassDef"), ("ResultsWriter", "ClassDef")):
        _expect_binding(bad, rel, binds, nm, ("def", kind, nm))
    for g in _rebinds_in_functions(tree, {"DEFAULT_WRITER_RULES", "convert_unit", "ResultsWriterRule", "ResultsWriter"}):
        bad(f"{rel}: `global {g}` inside a function")
    top = {st.name: st for st in tree.body if isinstance(st, (ast.FunctionDef, ast.ClassDef))}
    # --- _load_writer_rules_file
    f = top.get("_load_writer_rules_file")
    if isinstance(f, ast.FunctionDef):
        got = lines(norm(f))
        m = re.fullmatch(r"if fname is None:\n    fname = get_data_fname\('([^']+)'\)", got[0]) if got else None
        if sig(f) != "|fname=None" or len(got) != 2 or not m or got[1] != "with open(fname) as _L0:\n    return yaml.safe_load(_L0)":
            bad("_load_writer_rules_file changed")
        else:
            out["defaultRulesFile"] = m.group(1)
    # --- ResultsWriterRule
    R = top.get("ResultsWriterRule")
    if isinstance(R, ast.ClassDef):
        if [ast.unparse(b) for b in R.bases] != ["NamedTuple"] or R.keywords or R.decorator_list:
            bad(f"ResultsWriterRule: bases changed: {[ast.unparse(b) for b in R.bases]}")
        fields, extra = [], []
        for st in R.body:
            if _is_doc(st) or isinstance(st, ast.Pass): continue
            if isinstance(st, ast.AnnAssign) and isinstance(st.target, ast.Name) and st.value is None: fields.append(st.target.id)
            elif isinstance(st, ast.FunctionDef): pass
            else: extra.append(ast.unparse(st)[:60])
        if extra: bad(f"ResultsWriterRule: members outside the grammar: {extra}")
        out["ruleFields"] = fields
        M = _methods(R)
        unknown = sorted(set(M) - set(RULE_MEMBERS))
        if unknown: bad(f"ResultsWriterRule: unexpected methods {unknown} (the model mirrors {RULE_MEMBERS} only)")
        for nm in RULE_MEMBERS:
            if nm not in M: bad(f"ResultsWriterRule.{nm} not found")
        # create
        c = M.get("create")
        if c is not None:
            b = norm(c).body
            ok = sig(c) == "classmethod|cls, rule" and len(b) == 1 and isinstance(b[0], ast.Return) and isinstance(b[0].value, ast.Call) \
                and ast.unparse(b[0].value.func) == "cls" and not b[0].value.args
            pairs = []
            if ok:
                for kw in b[0].value.keywords:
                    m = re.fullmatch(r"rule\['(\w+)'\]", ast.unparse(kw.value))
                    if kw.arg is None or not m: ok = False; break
                    pairs.append((kw.arg, m.group(1)))
            if not ok: bad("ResultsWriterRule.create changed (expected `return cls(<field>=rule[\"<key>\"], ...)`)")
            else: out["createKeys"] = pairs
        # _format_ij
        c = M.get("_format_ij")
        if c is not None:
            b = lines(norm(c))
            m = re.fullmatch(r"return '([^']*)' % key\.(\w+)", b[0]) if len(b) == 1 else None
            if sig(c) != "staticmethod|key" or not m: bad(f"ResultsWriterRule._format_ij changed: {b}")
            else: out["formatIjFormat"], out["formatIjAttr"] = m.group(1), m.group(2)
        # write_variable / write_ij_variable
        for nm, per_item in (("write_variable", False), ("write_ij_variable", True)):
            if nm in M:
                s = _parse_write_method(bad, nm, M[nm], per_item)
                if s is not None: out[nm] = s
        # write (dispatch)
        c = M.get("write")
        if c is not None:
            n = norm(c)
            table, ok = [], sig(c) == "|self, base, config=None" and len(n.body) == 1 and isinstance(n.body[0], ast.If)
            node = n.body[0] if ok else None
            while ok and isinstance(node, ast.If):
                m = re.fullmatch(r"self\.var_type == '(\w+)'", ast.unparse(node.test))
                m2 = re.fullmatch(r"self\.(\w+)\(base, config\)", ast.unparse(node.body[0])) if len(node.body) == 1 else None
                if not m or not m2: ok = False; break
                table.append((m.group(1), m2.group(1)))
                if len(node.orelse) == 1 and isinstance(node.orelse[0], ast.If): node = node.orelse[0]
                else:
                    els = node.orelse
                    if len(els) != 1 or not re.fullmatch(r"raise NotImplementedError\(.*\)", ast.unparse(els[0]), re.S): ok = False
                    node = None
            if not ok: bad("ResultsWriterRule.write changed (expected an if/elif chain on self.var_type ending in raise NotImplementedError)")
            else: out["dispatch"] = table
    # --- ResultsWriter
    W = top.get("ResultsWriter")
    if isinstance(W, ast.ClassDef):
        if W.bases or W.keywords or W.decorator_list: bad("ResultsWriter: bases / decorators changed")
        extra = [ast.unparse(st)[:60] for st in W.body if not (_is_doc(st) or isinstance(st, (ast.FunctionDef, ast.Pass)))]
        if extra: bad(f"ResultsWriter: class-level statements outside the grammar (state shared between writers?): {extra}")
        M = _methods(W)
        unknown = sorted(set(M) - set(WRITER_MEMBERS))
        if unknown: bad(f"ResultsWriter: unexpected methods {unknown}")
        c = M.get("__init__")
        want = ["self.registry = {}", "if rules is None:\n    rules = DEFAULT_WRITER_RULES", "self._init_rules(rules)", "self.base = base"]
        if c is None or sig(c) != "|self, base, rules=None" or lines(norm(c)) != want: bad("ResultsWriter.__init__ changed")
        else: out["writerCtorParams"] = ["base", "rules"]
        c = M.get("_init_rules")
        got = lines(norm(c)) if c is not None else []
        m = re.fullmatch(r"for _L0 in rules:\n    _L0 = ResultsWriterRule\.create\(_L0\)\n    for _L1 in _L0\.(\w+):\n        self\.registry\[_L1\] = _L0",
                         got[0]) if len(got) == 1 else None
        if c is None or sig(c) != "|self, rules" or not m: bad("ResultsWriter._init_rules changed")
        else: out["registryKeyField"] = m.group(1)
        c = M.get("write")
        got = lines(norm(c)) if c is not None else []
        m1 = re.fullmatch(r"if isinstance\(config, str\):\n    config = \{'(\w+)': config\}", got[0]) if len(got) == 2 else None
        m2 = re.fullmatch(r"self\.registry\[config\['(\w+)'\]\]\.write\(self\.base, config\)", got[1]) if len(got) == 2 else None
        if c is None or sig(c) != "|self, config" or not m1 or not m2: bad("ResultsWriter.write changed")
        else: out["bareKey"], out["dispatchKey"] = m1.group(1), m2.group(1)


# ---------------------------------------------------------------------------------------------- units / re-exports
def section_units(bad, out, sources):
    rel = "cij/util/units.py"
    path, tree = _module(rel); sources.append(path)
    binds = _top_bindings(tree)
    top = {st.name: st for st in tree.body if isinstance(st, ast.FunctionDef)}
    for nm in ("convert_unit", "_to_gpa", "_to_ang3"):
        _expect_binding(bad, rel, binds, nm, ("def", "FunctionDef", nm))
    _expect_binding(bad, rel, binds, "units", ("assign", "units = pint.UnitRegistry()", None))
    c = top.get("convert_unit")
    if c is not None:
        got = lines(norm(c))
        m = re.fullmatch(r"_L0 = lambda x: units\.Quantity\(x, (\w+)\)\.to\((\w+)\)\.magnitude", got[0]) if got else None
        if not m or got[1:] != ["if value is not None:\n    return _L0(value)\nelse:\n    return _L0"] or c.decorator_list:
            bad("cij.util.units.convert_unit changed")
        else:
            a = c.args
            if a.vararg or a.kwarg or a.kwonlyargs or a.posonlyargs or [ast.unparse(d) for d in a.defaults] != ["None"]:
                bad("cij.util.units.convert_unit: parameter list changed")
            out["convertUnitParams"] = [x.arg for x in a.args]
            out["convertUnitFrom"], out["convertUnitTo"] = m.group(1), m.group(2)
    helpers = []
    for nm in ("_to_gpa", "_to_ang3"):
        c = top.get(nm)
        if c is None: continue
        got = lines(norm(c))
        m = re.fullmatch(r"return convert_unit\((.+), (.+), value\)", got[0]) if len(got) == 1 else None
        if not m or sig(c) != "|value": bad(f"cij.util.units.{nm} changed")
        else: helpers.append((nm, m.group(1), m.group(2)))
    out["unitHelpers"] = helpers
    # re-exports
    rel2 = "cij/util/__init__.py"
    p2, t2 = _module(rel2); sources.append(p2)
    b2 = _top_bindings(t2)
    for nm in ("convert_unit", "_to_gpa", "_to_ang3", "units"):
        _expect_binding(bad, rel2, b2, nm, ("from", ".units", nm))
    rel3 = "cij/io/output/__init__.py"
    p3, t3 = _module(rel3); sources.append(p3)
    _expect_binding(bad, rel3, _top_bindings(t3), "ResultsWriter", ("from", ".results_writer", "ResultsWriter"))
    rel4 = "cij/data/__init__.py"
    p4, t4 = _module(rel4); sources.append(p4)
    g = {st.name: st for st in t4.body if isinstance(st, ast.FunctionDef)}.get("get_data_fname")
    if g is None or sig(g) != "|fname" or lines(norm(g)) != ["return pkg_resources.resource_filename(__name__, fname)"]:
        bad("cij.data.get_data_fname changed")
    else:
        out["dataPackageDir"] = "cij/data"


# ---------------------------------------------------------------------------------------------- qha_output.py
def section_qha_output(bad, out, sources):
    rel = "cij/io/traditional/qha_output.py"
    path, tree = _module(rel); sources.append(path)
    imports, allnames = [], None
    for i, st in enumerate(tree.body):
        if i == 0 and _is_doc(st): continue
        if isinstance(st, ast.ImportFrom):
            for a in st.names: imports.append((("." * st.level) + (st.module or ""), a.name, a.asname or a.name))
        elif isinstance(st, ast.Assign) and ast.unparse(st.targets[0]) == "__all__" and len(st.targets) == 1:
            try: allnames = list(ast.literal_eval(st.value))
            except Exception: bad(f"{rel}: __all__ is not a literal")
        else:
            bad(f"{rel}: no longer a pure re-export of qha.basic_io.out (statement `{ast.unparse(st).splitlines()[0][:70]}`)")
    out["qhaOutputImports"] = imports
    out["qhaOutputAll"] = allnames or []


# ---------------------------------------------------------------------------------------------- calculator.py
SAVER_CONV = ("_to_ang3", "_to_gpa")


def _parse_write_table(bad, cname, fn):
    where = f"{cname}.write_table"
    if sig(fn) != "|self, fname, value": bad(f"{where}: signature changed: {sig(fn)}"); return None
    n = norm(fn)
    env = {}
    body = list(n.body)
    for st in body[:-1]:
        m = re.fullmatch(r"(_L\d+) = (.+)", ast.unparse(st))
        if not isinstance(st, ast.Assign) or not m: bad(f"{where}: statement outside the grammar: {ast.unparse(st)[:80]}"); return None
        env[m.group(1)] = st.value
    last = body[-1] if body else None
    if not (isinstance(last, ast.Expr) and isinstance(last.value, ast.Call) and isinstance(last.value.func, ast.Name)) or last.value.keywords:
        bad(f"{where}: last statement is not a plain call of a saver: {ast.unparse(last)[:80] if last else ''}"); return None

    def resolve(e, depth=0):
        if isinstance(e, ast.Name) and e.id in env and depth < 4: return resolve(env[e.id], depth + 1)
        if isinstance(e, ast.Call) and isinstance(e.func, ast.Name) and e.func.id in SAVER_CONV and len(e.args) == 1 and not e.keywords:
            inner = resolve(e.args[0], depth + 1)
            if inner is None or inner[0] != "": return None
            return (e.func.id, inner[1])
        s = ast.unparse(e)
        if s in ("value", "fname") or re.fullmatch(r"self\.\w+", s): return ("", s)
        return None
    args = []
    for a in last.value.args:
        r = resolve(a)
        if r is None:
            bad(f"{where}: argument of {last.value.func.id} outside the grammar (value/fname/self.<array>, optionally through _to_ang3/_to_gpa): "
                f"{ast.unparse(env.get(getattr(a, 'id', None), a))[:80]}")
            return None
        args.append(r)
    return {"saver": last.value.func.id, "args": args}


def section_calculator(bad, out, sources):
    rel = "cij/core/calculator.py"
    path, tree = _module(rel); sources.append(path)
    binds = _top_bindings(tree)
    for nm in ("save_x_tv", "save_x_tp"):
        _expect_binding(bad, rel, binds, nm, ("from", "cij.io.traditional.qha_output", nm))
    for nm in ("_to_gpa", "_to_ang3"):
        _expect_binding(bad, rel, binds, nm, ("from", "cij.util", nm))
    _expect_binding(bad, rel, binds, "ResultsWriter", ("from", "cij.io.output", "ResultsWriter"))
    for nm in ("Calculator", "CijVolumeBaseInterface", "CijPressureBaseInterface", "CijPressureBaseModulusInterface"):
        _expect_binding(bad, rel, binds, nm, ("def", "ClassDef", nm))
    for g in _rebinds_in_functions(tree, {"save_x_tv", "save_x_tp", "_to_gpa", "_to_ang3", "ResultsWriter"}):
        bad(f"{rel}: `global {g}` inside a function")
    cls = {c.name: c for c in tree.body if isinstance(c, ast.ClassDef)}
    base_names, tables, wv, arrays, modulus = [], {}, {}, [], []
    for cname, arrs in (("CijVolumeBaseInterface", ("t_array", "v_array")), ("CijPressureBaseInterface", ("t_array", "p_array"))):
        C = cls.get(cname)
        if C is None: continue
        if C.bases or C.keywords or C.decorator_list:
            bad(f"{cname}: now inherits from {[ast.unparse(b) for b in C.bases]} — write_table / write_variables may live elsewhere (the model mirrors the class body)")
        M = _methods(C)
        cl_assign = [st for st in C.body if isinstance(st, (ast.Assign, ast.AnnAssign))]
        bn = [st for st in cl_assign if isinstance(st, ast.Assign) and ast.unparse(st.targets[0]) == "_base_name"]
        if len(bn) != 1 or not isinstance(bn[0].value, ast.Constant) or not isinstance(bn[0].value.value, str): bad(f"{cname}._base_name changed")
        else: base_names.append((cname, bn[0].value.value))
        other = [ast.unparse(st)[:60] for st in cl_assign if st not in bn]
        if other: bad(f"{cname}: class-level state outside the grammar: {other}")
        # __init__
        c = M.get("__init__")
        if c is None or sig(c) != "|self, calculator" or lines(norm(c)) != ["self.calculator = calculator"]: bad(f"{cname}.__init__ changed")
        # write_table
        c = M.get("write_table")
        if c is None: bad(f"{cname}.write_table not found")
        else:
            t = _parse_write_table(bad, cname, c)
            if t is not None: tables[cname] = t
        # write_variables
        c = M.get("write_variables")
        if c is None: bad(f"{cname}.write_variables not found in the class body")
        else:
            got = lines(norm(c))
            m = re.fullmatch(r"_L0 = ResultsWriter\(([^()]*)\)", got[0]) if len(got) == 2 else None
            m2 = re.fullmatch(r"for _L1 in (\w+):\n    _L0\.write\(_L1\)", got[1]) if len(got) == 2 else None
            if sig(c) != "|self, variables" or not m or not m2:
                bad(f"{cname}.write_variables changed (expected `writer = ResultsWriter(self)` then `for c in variables: writer.write(c)`)")
            else:
                wv[cname] = {"ctorArgs": [a.strip() for a in m.group(1).split(",") if a.strip()], "loopOver": m2.group(1)}
        # grid arrays and modulus views: plain properties with one return
        for pn in arrs + ("modulus_adiabatic", "modulus_isothermal"):
            c = M.get(pn)
            got = lines(norm(c)) if c is not None else []
            if c is None or [ast.unparse(d) for d in c.decorator_list] != ["property"] or len(got) != 1 or not got[0].startswith("return "):
                bad(f"{cname}.{pn} is not a plain property with a single return"); continue
            r = got[0][len("return "):]
            if pn in arrs:
                if not re.fullmatch(r"self\.calculator\.qha_calculator\.(volume_base|pressure_base)\.\w+", r): bad(f"{cname}.{pn}: source outside the grammar: {r}")
                else: arrays.append((cname, pn, r))
            else:
                m = re.fullmatch(r"self\.calculator\.(\w+)", r) or re.fullmatch(r"CijPressureBaseModulusInterface\(self\.calculator\.(\w+), self\.v2p\)", r)
                if not m: bad(f"{cname}.{pn}: source outside the grammar: {r}")
                else: modulus.append((cname, pn, m.group(1), "v2p" if r.startswith("Cij") else ""))
    out["baseNames"], out["writeTables"], out["writeVariables"], out["baseArrays"], out["modulusViews"] = base_names, tables, wv, arrays, modulus
    # CijPressureBaseModulusInterface
    Mi = cls.get("CijPressureBaseModulusInterface")
    if Mi is not None:
        M = _methods(Mi)
        want = {"__init__": ("|self, modulus, v2p", ["self.modulus = modulus", "self.v2p = v2p"]),
                "items": ("|self", ["for _L0 in self.modulus.keys():\n    yield (_L0, self[_L0])"]),
                "__getitem__": ("|self, key", ["return self.v2p(self.modulus[key])"])}
        if Mi.bases or sorted(M) != sorted(want): bad(f"CijPressureBaseModulusInterface: members changed: {sorted(M)}")
        for nm, (sg, body) in want.items():
            c = M.get(nm)
            if c is not None and (sig(c) != sg or lines(norm(c)) != body): bad(f"CijPressureBaseModulusInterface.{nm} changed")
        if [st for st in Mi.body if isinstance(st, (ast.Assign, ast.AnnAssign))]: bad("CijPressureBaseModulusInterface: class-level state")
    # Calculator.write_output / volume_base / pressure_base / construction of the two views
    K = cls.get("Calculator")
    if K is not None:
        M = _methods(K)
        c = M.get("write_output")
        steps = []
        if c is None: bad("Calculator.write_output not found")
        else:
            got = norm(c).body
            ok = sig(c) == "|self" and got and ast.unparse(got[0]) == "_L0 = self.config['output']"
            for st in (got[1:] if ok else []):
                m = re.fullmatch(r"'(\w+)' in _L0(\.keys\(\))?", ast.unparse(st.test)) if isinstance(st, ast.If) and not st.orelse and len(st.body) == 1 else None
                m2 = re.fullmatch(r"self\.(\w+)\.write_variables\(_L0\['(\w+)'\]\)", ast.unparse(st.body[0])) if m else None
                if not m2: ok = False; break
                steps.append((m.group(1), m2.group(1), m2.group(2)))
            if not ok: bad("Calculator.write_output changed (expected `if \"<key>\" in output_config.keys(): self.<base>.write_variables(output_config[\"<key>\"])` steps)")
        out["writeOutputSteps"] = steps
        views = []
        for pn in ("volume_base", "pressure_base"):
            c = M.get(pn)
            got = lines(norm(c)) if c is not None else []
            m = re.fullmatch(r"return self\.(\w+)", got[0]) if len(got) == 1 else None
            if c is None or [ast.unparse(d) for d in c.decorator_list] != ["property"] or not m: bad(f"Calculator.{pn} changed"); continue
            attr = m.group(1)
            assigns = [ast.unparse(n.value) for n in ast.walk(K) if isinstance(n, ast.Assign) and any(ast.unparse(t) == f"self.{attr}" for t in n.targets)]
            m = re.fullmatch(r"(\w+)\(self\)", assigns[0]) if len(assigns) == 1 else None
            if not m: bad(f"Calculator: `self.{attr}` is assigned {assigns} (expected one `<ViewClass>(self)`)"); continue
            views.append((pn, m.group(1)))
        out["calculatorViews"] = views


# ---------------------------------------------------------------------------------------------- Lean text
def _s(x): return T.lean_str(x)
def _l(xs): return "[" + ", ".join(xs) + "]"
def _pair(p): return f"({_s(p[0])}, {_s(p[1])})"


def _method_spec(name, s):
    return (f"def {name} : WriteMethodSpec :=\n"
            f"  {{ layers := {_l(_s(x) for x in s['layers'])}\n"
            f"    convertFrom := {_pair(s['convertFrom'])}\n    convertTo := {_pair(s['convertTo'])}\n"
            f"    propField := {_s(s['propField'])}\n"
            f"    fnameTest := {_pair(s['fnameTest'])}\n    fnameRead := {_pair(s['fnameRead'])}\n"
            f"    patternField := {_s(s['patternField'])}\n"
            f"    formatKwargs := {_l(_pair(p) for p in s['formatKwargs'])}\n"
            f"    perItem := {'true' if s['perItem'] else 'false'}\n"
            f"    tableArgs := {_l(_s(x) for x in s['tableArgs'])} }}\n")


def _wiring(name, t):
    return (f"def {name} : TableWiring :=\n  {{ saver := {_s(t['saver'])}\n    args := {_l(_pair(p) for p in t['args'])} }}\n")


def _wv(name, w):
    return f"def {name} : WriteVariablesSpec := {{ ctorArgs := {_l(_s(x) for x in w['ctorArgs'])}, loopOver := {_s(w['loopOver'])} }}\n"


def gen_writer_src():
    bad, out, sources = Problems(), {}, []
    for section in (section_results_writer, section_units, section_qha_output, section_calculator):
        try:
            section(bad, out, sources)
        except T.TieBroken as e:
            bad(str(e))
        except (OSError, SyntaxError) as e:
            bad(f"{section.__name__}: {type(e).__name__}: {e}")
    need = ["defaultRulesFile", "ruleFields", "createKeys", "formatIjFormat", "formatIjAttr", "write_variable", "write_ij_variable", "dispatch",
            "writerCtorParams", "registryKeyField", "bareKey", "dispatchKey", "convertUnitParams", "dataPackageDir"]
    if not bad.items:
        for k in need:
            if k not in out: bad(f"internal: {k} not extracted")
        for cname in ("CijVolumeBaseInterface", "CijPressureBaseInterface"):
            if cname not in out.get("writeTables", {}) or cname not in out.get("writeVariables", {}): bad(f"internal: {cname} not extracted")
    if bad.items:
        raise T.TieBroken(" ;; ".join(bad.items))
    triple = lambda t: "(" + ", ".join(_s(x) for x in t) + ")"
    txt = (
        "-- GENERATED by tools/gens/writer_src.py from cij/io/output/results_writer.py, cij/io/traditional/qha_output.py,\n"
        "-- cij/core/calculator.py, cij/util/units.py (+ package __init__ re-exports) — do not edit\n"
        "namespace Generated\n\n"
        "/-- `class ResultsWriterRule(NamedTuple)`: the fields in declaration order (= the keys of `self._asdict()`) -/\n"
        f"def writerRuleFields : List String := {_l(_s(x) for x in out['ruleFields'])}\n\n"
        "/-- `ResultsWriterRule.create`: `cls(<field>=rule[\"<key>\"], ...)` as (field, key) -/\n"
        f"def writerCreateKeys : List (String × String) := {_l(_pair(p) for p in out['createKeys'])}\n\n"
        "/-- `ResultsWriterRule._format_ij`: `return \"<format>\" % key.<attr>` -/\n"
        f"def formatIjFormat : String := {_s(out['formatIjFormat'])}\n"
        f"def formatIjAttr : String := {_s(out['formatIjAttr'])}\n\n"
        "/-- `write_variable` / `write_ij_variable`, statement by statement.  Dict names: \"rule\" = `self._asdict()`, \"user\" = the\n"
        "`config` argument, \"merged\" = `_config`, built by applying `layers` in order (a later layer overrides an earlier one).\n"
        "`convertFrom` / `convertTo` = (dict, key) of the 1st / 2nd positional argument of `convert_unit`; `propField`: `getattr(base,\n"
        "self.<propField>)`; `if \"<fnameTest.2>\" in <fnameTest.1>: fname = <fnameRead.1>[\"<fnameRead.2>\"] else: fname =\n"
        "self.<patternField>.format(<formatKwargs>)`; `perItem`: the file-name rule and the `base.write_table(<tableArgs>)` call sit inside\n"
        "`for k, v in variable.items()`. -/\n"
        "structure WriteMethodSpec where\n  layers : List String\n  convertFrom : String × String\n  convertTo : String × String\n"
        "  propField : String\n  fnameTest : String × String\n  fnameRead : String × String\n  patternField : String\n"
        "  formatKwargs : List (String × String)\n  perItem : Bool\n  tableArgs : List String\n  deriving Repr, DecidableEq\n\n"
        + _method_spec("writeVariableSpec", out["write_variable"]) + "\n"
        + _method_spec("writeIjVariableSpec", out["write_ij_variable"]) + "\n"
        "/-- `cij.util.units.convert_unit`: positional parameters, and which of them are the unit the magnitude is given in / converted\n"
        "to in `lambda x: units.Quantity(x, <from>).to(<to>).magnitude` -/\n"
        f"def convertUnitParams : List String := {_l(_s(x) for x in out['convertUnitParams'])}\n"
        f"def convertUnitFrom : String := {_s(out['convertUnitFrom'])}\n"
        f"def convertUnitTo : String := {_s(out['convertUnitTo'])}\n\n"
        "/-- `_to_gpa` / `_to_ang3`: `return convert_unit(<from>, <to>, value)` as (helper, from, to) -/\n"
        f"def unitHelpers : List (String × String × String) := {_l(triple(t) for t in out['unitHelpers'])}\n\n"
        "/-- `ResultsWriterRule.write`: the if/elif chain `self.var_type == '<type>'` → `self.<method>(base, config)`; anything else raises -/\n"
        f"def writerDispatch : List (String × String) := {_l(_pair(p) for p in out['dispatch'])}\n\n"
        "/-- `ResultsWriter._init_rules`: `for rule in rules: rule = create(rule); for keyword in rule.<field>: self.registry[keyword] = rule` -/\n"
        f"def registryKeyField : String := {_s(out['registryKeyField'])}\n\n"
        "/-- `ResultsWriter.write`: a `str` is wrapped as `{\"<bareKey>\": config}`; dispatch on `self.registry[config[\"<dispatchKey>\"]]` -/\n"
        f"def writerBareKey : String := {_s(out['bareKey'])}\n"
        f"def writerDispatchKey : String := {_s(out['dispatchKey'])}\n\n"
        "/-- `ResultsWriter.__init__(self, base, rules=None)`: positional parameters after self; `rules is None` → DEFAULT_WRITER_RULES =\n"
        "`yaml.safe_load` of `get_data_fname(<file>)`, i.e. this path in the repository -/\n"
        f"def writerCtorParams : List String := {_l(_s(x) for x in out['writerCtorParams'])}\n"
        f"def defaultRulesPath : String := {_s(out['dataPackageDir'] + '/' + out['defaultRulesFile'])}\n\n"
        "/-- `write_table` of a base: the saver it calls and (conversion helper or \"\", source expression) of each positional argument,\n"
        "local variables substituted -/\n"
        "structure TableWiring where\n  saver : String\n  args : List (String × String)\n  deriving Repr, DecidableEq\n\n"
        + _wiring("volumeWriteTable", out["writeTables"]["CijVolumeBaseInterface"]) + "\n"
        + _wiring("pressureWriteTable", out["writeTables"]["CijPressureBaseInterface"]) + "\n"
        "/-- `_base_name` of the two interface classes -/\n"
        f"def baseNames : List (String × String) := {_l(_pair(p) for p in out['baseNames'])}\n\n"
        "/-- the grid arrays of the two interface classes: (class, property, returned expression) -/\n"
        f"def baseArrays : List (String × String × String) := {_l(triple(t) for t in out['baseArrays'])}\n\n"
        "/-- the tensor views: (class, property, attribute of the calculator handed out, \"v2p\" when wrapped in\n"
        "`CijPressureBaseModulusInterface(…, self.v2p)` whose `items()` yields `key, self.v2p(self.modulus[key])` in `modulus.keys()` order) -/\n"
        f"def modulusViews : List (String × String × String × String) := {_l(triple(t) for t in out['modulusViews'])}\n\n"
        "/-- `write_variables` of a base: `writer = ResultsWriter(<ctorArgs>)` (a fresh writer per call), then `for c in <loopOver>:\n"
        "writer.write(c)` -/\n"
        "structure WriteVariablesSpec where\n  ctorArgs : List String\n  loopOver : String\n  deriving Repr, DecidableEq\n\n"
        + _wv("volumeWriteVariables", out["writeVariables"]["CijVolumeBaseInterface"])
        + _wv("pressureWriteVariables", out["writeVariables"]["CijPressureBaseInterface"]) + "\n"
        "/-- `Calculator.write_output`: after `output_config = self.config[\"output\"]`, in order: `if \"<1>\" in output_config.keys():\n"
        "self.<2>.write_variables(output_config[\"<3>\"])` -/\n"
        f"def writeOutputSteps : List (String × String × String) := {_l(triple(t) for t in out['writeOutputSteps'])}\n\n"
        "/-- `Calculator.<property>` returns the one `<Class>(self)` built in `__init__` -/\n"
        f"def calculatorViews : List (String × String) := {_l(_pair(p) for p in out['calculatorViews'])}\n\n"
        "/-- cij/io/traditional/qha_output.py: every imported name as (module, name, bound as); nothing else but `__all__` -/\n"
        f"def qhaOutputImports : List (String × String × String) := {_l(triple(t) for t in out['qhaOutputImports'])}\n"
        f"def qhaOutputAll : List String := {_l(_s(x) for x in out['qhaOutputAll'])}\n\n"
        "/-- compared on the normalised AST with the text `CijModel/Writer.lean` was written against: `_load_writer_rules_file`,\n"
        "`ResultsWriter.__init__`, the loop shape of `_init_rules`, `convert_unit`'s body, `get_data_fname`, the package re-exports, the\n"
        "`__init__` of the interface classes, `CijPressureBaseModulusInterface`, the single module-level binding of every helper used -/\n"
        "def writerSourceCanonical : Bool := true\n\nend Generated\n")
    return {"WriterSpec.lean": txt}, sorted(set(sources))


GENERATORS = {"gen_writer_src": (gen_writer_src, ["WriterSpec.lean"])}
