"""Translator plug-in: the two file readers/writers of cij/io/traditional and their package glue -> lean/Generated/ReadersSpec.lean.

Sources (read from the working tree with `ast`, never imported):
  cij/io/traditional/qha_input.py   REGEX_* (final binding per name), read_energy, _read_volume_data, _read_weights, write_energy
  cij/io/traditional/elast_dat.py   REGEX_MODULUS, _find_modulus_key, read_elast_data, apply_symetry_on_elast_data
  cij/io/traditional/__init__.py, models.py     what is re-exported, and that it is the function itself (no wrapper)
  cij/core/calculator.py, cij/cli/static.py     the call sites of the readers (light pin)

What becomes DATA consumed by Lean theorems (CijProofs/Lemmas/ReadersSource.lean, Properties/C17.lean):
  every regex literal as characters AND as an instruction list of the tiny regex subset of CijModel/Regex.lean (the Lean side
  re-parses the characters and compares); the conversion functions (`int`, `float`); which header count drives which loop; the
  field positions / slices (`words[0:3]`, `words[3]`, `fields[0]`, `keys[1:]`, …); the weight-section sentinels; the group -> field
  order (P, V, E); every format specification of write_energy as (width, precision, conversion letter); header words, labels, the
  marker line, the default comment; the column naming `"c%s%s" % key.v`, the `key[1:]` on the way back, the arguments of fill_cij.
Everything else: the function with these data replaced by placeholders, docstrings / annotations stripped and local variables
renamed canonically, is compared with the canonical text below (`ast.unparse`, so comments, blank lines, quoting and line breaks
never matter).  A difference raises TieBroken naming the function.  A pin says "the model was written against exactly this
statement", nothing more.
"""
import ast, copy, os, re
import gen_tables as T

QHA = "cij/io/traditional/qha_input.py"
ELA = "cij/io/traditional/elast_dat.py"
INI = "cij/io/traditional/__init__.py"
MOD = "cij/io/traditional/models.py"
CAL = "cij/core/calculator.py"
STA = "cij/cli/static.py"


# ----------------------------------------------------------------------------------------------- small helpers
def _parse(rel):
    path = os.path.join(T.REPO, rel)
    import warnings
    with open(path, encoding="utf8") as fp, warnings.catch_warnings():
        warnings.simplefilter("ignore")          # invalid escape sequences inside the source's docstrings
        return ast.parse(fp.read()), path


def _strip(fn):
    """docstrings and annotations out (in place, on a copy)"""
    for node in ast.walk(fn):
        if isinstance(node, (ast.FunctionDef, ast.AsyncFunctionDef)):
            node.returns = None
            for a in node.args.posonlyargs + node.args.args + node.args.kwonlyargs:
                a.annotation = None
            if node.args.vararg: node.args.vararg.annotation = None
            if node.args.kwarg: node.args.kwarg.annotation = None
        if isinstance(node, (ast.FunctionDef, ast.ClassDef, ast.Module)):
            b = node.body
            if b and isinstance(b[0], ast.Expr) and isinstance(b[0].value, ast.Constant) and isinstance(b[0].value.value, str):
                node.body = b[1:] or [ast.Pass()]
    for node in ast.walk(fn):
        for field, val in ast.iter_fields(node):
            if isinstance(val, list):
                for i, st in enumerate(val):
                    if isinstance(st, ast.AnnAssign) and st.value is not None:
                        val[i] = ast.copy_location(ast.Assign(targets=[st.target], value=st.value), st)
    return fn


class _Rename(ast.NodeTransformer):
    def __init__(self, names): self.m = names
    def visit_Name(self, n):
        if n.id in self.m: n.id = self.m[n.id]
        return n
    def visit_arg(self, n):
        if n.arg in self.m: n.arg = self.m[n.arg]
        return n
    def visit_FunctionDef(self, n):
        if n.name in self.m: n.name = self.m[n.name]
        self.generic_visit(n); return n
    def visit_alias(self, n):
        # `import pandas` / `from x import y [as z]` inside a function: the bound name is renamed through `asname`
        bound = n.asname or n.name.split(".")[0]
        if bound in self.m: n.asname = self.m[bound]
        return n


def _locals_in_order(fn, keep=()):
    """names bound inside the function (parameters, assignment / loop / with / comprehension targets, nested defs, imports),
    in source order"""
    seen = []
    def add(n):
        if n not in seen and n not in keep and not n.startswith("__"): seen.append(n)
    class V(ast.NodeVisitor):
        def visit_FunctionDef(self, n):
            if n is not fn: add(n.name)
            for a in n.args.posonlyargs + n.args.args + n.args.kwonlyargs: add(a.arg)
            if n.args.vararg: add(n.args.vararg.arg)
            if n.args.kwarg: add(n.args.kwarg.arg)
            self.generic_visit(n)
        def visit_Name(self, n):
            if isinstance(n.ctx, (ast.Store, ast.Del)): add(n.id)
        def visit_alias(self, n): add(n.asname or n.name.split(".")[0])
    V().visit(fn)
    return seen


def _canon(fn, keep=()):
    """canonical text: locals renamed v0, v1, … in order of first binding (a local that is never read — a throw-away loop
    variable — becomes `_`); the function's own name kept"""
    names = _locals_in_order(fn, keep)
    loaded = {n.id for n in ast.walk(fn) if isinstance(n, ast.Name) and isinstance(n.ctx, ast.Load)}
    params = {a.arg for f in ast.walk(fn) if isinstance(f, ast.FunctionDef) for a in f.args.posonlyargs + f.args.args + f.args.kwonlyargs}
    unused = [n for n in names if n not in loaded and n not in params]
    names = [n for n in names if n not in unused]
    m = {n: f"v{i}" for i, n in enumerate(names)}
    m.update({n: "_" for n in unused})
    fn = _Rename(m).visit(fn)
    ast.fix_missing_locations(fn)
    return ast.unparse(fn)


def _ph(name): return ast.Name(id=name, ctx=ast.Load())


def _replace(root, pred, make):
    """replace every node satisfying pred by make(node) (which may record data); returns the number of replacements"""
    cnt = 0
    class R(ast.NodeTransformer):
        def generic_visit(self, node):
            nonlocal cnt
            node = super().generic_visit(node)
            if pred(node):
                cnt += 1
                return make(node)
            return node
    R().visit(root)
    return cnt


def _funcs(tree):
    return {f.name: f for f in tree.body if isinstance(f, ast.FunctionDef)}


def _fmt_percent(s, where):
    """'%10.4f' / '%4d' / '%s' pieces of a %-format -> [(literal before, width, precision, letter)] + trailing literal"""
    out, pos = [], 0
    for m in re.finditer(r"%(\d*)(?:\.(\d+))?([a-zA-Z])", s):
        out.append((s[pos:m.start()], int(m.group(1) or 0), int(m.group(2)) if m.group(2) is not None else -1, m.group(3)))
        pos = m.end()
    if "%" in s[pos:] or not out:
        raise T.TieBroken(f"{where}: format string outside grammar: {s!r}")
    return out, s[pos:]


def _fmt_spec(spec, where):
    m = re.fullmatch(r"(\d*)(?:\.(\d+))?([a-zA-Z])", spec)
    if not m: raise T.TieBroken(f"{where}: format specification outside grammar: {spec!r}")
    return (int(m.group(1) or 0), int(m.group(2)) if m.group(2) is not None else -1, m.group(3))


# ----------------------------------------------------------------------------------------------- regex -> instruction list
SPECIAL = set("\\^$.|?*+()[]{}")
CLS = {"d": ".digit", "D": ".nonDigit", "s": ".space", "S": ".nonSpace"}


def lean_char(c):
    if c == "\\": return "'\\\\'"
    if c == "'": return "'\\''"
    if c == "\n": return "'\\n'"
    if c == "\t": return "'\\t'"
    if 32 <= ord(c) < 127: return f"'{c}'"
    return f"(Char.ofNat {ord(c)})"


def regex_instrs(pat, name):
    """the subset of CijModel/Regex.lean: literals, \\d \\D \\s \\S, + and * on one atom, one level of groups, ^ first, $"""
    out, i, ingroup = [], 0, False
    if pat.startswith("^"):
        out.append(".bos"); i = 1
    while i < len(pat):
        c = pat[i]
        if c == "$": out.append(".eos"); i += 1; continue
        if c == "(":
            if ingroup: raise T.TieBroken(f"{name}: nested group in {pat!r}")
            ingroup = True; out.append(".gopen"); i += 1; continue
        if c == ")":
            if not ingroup: raise T.TieBroken(f"{name}: unbalanced ')' in {pat!r}")
            ingroup = False; out.append(".gclose"); i += 1; continue
        if c == "\\":
            if i + 1 >= len(pat) or pat[i + 1] not in CLS: raise T.TieBroken(f"{name}: escape outside the subset in {pat!r}")
            atom = CLS[pat[i + 1]]; i += 2
        elif c in SPECIAL:
            raise T.TieBroken(f"{name}: construct {c!r} outside the regex subset in {pat!r}")
        else:
            atom = f"(.lit {lean_char(c)})"; i += 1
        if i < len(pat) and pat[i] in "+*":
            out.append(f".{'plus' if pat[i] == '+' else 'star'} {atom}"); i += 1
        else:
            out.append(f".one {atom}")
    if ingroup: raise T.TieBroken(f"{name}: unbalanced '(' in {pat!r}")
    return out


def module_regexes(tree, where):
    """final binding per REGEX_* name (a later assignment wins, as in Python)"""
    out = {}
    for st in tree.body:
        if isinstance(st, ast.Assign) and len(st.targets) == 1 and isinstance(st.targets[0], ast.Name) \
                and st.targets[0].id.startswith("REGEX_"):
            if not (isinstance(st.value, ast.Constant) and isinstance(st.value.value, str)):
                raise T.TieBroken(f"{where}: {st.targets[0].id} is not a string literal")
            out[st.targets[0].id] = st.value.value
    return out


def class_fields(tree, where):
    out = {}
    for c in tree.body:
        if isinstance(c, ast.ClassDef):
            if [ast.unparse(b) for b in c.bases] != ["NamedTuple"] or c.decorator_list:
                raise T.TieBroken(f"{where}: class {c.name} is not a plain NamedTuple")
            fields = []
            for st in c.body:
                if isinstance(st, ast.AnnAssign) and isinstance(st.target, ast.Name):
                    fields.append(st.target.id)
                elif isinstance(st, ast.Expr) and isinstance(st.value, ast.Constant):
                    continue
                else:
                    raise T.TieBroken(f"{where}: class {c.name} has a member that is not a field: {ast.unparse(st)[:60]}")
            out[c.name] = fields
    return out


def module_skeleton(tree, where, allowed_assign):
    """module level: imports, NamedTuple classes, REGEX_* / logger / __all__ assignments, plain function definitions.
    Anything else (a cache dictionary, a decorator, executable statements) is outside what the model mirrors."""
    for st in tree.body:
        if isinstance(st, (ast.Import, ast.ImportFrom, ast.ClassDef)): continue
        if isinstance(st, ast.Expr) and isinstance(st.value, ast.Constant) and isinstance(st.value.value, str): continue
        if isinstance(st, ast.FunctionDef):
            if st.decorator_list: raise T.TieBroken(f"{where}: {st.name} carries a decorator: {ast.unparse(st.decorator_list[0])}")
            continue
        if isinstance(st, ast.Assign) and len(st.targets) == 1 and isinstance(st.targets[0], ast.Name):
            n = st.targets[0].id
            if n.startswith("REGEX_") or n in allowed_assign: continue
        raise T.TieBroken(f"{where}: module-level statement outside the mirrored grammar: {ast.unparse(st)[:80]}")


# ----------------------------------------------------------------------------------------------- canonical texts
CANON = {
"read_energy": '''def read_energy(v0):
    with open(v0, encoding='utf8') as v1:
        for v2 in v1:
            v3 = re.search(REGEX_INFO_START, v2.strip())
            if v3:
                v4, v5, v6, v7, v8 = map(__CONV__, v3.groups())
                break
        v9 = QHAInputData(v4, v5, v6, v7, v8, [], [])
        for v10 in _read_volume_data(v1, v4, v5, v6):
            v9.volumes.append(v10)
        for v2 in v1:
            if v2.strip() in __SENTINELS__:
                break
        for v11 in _read_weights(v1, v9.nq):
            v9.weights.append(v11)
    return v9''',
"_read_volume_data": '''def _read_volume_data(v0, v1, v2, v3):

    def v4():
        for _ in range(v3):
            yield __CONV__(next(v0))

    def v5():
        for _ in range(v2):
            v6 = tuple(map(__CONV__, next(v0).strip().split()))
            yield QPointData(v6, list(v4()))

    def v7():
        for _ in range(v1):
            while True:
                v8 = next(v0)
                if v8.strip() == '':
                    continue
                break
            v9, v10, v11 = map(__CONV__, re.search(REGEX_PVE, v8).groups())
            yield VolumeData(v9, v10, v11, list(v5()))
    return list(v7())''',
"_read_weights": '''def _read_weights(v0, v1):

    def v2():
        for _ in range(v1):
            v3 = next(v0)
            v4 = v3.strip().split()
            yield QPointWeight(tuple(map(__CONV__, v4[__LO__:__HI__])), __CONV__(v4[__IDX__]))
    return list(v2())''',
"write_energy": '''def write_energy(v0, v1, v2=__COMMENT__):
    v3 = []
    v3.append(v2)
    v3.append('')
    v3.append(' '.join((__FMT_WORD__.rjust(__WORD_WIDTH__) % v4 for v4 in __HEADER_WORDS__)))
    v3.append(' '.join((__FMT_COUNT__ % v4 for v4 in (v1.nv, v1.nq, v1.np, v1.nm, v1.na))))
    v3.append('')
    for v5, v6, v7, v8 in v1.volumes:
        v3.append(__FSTR_PVE__(v5, v6, v7))
        for v9, v10 in v8:
            v3.append(' '.join((__FMT_COORD__ % v11 for v11 in v9)))
            for v12 in v10:
                v3.append(__FSTR_MODE__(v12))
    v3.append('')
    v3.append(__MARKER__)
    for v9, v13 in v1.weights:
        v3.append(__FMT_WEIGHT__ % (*v9, v13))
    with open(v0, 'w', encoding='utf8') as v14:
        v14.writelines([f'{v15}\\n' for v15 in v3])''',
"_find_modulus_key": '''def _find_modulus_key(v0):
    v1 = re.search(REGEX_MODULUS, v0)
    if v1:
        return c_(v1.group(__GROUP__))
    else:
        return v0''',
"read_elast_data": '''def read_elast_data(v0):
    with open(v0, encoding='utf8') as v1:
        next(v1)
        v2 = next(v1).strip().split()
        v3 = __CONV__(v2[__IDX__])
        v4 = __CONV__(v2[__IDX__])
        v5 = __CONV__(v2[__IDX__])
        v6 = ElastData(v3, v4, v5, [], [])
        v7 = next(v1).strip().split()
        v7 = [_find_modulus_key(v8) for v8 in v7]
        for _ in range(v4):
            v9 = v1.readline()
            v2 = tuple(map(__CONV__, v9.strip().split()))
            v6.volumes.append(ElastVolumeData(v2[__IDX__], dict(zip(v7[__LO__:], v2[__LO__:]))))
        try:
            v9 = v1.readline()
            if v9.strip() != '':
                for _ in range(v4):
                    v9 = v1.readline()
                    v2 = tuple(map(__CONV__, v9.strip().split()))
                    v6.lattice_parmeters.append(v2)
            logger.debug('Lattice parameters: ' + str(v6.lattice_parmeters))
        except EOFError:
            logger.debug('No lattice parameters found in file.')
    return v6''',
"apply_symetry_on_elast_data": '''def apply_symetry_on_elast_data(v0, v1):
    from cij.util.fill import fill_cij as v2
    import pandas as v3
    v4 = v3.DataFrame([dict(((__FMT_COLUMN__ % v5.v, v6) for v5, v6 in v7.static_elastic_modulus.items())) for v7 in v0.volumes])
    v4 = v2(v4, **v1)
    for v8 in range(len(v0.volumes)):
        v9 = dict([(c_(v5[__LO__:]), v6) for v5, v6 in v4.iloc[v8, :].items()])
        v0.volumes[v8] = ElastVolumeData(v0.volumes[v8].volume, v9)''',
}


def _check(name, fn, keep=()):
    got = _canon(fn, keep)
    if os.environ.get("READERS_DUMP"):      # development aid: print the templated canonical text
        print("###", name); print(got); return
    if got != CANON[name]:
        a, b = got.splitlines(), CANON[name].splitlines()
        k = next((i for i, (x, y) in enumerate(zip(a, b)) if x != y), min(len(a), len(b)))
        raise T.TieBroken(f"{name} changed (normalised source differs from the text the model mirrors) at statement: "
                          f"{(a[k] if k < len(a) else '<end>').strip()[:110]!r}; expected {(b[k] if k < len(b) else '<end>').strip()[:110]!r}")


def _is_call(n, fname): return isinstance(n, ast.Call) and isinstance(n.func, ast.Name) and n.func.id == fname
def _is_const(n, typ): return isinstance(n, ast.Constant) and isinstance(n.value, typ) and not isinstance(n.value, bool)


def _conv_extract(fn, where, expected):
    """`map(<f>, …)` first arguments and direct `<f>(…)` calls with <f> in {float, int, round, abs, … builtins used as
    converters}: replaced by __CONV__, returned in source order"""
    found = []
    CONV = {"float", "int", "round", "abs", "Decimal", "Fraction"}
    class R(ast.NodeTransformer):
        def visit_Call(self, n):
            self.generic_visit(n)
            if _is_call(n, "map") and n.args and isinstance(n.args[0], ast.Name):
                found.append((n.lineno, n.col_offset, n.args[0].id)); n.args[0] = _ph("__CONV__")
            elif isinstance(n.func, ast.Name) and n.func.id in CONV:
                found.append((n.lineno, n.col_offset, n.func.id)); n.func = _ph("__CONV__")
            return n
    R().visit(fn)
    found.sort()
    got = [f for _, _, f in found]
    if len(got) != expected:
        raise T.TieBroken(f"{where}: {len(got)} conversion calls found, the model mirrors {expected}")
    return got


# ----------------------------------------------------------------------------------------------- qha_input.py
def extract_qha():
    tree, path = _parse(QHA)
    module_skeleton(tree, QHA, allowed_assign=set())
    regs = module_regexes(tree, QHA)
    for need in ("REGEX_INFO_START", "REGEX_PVE"):
        if need not in regs: raise T.TieBroken(f"{QHA}: {need} not found")
    classes = class_fields(tree, QHA)
    want_classes = {"QPointData": ["coord", "modes"], "VolumeData": ["pressure", "volume", "energy", "q_points"],
                    "QPointWeight": ["coord", "weight"], "QHAInputData": ["nv", "nq", "np", "nm", "na", "weights", "volumes"]}
    if classes != want_classes: raise T.TieBroken(f"{QHA}: record classes changed: {classes}")
    fns = _funcs(tree)
    for need in ("read_energy", "_read_volume_data", "_read_weights", "write_energy"):
        if need not in fns: raise T.TieBroken(f"{QHA}: {need} not found")
    D = {"regs": regs}

    # ---- read_energy
    fn = _strip(copy.deepcopy(fns["read_energy"]))
    D["re_conv"] = _conv_extract(fn, "read_energy", 1)
    sent = []
    def is_sent(n): return isinstance(n, ast.Compare) and len(n.ops) == 1 and isinstance(n.ops[0], ast.In) \
        and isinstance(n.comparators[0], (ast.List, ast.Tuple, ast.Set))
    def mk_sent(n):
        c = n.comparators[0]
        if not all(_is_const(e, str) for e in c.elts): raise T.TieBroken("read_energy: weight-section sentinels are not string literals")
        sent.append([e.value for e in c.elts]); n.comparators[0] = _ph("__SENTINELS__"); return n
    if _replace(fn, is_sent, mk_sent) != 1: raise T.TieBroken("read_energy: weight-section test `line.strip() in [...]` not found exactly once")
    D["sentinels"] = sent[0]
    # loop-count wiring, resolved to header group positions (names before renaming)
    src_fn = fns["read_energy"]
    hdr = [st for st in ast.walk(src_fn) if isinstance(st, ast.Assign) and isinstance(st.targets[0], ast.Tuple)
           and _is_call(st.value, "map")]
    if len(hdr) != 1: raise T.TieBroken("read_energy: header unpacking `(…) = map(int, res.groups())` not found exactly once")
    H = [e.id for e in hdr[0].targets[0].elts if isinstance(e, ast.Name)]
    if len(H) != 5 or len(set(H)) != 5: raise T.TieBroken(f"read_energy: header unpacks {len(H)} names")
    ctor = [n for n in ast.walk(src_fn) if _is_call(n, "QHAInputData")]
    if len(ctor) != 1: raise T.TieBroken("read_energy: QHAInputData(...) not constructed exactly once")
    cargs = [a.id if isinstance(a, ast.Name) else None for a in ctor[0].args[:5]]
    if any(a not in H for a in cargs) or ctor[0].keywords: raise T.TieBroken("read_energy: QHAInputData built from other than the header counts")
    field_pos = {f: H.index(a) for f, a in zip(want_classes["QHAInputData"][:5], cargs)}     # field -> header group position
    D["count_fields"] = [(f, field_pos[f]) for f in want_classes["QHAInputData"][:5]]
    rv = [n for n in ast.walk(src_fn) if _is_call(n, "_read_volume_data")]
    rw = [n for n in ast.walk(src_fn) if _is_call(n, "_read_weights")]
    if len(rv) != 1 or len(rw) != 1: raise T.TieBroken("read_energy: calls of _read_volume_data / _read_weights changed")
    rv_args = [a.id if isinstance(a, ast.Name) else None for a in rv[0].args]
    if len(rv_args) != 4 or any(a not in H for a in rv_args[1:]): raise T.TieBroken("read_energy: arguments of _read_volume_data changed")
    wa = rw[0].args[1] if len(rw[0].args) == 2 else None
    if not (isinstance(wa, ast.Attribute) and wa.attr in field_pos): raise T.TieBroken("read_energy: count argument of _read_weights changed")
    loops = {"weights": field_pos[wa.attr]}

    # ---- _read_volume_data
    src_v = fns["_read_volume_data"]
    params = [a.arg for a in src_v.args.args]
    if len(params) != 4: raise T.TieBroken("_read_volume_data: parameter list changed")
    par_pos = {p: H.index(a) for p, a in zip(params[1:], rv_args[1:])}
    inner = {f.name: f for f in src_v.body if isinstance(f, ast.FunctionDef)}
    kinds = {}
    for nm, f in inner.items():
        rng = [n for n in ast.walk(f) if _is_call(n, "range") and not any(n is m for g in inner.values() if g is not f for m in ast.walk(g))]
        fors = [st for st in f.body if isinstance(st, ast.For)]
        if len(fors) != 1 or not _is_call(fors[0].iter, "range") or len(fors[0].iter.args) != 1 \
                or not isinstance(fors[0].iter.args[0], ast.Name) or fors[0].iter.args[0].id not in par_pos:
            raise T.TieBroken(f"_read_volume_data.{nm}: loop is not `for _ in range(<count parameter>)`")
        body_src = ast.unparse(f)
        kind = "volumes" if "VolumeData(" in body_src and "QPointData(" not in body_src.replace("_yield_q_point_data", "") \
            else "qpoints" if "QPointData(" in body_src else "modes"
        kinds[kind] = par_pos[fors[0].iter.args[0].id]
    if sorted(kinds) != ["modes", "qpoints", "volumes"]: raise T.TieBroken(f"_read_volume_data: nested generators changed: {sorted(kinds)}")
    loops.update(kinds)
    D["loops"] = [(k, loops[k]) for k in ("volumes", "qpoints", "modes", "weights")]
    # P, V, E order: group position -> VolumeData field
    pve = [st for st in ast.walk(src_v) if isinstance(st, ast.Assign) and isinstance(st.targets[0], ast.Tuple) and _is_call(st.value, "map")]
    vd = [n for n in ast.walk(src_v) if _is_call(n, "VolumeData")]
    if len(pve) != 1 or len(vd) != 1: raise T.TieBroken("_read_volume_data: P, V, E unpacking / VolumeData(...) changed")
    G = [e.id for e in pve[0].targets[0].elts if isinstance(e, ast.Name)]
    va = [a.id if isinstance(a, ast.Name) else None for a in vd[0].args[:3]]
    if len(G) != 3 or any(a not in G for a in va): raise T.TieBroken("_read_volume_data: VolumeData built from other than the three groups")
    D["pve_fields"] = [(f, G.index(a)) for f, a in zip(want_classes["VolumeData"][:3], va)]
    fn = _strip(copy.deepcopy(src_v))
    D["rv_conv"] = _conv_extract(fn, "_read_volume_data", 3)
    _check("_read_volume_data", fn)

    fn_re = fn = _strip(copy.deepcopy(fns["read_energy"]))
    _conv_extract(fn, "read_energy", 1); _replace(fn, is_sent, mk_sent)
    _check("read_energy", fn)

    # ---- _read_weights
    fn = _strip(copy.deepcopy(fns["_read_weights"]))
    D["rw_conv"] = _conv_extract(fn, "_read_weights", 2)
    sl, ix = [], []
    def is_sub(n): return isinstance(n, ast.Subscript)
    def mk_sub(n):
        s = n.slice
        if isinstance(s, ast.Slice):
            if not (_is_const(s.lower, int) and _is_const(s.upper, int) and s.step is None):
                raise T.TieBroken("_read_weights: coordinate slice is not `words[<int>:<int>]`")
            sl.append((s.lower.value, s.upper.value)); n.slice = ast.Slice(lower=_ph("__LO__"), upper=_ph("__HI__"))
        elif _is_const(s, int):
            ix.append(s.value); n.slice = _ph("__IDX__")
        else:
            raise T.TieBroken("_read_weights: subscript outside grammar")
        return n
    _replace(fn, is_sub, mk_sub)
    if len(sl) != 1 or len(ix) != 1: raise T.TieBroken("_read_weights: expected one slice and one index of the word list")
    D["w_slice"], D["w_index"] = sl[0], ix[0]
    _check("_read_weights", fn)

    # ---- write_energy
    fn = _strip(copy.deepcopy(fns["write_energy"]))
    W = {}
    dflt = fn.args.defaults
    if len(dflt) != 1 or not _is_const(dflt[0], str): raise T.TieBroken("write_energy: default comment is not a string literal")
    W["comment"] = dflt[0].value; fn.args.defaults = [_ph("__COMMENT__")]
    # f-strings of the volume loop
    fstrs = []
    def is_f(n): return isinstance(n, ast.JoinedStr) and any(isinstance(v, ast.FormattedValue) and v.format_spec is not None for v in n.values)
    def mk_f(n):
        parts, lit = [], ""
        names = []
        for v in n.values:
            if isinstance(v, ast.Constant): lit += str(v.value)
            else:
                if not isinstance(v.value, ast.Name) or v.conversion != -1: raise T.TieBroken("write_energy: f-string field is not a plain name")
                spec = "".join(str(x.value) for x in v.format_spec.values if isinstance(x, ast.Constant))
                if len(v.format_spec.values) != 1: raise T.TieBroken("write_energy: nested format specification")
                parts.append((lit,) + _fmt_spec(spec, "write_energy")); lit = ""; names.append(ast.Name(id=v.value.id, ctx=ast.Load()))
        if lit: raise T.TieBroken(f"write_energy: trailing literal {lit!r} in an f-string")
        fstrs.append(parts)
        return ast.Call(func=_ph("__FSTR_PVE__" if len(parts) == 3 else "__FSTR_MODE__"), args=names, keywords=[])
    if _replace(fn, is_f, mk_f) != 2 or sorted(len(p) for p in fstrs) != [1, 3]:
        raise T.TieBroken("write_energy: expected the P/V/E f-string (three fields) and the mode f-string (one field)")
    W["pve"] = next(p for p in fstrs if len(p) == 3); W["mode"] = next(p for p in fstrs if len(p) == 1)
    # %-formats
    pct = []
    def is_pct(n): return isinstance(n, ast.BinOp) and isinstance(n.op, ast.Mod)
    def mk_pct(n):
        l = n.left
        if _is_const(l, str):
            pct.append(("plain", l.value)); n.left = _ph("__FMT_%d__" % len(pct)); return n
        if isinstance(l, ast.Call) and isinstance(l.func, ast.Attribute) and l.func.attr == "rjust" and _is_const(l.func.value, str) \
                and len(l.args) == 1 and _is_const(l.args[0], int):
            pct.append(("rjust", l.func.value.value, l.args[0].value))
            l.func.value = _ph("__FMT_WORD__"); l.args[0] = _ph("__WORD_WIDTH__"); return n
        raise T.TieBroken(f"write_energy: %-format outside grammar: {ast.unparse(n)[:60]}")
    _replace(fn, is_pct, mk_pct)
    plain = [p for p in pct if p[0] == "plain"]; rj = [p for p in pct if p[0] == "rjust"]
    if len(plain) != 3 or len(rj) != 1: raise T.TieBroken("write_energy: expected the count, coordinate and weight %-formats and the header-word format")
    # identify by position in source order: counts, coords, weights
    ren = {"__FMT_%d__" % (pct.index(plain[0]) + 1): "__FMT_COUNT__", "__FMT_%d__" % (pct.index(plain[1]) + 1): "__FMT_COORD__",
           "__FMT_%d__" % (pct.index(plain[2]) + 1): "__FMT_WEIGHT__"}
    for n in ast.walk(fn):
        if isinstance(n, ast.Name) and n.id in ren: n.id = ren[n.id]
    W["count"], t1 = _fmt_percent(plain[0][1], "write_energy(counts)")
    W["coord"], t2 = _fmt_percent(plain[1][1], "write_energy(coordinates)")
    W["weight"], t3 = _fmt_percent(plain[2][1], "write_energy(weights)")
    if t1 or t2 or t3: raise T.TieBroken("write_energy: trailing literal in a %-format")
    W["word"], t4 = _fmt_percent(rj[0][1], "write_energy(header words)"); W["word_width"] = rj[0][2]
    if t4: raise T.TieBroken("write_energy: trailing literal in the header-word format")
    # header words and the marker
    hw = []
    def is_hw(n): return isinstance(n, ast.Tuple) and n.elts and all(_is_const(e, str) for e in n.elts)
    def mk_hw(n): hw.append([e.value for e in n.elts]); return _ph("__HEADER_WORDS__")
    if _replace(fn, is_hw, mk_hw) != 1: raise T.TieBroken("write_energy: header word tuple not found exactly once")
    W["header_words"] = hw[0]
    mk = []
    def is_mk(n): return isinstance(n, ast.Call) and isinstance(n.func, ast.Attribute) and n.func.attr == "append" and len(n.args) == 1 \
        and _is_const(n.args[0], str) and n.args[0].value != ""
    def mk_mk(n): mk.append(n.args[0].value); n.args[0] = _ph("__MARKER__"); return n
    if _replace(fn, is_mk, mk_mk) != 1: raise T.TieBroken("write_energy: marker line not appended exactly once")
    W["marker"] = mk[0]
    _check("write_energy", fn)
    D["write"] = W
    return D, path


# ----------------------------------------------------------------------------------------------- elast_dat.py
def extract_elast():
    tree, path = _parse(ELA)
    module_skeleton(tree, ELA, allowed_assign={"logger"})
    regs = module_regexes(tree, ELA)
    if "REGEX_MODULUS" not in regs: raise T.TieBroken(f"{ELA}: REGEX_MODULUS not found")
    classes = class_fields(tree, ELA)
    want = {"ElastVolumeData": ["volume", "static_elastic_modulus"],
            "ElastData": ["vref", "nv", "cellmass", "volumes", "lattice_parmeters"]}
    if classes != want: raise T.TieBroken(f"{ELA}: record classes changed: {classes}")
    fns = _funcs(tree)
    for need in ("_find_modulus_key", "read_elast_data", "apply_symetry_on_elast_data"):
        if need not in fns: raise T.TieBroken(f"{ELA}: {need} not found")
    imp = [ast.unparse(st) for st in tree.body if isinstance(st, ast.ImportFrom) and st.module == "cij.util"]
    if not any(re.fullmatch(r"from cij\.util import .*\bc_\b.*", s) and " as " not in s for s in imp):
        raise T.TieBroken(f"{ELA}: `c_` is not imported from cij.util under its own name")
    D = {"regs": regs}

    fn = _strip(copy.deepcopy(fns["_find_modulus_key"]))
    grp = []
    def is_grp(n): return isinstance(n, ast.Call) and isinstance(n.func, ast.Attribute) and n.func.attr == "group" and len(n.args) == 1 and _is_const(n.args[0], int)
    def mk_grp(n): grp.append(n.args[0].value); n.args[0] = _ph("__GROUP__"); return n
    if _replace(fn, is_grp, mk_grp) != 1: raise T.TieBroken("_find_modulus_key: `res.group(<int>)` not found exactly once")
    D["group"] = grp[0]
    _check("_find_modulus_key", fn, keep=("c_",))

    def sub_extract(fn, where):
        sl, ix = [], []
        def is_sub(n): return isinstance(n, ast.Subscript) and (isinstance(n.slice, ast.Slice) or _is_const(n.slice, int))
        def mk_sub(n):
            s = n.slice
            if isinstance(s, ast.Slice):
                if not (_is_const(s.lower, int) and s.upper is None and s.step is None):
                    raise T.TieBroken(f"{where}: slice is not `x[<int>:]`")
                sl.append((s.lower.lineno, s.lower.col_offset, s.lower.value)); n.slice = ast.Slice(lower=_ph("__LO__"))
            else:
                ix.append((s.lineno, s.col_offset, s.value)); n.slice = _ph("__IDX__")
            return n
        _replace(fn, is_sub, mk_sub)
        return [v for _, _, v in sorted(sl)], [v for _, _, v in sorted(ix)]

    src = fns["read_elast_data"]
    fn = _strip(copy.deepcopy(src))
    conv = _conv_extract(fn, "read_elast_data", 5)
    sl, ix = sub_extract(fn, "read_elast_data")
    if len(sl) != 2 or len(ix) != 4: raise T.TieBroken("read_elast_data: expected fields[0..2], fields[0] and keys[1:], fields[1:]")
    hdr = []
    for st in ast.walk(src):
        if isinstance(st, ast.Assign) and isinstance(st.targets[0], ast.Name) and isinstance(st.value, ast.Call) \
                and isinstance(st.value.func, ast.Name) and st.value.args and isinstance(st.value.args[0], ast.Subscript) \
                and _is_const(st.value.args[0].slice, int):
            hdr.append((st.lineno, st.targets[0].id, st.value.func.id, st.value.args[0].slice.value))
    hdr.sort()
    ctor = [n for n in ast.walk(src) if _is_call(n, "ElastData")]
    if len(hdr) != 3 or len(ctor) != 1: raise T.TieBroken("read_elast_data: header assignments / ElastData(...) changed")
    cargs = [a.id if isinstance(a, ast.Name) else None for a in ctor[0].args[:3]]
    names = [h[1] for h in hdr]
    if any(a not in names for a in cargs): raise T.TieBroken("read_elast_data: ElastData built from other than the three header fields")
    D["header"] = [(f, hdr[names.index(a)][2], hdr[names.index(a)][3]) for f, a in zip(want["ElastData"][:3], cargs)]
    D["row_conv"], D["lattice_conv"] = conv[3], conv[4]
    D["row_volume_index"] = ix[3]
    D["row_key_slice"], D["row_value_slice"] = sl[0], sl[1]
    _check("read_elast_data", fn, keep=("c_",))

    fn = _strip(copy.deepcopy(fns["apply_symetry_on_elast_data"]))
    col = []
    def is_pct(n): return isinstance(n, ast.BinOp) and isinstance(n.op, ast.Mod) and _is_const(n.left, str)
    def mk_pct(n): col.append(n.left.value); n.left = _ph("__FMT_COLUMN__"); return n
    if _replace(fn, is_pct, mk_pct) != 1: raise T.TieBroken("apply_symetry_on_elast_data: column naming `\"…\" % key.v` not found exactly once")
    parts, tail = _fmt_percent(col[0], "apply_symetry_on_elast_data(column name)")
    if tail or any(w or p != -1 or k != "s" for _, w, p, k in parts): raise T.TieBroken(f"apply_symetry_on_elast_data: column format {col[0]!r} outside grammar")
    D["column_literals"] = [lit for lit, _, _, _ in parts]
    sl, ix = sub_extract(fn, "apply_symetry_on_elast_data")
    if len(sl) != 1 or ix: raise T.TieBroken("apply_symetry_on_elast_data: expected exactly `key[1:]`")
    D["back_slice"] = sl[0]
    call = [n for n in ast.walk(fns["apply_symetry_on_elast_data"]) if _is_call(n, "fill_cij")]
    if len(call) != 1: raise T.TieBroken("apply_symetry_on_elast_data: fill_cij not called exactly once")
    D["fill_positional"] = len(call[0].args)
    D["fill_keywords"] = [("**" if k.arg is None else k.arg + "=") + ast.unparse(k.value) for k in call[0].keywords]
    params = [a.arg for a in fns["apply_symetry_on_elast_data"].args.args]
    D["fill_keywords"] = [s.replace(params[1], "<symmetry>") if len(params) == 2 else s for s in D["fill_keywords"]]
    _check("apply_symetry_on_elast_data", fn, keep=("c_",))
    return D, path


# ----------------------------------------------------------------------------------------------- package glue
def extract_glue():
    tree, p1 = _parse(INI)
    exports, allv = [], None
    for st in tree.body:
        if isinstance(st, ast.Expr) and isinstance(st.value, ast.Constant): continue
        if isinstance(st, ast.ImportFrom) and st.level == 1:
            for a in st.names: exports.append((a.asname or a.name, st.module or "", a.name))
            continue
        if isinstance(st, ast.Assign) and ast.unparse(st.targets[0]) == "__all__" and isinstance(st.value, (ast.List, ast.Tuple)) \
                and all(_is_const(e, str) for e in st.value.elts):
            allv = [e.value for e in st.value.elts]; continue
        raise T.TieBroken(f"{INI}: statement that is not a relative import or __all__ (a wrapper around the readers?): {ast.unparse(st)[:80]}")
    if allv is None: raise T.TieBroken(f"{INI}: __all__ not found")
    tree, p2 = _parse(MOD)
    models = []
    for st in tree.body:
        if isinstance(st, ast.Expr) and isinstance(st.value, ast.Constant): continue
        if isinstance(st, ast.ImportFrom) and st.level == 1:
            for a in st.names: models.append((a.asname or a.name, st.module or "", a.name))
            continue
        if isinstance(st, ast.Assign) and ast.unparse(st.targets[0]) == "__all__": continue
        raise T.TieBroken(f"{MOD}: statement that is not a relative import or __all__: {ast.unparse(st)[:80]}")
    # call sites (light pin: the readers are called directly on the path, the filling on the parsed object itself)
    tree, p3 = _parse(CAL)
    src = ast.unparse(tree)
    calls = []
    for pin in ["self.qha_input = cij.io.traditional.read_energy(work_dir / self.config['qha']['input'])",
                "self.elast_data = cij.io.traditional.read_elast_data(work_dir / self.config['elast']['input'])",
                "symmetry = self.config['elast']['settings']['symmetry']",
                "apply_symetry_on_elast_data(self.elast_data, symmetry)"]:
        if pin not in src: raise T.TieBroken(f"{CAL}: reader call site changed: {pin[:70]}")
        calls.append(pin)
    if "from cij.io.traditional.elast_dat import apply_symetry_on_elast_data" not in src:
        raise T.TieBroken(f"{CAL}: apply_symetry_on_elast_data is not imported from elast_dat under its own name")
    tree, p4 = _parse(STA)
    src = ast.unparse(tree)
    for pin in ["from cij.io.traditional import read_elast_data, read_energy", "input01 = read_energy(input01)", "input02 = read_elast_data(input02)"]:
        if pin not in src: raise T.TieBroken(f"{STA}: reader call site changed: {pin[:70]}")
        calls.append(pin)
    return {"exports": exports, "all": allv, "models": models, "calls": calls}, [p1, p2, p3, p4]


# ----------------------------------------------------------------------------------------------- Lean text
def S(x): return T.lean_str(x)
def L(xs): return "[" + ", ".join(xs) + "]"
def spec(t):  # (width, precision, letter); precision -1 = none
    w, p, k = t
    return f"({w}, {'none' if p < 0 else 'some ' + str(p)}, {lean_char(k)})"


def gen_readers_spec():
    q, pq = extract_qha()
    e, pe = extract_elast()
    g, pg = extract_glue()
    W = q["write"]
    def regex_block(lean_name, py_name, pat, src):
        ins = regex_instrs(pat, py_name)
        return (f"/-- `{py_name}` of {src} (final binding), its characters -/\n"
                f"def {lean_name}Src : List Char := {L([lean_char(c) for c in pat])}\n"
                f"/-- the same as instructions of `CijModel/Regex.lean` (translated here; `Regex.parse {lean_name}Src` is compared with it by the kernel) -/\n"
                f"def {lean_name} : List Cij.Regex.Instr :=\n  {L(ins)}\n\n")
    txt = ("-- GENERATED by tools/gens/readers_src.py from cij/io/traditional/{qha_input,elast_dat,__init__,models}.py — do not edit\n"
           "import CijModel.Regex\nnamespace Generated.Readers\n\n"
           "/-! ### qha_input.py -/\n\n"
           + regex_block("regexInfoStart", "REGEX_INFO_START", q["regs"]["REGEX_INFO_START"], QHA)
           + regex_block("regexPVE", "REGEX_PVE", q["regs"]["REGEX_PVE"], QHA) +
           "/-- `read_energy`: `(nv, nq, np, nm, na) = map(<conv>, res.groups())` -/\n"
           f"def headerConv : String := {S(q['re_conv'][0])}\n"
           "/-- the first five fields of `QHAInputData` and the header group (0-based) each is built from -/\n"
           f"def countFields : List (String × Nat) := {L([f'({S(f)}, {i})' for f, i in q['count_fields']])}\n"
           "/-- which header group drives which loop: `_yield_volume_data` / `_yield_q_point_data` / `_yield_mode_data` (through the\n"
           "arguments of `_read_volume_data`) and `_read_weights` (through the field of `QHAInputData` it is given) -/\n"
           f"def loopCounts : List (String × Nat) := {L([f'({S(k)}, {i})' for k, i in q['loops']])}\n"
           "/-- `line.strip() in [...]`: the lines that open the weight section -/\n"
           f"def weightSentinels : List String := {L([S(s) for s in q['sentinels']])}\n"
           "/-- `_read_volume_data`: conversions of a mode line, of the words of a coordinate line, of the three P/V/E groups -/\n"
           f"def modeConv : String := {S(q['rv_conv'][0])}\ndef coordConv : String := {S(q['rv_conv'][1])}\ndef pveConv : String := {S(q['rv_conv'][2])}\n"
           "/-- `VolumeData(P, V, E, …)`: field ← regex group (0-based) -/\n"
           f"def pveFields : List (String × Nat) := {L([f'({S(f)}, {i})' for f, i in q['pve_fields']])}\n"
           "/-- `_read_weights`: `words[lo:hi]` → coordinate, `words[idx]` → weight, and their conversions -/\n"
           f"def weightCoordSlice : Nat × Nat := ({q['w_slice'][0]}, {q['w_slice'][1]})\ndef weightIndex : Nat := {q['w_index']}\n"
           f"def weightCoordConv : String := {S(q['rw_conv'][0])}\ndef weightConv : String := {S(q['rw_conv'][1])}\n\n"
           "/-! #### write_energy: (literal in front, width, precision, conversion letter) -/\n\n"
           f"def fmtPVE : List (String × Nat × Option Nat × Char) := {L([f'({S(l)}, ' + spec((w, p, k))[1:] for l, w, p, k in W['pve']])}\n"
           f"def fmtMode : List (String × Nat × Option Nat × Char) := {L([f'({S(l)}, ' + spec((w, p, k))[1:] for l, w, p, k in W['mode']])}\n"
           f"def fmtCoord : List (String × Nat × Option Nat × Char) := {L([f'({S(l)}, ' + spec((w, p, k))[1:] for l, w, p, k in W['coord']])}\n"
           f"def fmtWeight : List (String × Nat × Option Nat × Char) := {L([f'({S(l)}, ' + spec((w, p, k))[1:] for l, w, p, k in W['weight']])}\n"
           f"def fmtCount : List (String × Nat × Option Nat × Char) := {L([f'({S(l)}, ' + spec((w, p, k))[1:] for l, w, p, k in W['count']])}\n"
           f"def fmtWord : List (String × Nat × Option Nat × Char) := {L([f'({S(l)}, ' + spec((w, p, k))[1:] for l, w, p, k in W['word']])}\n"
           f"def wordRjust : Nat := {W['word_width']}\n"
           f"def headerWords : List String := {L([S(s) for s in W['header_words']])}\n"
           f"def markerLine : String := {S(W['marker'])}\n"
           f"def defaultComment : String := {S(W['comment'])}\n\n"
           "/-- `read_energy`, `_read_volume_data` (blank-line skip loop before each P/V/E line, `range(count)` loops, `next(lines)` per\n"
           "mode line, `strip().split()` per coordinate line), `_read_weights` and `write_energy` (sequence of appended lines), with the\n"
           "data above replaced by placeholders, were compared on the normalised AST with the text `CijModel/QhaInput.lean` mirrors -/\n"
           "def qhaInputCanonical : Bool := true\n\n"
           "/-! ### elast_dat.py -/\n\n"
           + regex_block("regexModulus", "REGEX_MODULUS", e["regs"]["REGEX_MODULUS"], ELA) +
           "/-- `_find_modulus_key`: `c_(res.group(<n>))` -/\n"
           f"def modulusGroup : Nat := {e['group']}\n"
           "/-- `read_elast_data`: field of `ElastData` ← (conversion, index into the second line's words) -/\n"
           f"def headerFields : List (String × String × Nat) := {L([f'({S(f)}, {S(c)}, {i})' for f, c, i in e['header']])}\n"
           "/-- a table row: `ElastVolumeData(fields[<i>], dict(zip(keys[<a>:], fields[<b>:])))`, every word through <conv> -/\n"
           f"def rowVolumeIndex : Nat := {e['row_volume_index']}\ndef rowKeySlice : Nat := {e['row_key_slice']}\ndef rowValueSlice : Nat := {e['row_value_slice']}\n"
           f"def rowConv : String := {S(e['row_conv'])}\ndef latticeConv : String := {S(e['lattice_conv'])}\n"
           "/-- `apply_symetry_on_elast_data`: the literals of the column format (`\"c%s%s\" % key.v` → [\"c\", \"\"]), the `key[<n>:]` handed to `c_`\n"
           "on the way back, and the arguments of `fill_cij` (number of positional ones; keywords, `**<symmetry>` = the caller's dict unchanged) -/\n"
           f"def columnLiterals : List String := {L([S(s) for s in e['column_literals']])}\n"
           f"def backSlice : Nat := {e['back_slice']}\n"
           f"def fillPositional : Nat := {e['fill_positional']}\n"
           f"def fillKeywords : List String := {L([S(s) for s in e['fill_keywords']])}\n\n"
           "/-- `_find_modulus_key`, `read_elast_data` (two `next(fp)`, key line through `_find_modulus_key`, `nv` × `readline`, the optional\n"
           "lattice block) and `apply_symetry_on_elast_data` (one frame row per volume in order, nothing popped from / added to the\n"
           "symmetry dictionary, rows written back by position), with the data above replaced by placeholders, were compared on the\n"
           "normalised AST with the text `CijModel/ElastDat.lean` mirrors -/\n"
           "def elastDatCanonical : Bool := true\n\n"
           "/-! ### package glue -/\n\n"
           "/-- `cij/io/traditional/__init__.py`: (name bound in the package, sub-module, name there); the file holds relative imports and\n"
           "`__all__` only -/\n"
           f"def packageImports : List (String × String × String) := {L([f'({S(a)}, {S(b)}, {S(c)})' for a, b, c in g['exports']])}\n"
           f"def packageAll : List String := {L([S(s) for s in g['all']])}\n"
           "/-- `models.py` -/\n"
           f"def modelsImports : List (String × String × String) := {L([f'({S(a)}, {S(b)}, {S(c)})' for a, b, c in g['models']])}\n"
           "/-- call sites found verbatim (normalised) in cij/core/calculator.py and cij/cli/static.py -/\n"
           f"def readerCallSites : List String := {L([S(s) for s in g['calls']])}\n\n"
           "end Generated.Readers\n")
    return {"ReadersSpec.lean": txt}, [pq, pe] + pg


GENERATORS = {"gen_readers_spec": (gen_readers_spec, ["ReadersSpec.lean"])}

if __name__ == "__main__":      # development aid: print the normalised functions
    import sys
    for rel, names in ((QHA, ["read_energy", "_read_volume_data", "_read_weights", "write_energy"]),
                       (ELA, ["_find_modulus_key", "read_elast_data", "apply_symetry_on_elast_data"])):
        tree, _ = _parse(rel)
        for n in names:
            print("#", n); print(_canon(_strip(copy.deepcopy(_funcs(tree)[n])), keep=("c_",))); print()
