"""Translator plug-in: the GLUE of `cij/core/phonon_contribution/nonshear.py` -> lean/Generated/NonShearGlue.lean  (C01, C02)

`gen_tables.gen_nonshear_exprs` / `gen_prefactors` / `gen_qexprs` / `gen_lazydeps` translate the formula bodies (zero_point_contribution,
thermal_contribution, isothermal_to_adiabatic, value_isothermal, value_adiabatic), the mode_gamma wiring, the prefactor denominators,
Q1 / Q2 and the read graph.  This plug-in covers what is around them.  Everything is read with `ast` from the working tree
(`T.REPO`), never imported; docstrings and annotations are stripped first, so comments, blank lines, quoting, line breaks, docstrings
and annotations never matter.

Extracted as DATA / EXPRESSION TREES (consumed by CijProofs/Lemmas/NonShearGlueSource.lean and the `c01_glue_is_source_*` theorems):
  * module `average_over_modes(amount, q_weights)`: the body as a reduction tree  input -> copy -> clear_gamma_point -> numpy.average over
    `axis = dims - k` -> numpy.average with `weights = q_weights` over `axis = dims - k'`
  * module `clear_gamma_point(mat)`: `[slice(None)] * (dims - n) + [row, slice(lo, hi)]`, the assigned value
  * method `average_over_modes(self, amount)`: callee and the source of each argument
  * `q_weights`: the attribute path iterated, the arity of the unpacked tuple, which component is kept, the wrapper
  * `v_array` / `t_array` / `freq_array`: attribute paths;  `__init__`: every `self.<a> = <parameter | self.<path>>`
  * `prefactors` of both classes: the three members as whole expression trees over `self.e[0]`, `self.e[1]`, `numpy.prod(self.e, axis=0)`
  * `mode_gamma` of both classes: the broadcasting subscript applied to each prefactor
  * `Q`: the return expression as a tree over `h_div_k`, `self.freq_array[…]`, `self.t_array[…]`
  * every broadcasting subscript (`[:, nax]`, `[nax, :, :, :]`, …) of every method: (class, method, operand, pattern)
  * every `ret[<rows>, <cols>] = <value>` statement: rows as `numpy.where(self.<path> <op> <literal>)` | fixed index | other
  * module constants `_h`, `_k`, `h_div_k` and every `units.Quantity(v, u).to(u').magnitude`: value, source and target unit monomials
  * class table (bases, methods defined), method resolution of the off-diagonal class (overrides / inherits), decorators, module-level
    assignments with the kind of their value, other module-level statements, nested function definitions
  * the list (class, function, how it is tied) over EVERY function of the module — `TieBroken` if one is not in the table below
"""
import ast
import copy
import os
import warnings

import gen_tables as T

REL = "cij/core/phonon_contribution/nonshear.py"
LONG = "LongitudinalElasticModulusPhononContribution"
OFF = "OffDiagonalElasticModulusPhononContribution"
BASE = "ElasticModulus"
MOD = "<module>"


# ------------------------------------------------------------------------------------------------ normalisation
class _Strip(ast.NodeTransformer):
    def _fn(self, n):
        self.generic_visit(n)
        n.returns = None
        a = n.args
        for x in a.posonlyargs + a.args + a.kwonlyargs + [y for y in (a.vararg, a.kwarg) if y is not None]:
            x.annotation = None
        n.body = _nodoc(n.body)
        return n

    visit_FunctionDef = _fn
    visit_AsyncFunctionDef = _fn

    def visit_ClassDef(self, n):
        self.generic_visit(n)
        n.body = _nodoc(n.body)
        return n

    def visit_AnnAssign(self, n):
        self.generic_visit(n)
        if n.value is None:
            return None
        return ast.copy_location(ast.Assign(targets=[n.target], value=n.value), n)


def _nodoc(body):
    body = [s for s in body if s is not None]
    if body and isinstance(body[0], ast.Expr) and isinstance(body[0].value, ast.Constant) and isinstance(body[0].value.value, str):
        body = body[1:]
    return body or [ast.Pass()]


def src(n):
    return ast.unparse(n) if isinstance(n, ast.AST) else str(n)


def q(s): return T.lean_str(s)
def lstrs(xs): return "[" + ", ".join(q(x) for x in xs) + "]"
def lint(k): return f"({k})" if k < 0 else str(k)
def lbool(b): return "true" if b else "false"


def self_path(n):
    """self.a.b.c -> ['a', 'b', 'c'];  anything else -> None"""
    path = []
    while isinstance(n, ast.Attribute):
        path.append(n.attr); n = n.value
    if isinstance(n, ast.Name) and n.id == "self" and path:
        return path[::-1]
    return None


def int_lit(n):
    if isinstance(n, ast.Constant) and isinstance(n.value, int) and not isinstance(n.value, bool): return n.value
    if isinstance(n, ast.UnaryOp) and isinstance(n.op, ast.USub) and isinstance(n.operand, ast.Constant) \
            and isinstance(n.operand.value, int) and not isinstance(n.operand.value, bool):
        return -n.operand.value
    return None


def nat_lit(n, what):
    k = int_lit(n)
    if k is None or k < 0: raise T.TieBroken(f"{what}: `{src(n)}` is not a non-negative integer literal")
    return k


def decorator_kind(fn):
    ds = [src(d) for d in fn.decorator_list]
    if not ds: return "method"
    if ds == ["property"]: return "property"
    if ds == ["LazyProperty"]: return "LazyProperty"
    return "other:" + ",".join(ds)


def arg_names(fn, what):
    a = fn.args
    if a.posonlyargs or a.kwonlyargs or a.vararg or a.kwarg or a.defaults or a.kw_defaults:
        raise T.TieBroken(f"{what}: signature has defaults / * / ** parameters")
    return [x.arg for x in a.args]


def single_return(fn, what):
    if len(fn.body) != 1 or not isinstance(fn.body[0], ast.Return) or fn.body[0].value is None:
        raise T.TieBroken(f"{what}: body is not a single `return <expr>`: `{src(fn)[:160]}`")
    return fn.body[0].value


# ------------------------------------------------------------------------------------------------ subscripts
def is_nax(e):
    return (isinstance(e, ast.Name) and e.id == "nax") or (isinstance(e, ast.Constant) and e.value is None) \
        or src(e) in ("numpy.newaxis", "np.newaxis")


def ax_item(e):
    if isinstance(e, ast.Slice):
        if e.lower is None and e.upper is None and e.step is None: return ".full"
        return f"(.other {q(src(e))})"
    if is_nax(e): return ".new"
    k = int_lit(e)
    if k is not None: return f"(.idx {lint(k)})"
    return f"(.other {q(src(e))})"


def bcast_pattern(sl):
    """the subscript is a broadcasting pattern (a tuple / single item made of slices and new axes, at least one of them)"""
    elts = sl.elts if isinstance(sl, ast.Tuple) else [sl]
    if any(isinstance(e, ast.Slice) or is_nax(e) for e in elts):
        return "[" + ", ".join(ax_item(e) for e in elts) + "]"
    return None


# ------------------------------------------------------------------------------------------------ module-level average
def tr_average(fn):
    W = "average_over_modes (module level)"
    params = arg_names(fn, W)
    if len(params) != 2: raise T.TieBroken(f"{W}: {len(params)} parameters (expected amount, q_weights)")
    p_amount, p_w = params
    env = {p_amount: ".input"}
    dims = None
    tree = None

    def expr(n):
        if isinstance(n, ast.Name):
            if n.id in env: return env[n.id]
            raise T.TieBroken(f"{W}: `{n.id}` is not the array parameter nor a local array")
        if isinstance(n, ast.Call) and isinstance(n.func, ast.Attribute) and n.func.attr == "copy" and not n.args and not n.keywords:
            return f"(.copy {expr(n.func.value)})"
        if isinstance(n, ast.Call) and src(n.func) in ("numpy.copy", "np.copy") and len(n.args) == 1 and not n.keywords:
            return f"(.copy {expr(n.args[0])})"
        if isinstance(n, ast.Call) and src(n.func) in ("numpy.average", "np.average"):
            if len(n.args) != 1: raise T.TieBroken(f"{W}: `{src(n)[:100]}`: numpy.average with {len(n.args)} positional arguments")
            kw = {k.arg: k.value for k in n.keywords}
            if set(kw) - {"axis", "weights"} or "axis" not in kw:
                raise T.TieBroken(f"{W}: `{src(n)[:100]}`: keywords {sorted(map(str, kw))} (expected axis [, weights])")
            ax = kw["axis"]
            if not (isinstance(ax, ast.BinOp) and isinstance(ax.op, ast.Sub) and isinstance(ax.left, ast.Name) and ax.left.id == dims):
                raise T.TieBroken(f"{W}: axis `{src(ax)}` is not `<len(amount.shape)> - <literal>`")
            k = nat_lit(ax.right, W)
            weighted = False
            if "weights" in kw:
                if not (isinstance(kw["weights"], ast.Name) and kw["weights"].id == p_w):
                    raise T.TieBroken(f"{W}: weights=`{src(kw['weights'])}` is not the parameter `{p_w}` itself")
                weighted = True
            return f"(.average {expr(n.args[0])} {k} {lbool(weighted)})"
        raise T.TieBroken(f"{W}: array expression outside grammar: `{src(n)[:120]}`")

    for st in fn.body:
        if tree is not None: raise T.TieBroken(f"{W}: statement after return: `{src(st)[:80]}`")
        if isinstance(st, ast.Assign) and len(st.targets) == 1 and isinstance(st.targets[0], ast.Name):
            name = st.targets[0].id
            if src(st.value) == f"len({p_amount}.shape)":
                if dims is not None: raise T.TieBroken(f"{W}: rank bound twice")
                dims = name; continue
            if name in (p_amount, p_w, dims): raise T.TieBroken(f"{W}: `{src(st)[:80]}` rebinds a parameter")
            env[name] = expr(st.value); continue
        if isinstance(st, ast.Expr) and isinstance(st.value, ast.Call) and src(st.value.func) == "clear_gamma_point" \
                and len(st.value.args) == 1 and not st.value.keywords and isinstance(st.value.args[0], ast.Name) \
                and st.value.args[0].id in env:
            nm = st.value.args[0].id
            env[nm] = f"(.clear {env[nm]})"; continue
        if isinstance(st, ast.Return) and st.value is not None:
            tree = expr(st.value); continue
        raise T.TieBroken(f"{W}: statement outside grammar: `{src(st)[:120]}`")
    if tree is None: raise T.TieBroken(f"{W}: no return")
    return params, tree


def tr_clear(fn):
    W = "clear_gamma_point"
    params = arg_names(fn, W)
    if len(params) != 1: raise T.TieBroken(f"{W}: {len(params)} parameters")
    mat = params[0]
    b = fn.body
    if len(b) != 3: raise T.TieBroken(f"{W}: {len(b)} statements (expected rank / index tuple / assignment)")
    if not (isinstance(b[0], ast.Assign) and isinstance(b[0].targets[0], ast.Name) and src(b[0].value) == f"len({mat}.shape)"):
        raise T.TieBroken(f"{W}: `{src(b[0])[:80]}` is not `<dims> = len({mat}.shape)`")
    dims = b[0].targets[0].id
    st = b[1]
    ok = (isinstance(st, ast.Assign) and isinstance(st.targets[0], ast.Name) and isinstance(st.value, ast.Call)
          and src(st.value.func) == "tuple" and len(st.value.args) == 1 and isinstance(st.value.args[0], ast.BinOp)
          and isinstance(st.value.args[0].op, ast.Add))
    if not ok: raise T.TieBroken(f"{W}: `{src(st)[:120]}` is not `<indices> = tuple([slice(None)] * (…) + [row, slice(lo, hi)])`")
    idx = st.targets[0].id
    lead, tail = st.value.args[0].left, st.value.args[0].right
    ok = (isinstance(lead, ast.BinOp) and isinstance(lead.op, ast.Mult) and src(lead.left) == "[slice(None)]"
          and isinstance(lead.right, ast.BinOp) and isinstance(lead.right.op, ast.Sub) and src(lead.right.left) == dims)
    if not ok: raise T.TieBroken(f"{W}: leading axes `{src(lead)}` are not `[slice(None)] * ({dims} - <literal>)`")
    drop = nat_lit(lead.right.right, W)
    ok = (isinstance(tail, ast.List) and len(tail.elts) == 2 and isinstance(tail.elts[1], ast.Call) and src(tail.elts[1].func) == "slice"
          and len(tail.elts[1].args) == 2 and not tail.elts[1].keywords)
    if not ok: raise T.TieBroken(f"{W}: trailing indices `{src(tail)}` are not `[<row>, slice(<lo>, <hi>)]`")
    row = nat_lit(tail.elts[0], W); lo = nat_lit(tail.elts[1].args[0], W); hi = nat_lit(tail.elts[1].args[1], W)
    st = b[2]
    if not (isinstance(st, ast.Assign) and len(st.targets) == 1 and src(st.targets[0]) == f"{mat}[{idx}]"):
        raise T.TieBroken(f"{W}: `{src(st)[:80]}` is not `{mat}[{idx}] = <literal>`")
    val = nat_lit(st.value, W)
    return (f"{{ leadFull := true, leadDrop := {drop}, row := {row}, lo := {lo}, hi := {hi}, value := {val}, inPlaceOnly := true }}")


# ------------------------------------------------------------------------------------------------ small methods
def src_of(n, params):
    if isinstance(n, ast.Name) and n.id in params and n.id != "self": return f"(.param {q(n.id)})"
    p = self_path(n)
    if p is not None: return f"(.selfPath {lstrs(p)})"
    return f"(.other {q(src(n))})"


def tr_avg_method(fn):
    W = f"{LONG}.average_over_modes"
    params = arg_names(fn, W)
    ret = single_return(fn, W)
    if not (isinstance(ret, ast.Call) and isinstance(ret.func, ast.Name) and len(ret.args) == 2 and not ret.keywords):
        raise T.TieBroken(f"{W}: `{src(ret)[:100]}` is not `<function>(<amount>, <weights>)`")
    return f"{{ callee := {q(ret.func.id)}, amountArg := {src_of(ret.args[0], params)}, weightsArg := {src_of(ret.args[1], params)} }}"


def tr_q_weights(fn):
    W = f"{LONG}.q_weights"
    ret = single_return(fn, W)
    if not (isinstance(ret, ast.Call) and len(ret.args) == 1 and not ret.keywords and isinstance(ret.args[0], ast.ListComp)):
        raise T.TieBroken(f"{W}: `{src(ret)[:120]}` is not `<wrapper>([<name> for <names> in self.<path>])`")
    lc = ret.args[0]
    if len(lc.generators) != 1 or lc.generators[0].ifs or lc.generators[0].is_async:
        raise T.TieBroken(f"{W}: the comprehension filters or nests: `{src(lc)[:120]}`")
    g = lc.generators[0]
    path = self_path(g.iter)
    if path is None: raise T.TieBroken(f"{W}: iterates over `{src(g.iter)}`, not an attribute path of self")
    if not (isinstance(g.target, ast.Tuple) and all(isinstance(e, ast.Name) for e in g.target.elts)):
        raise T.TieBroken(f"{W}: loop target `{src(g.target)}` is not a tuple of names")
    names = [e.id for e in g.target.elts]
    if not (isinstance(lc.elt, ast.Name) and lc.elt.id in names):
        raise T.TieBroken(f"{W}: element `{src(lc.elt)}` is not one of the unpacked names {names} itself (scaled / rounded / normalised?)")
    return (f"{{ kind := {q(decorator_kind(fn))}, path := {lstrs(path)}, arity := {len(names)}, pick := {names.index(lc.elt.id)}, "
            f"wrapper := {q(src(ret.func))} }}")


def tr_accessor(fn, cname):
    W = f"{cname}.{fn.name}"
    ret = single_return(fn, W)
    path = self_path(ret)
    if path is None: raise T.TieBroken(f"{W}: returns `{src(ret)[:80]}`, not an attribute path of self")
    return f"⟨{q(fn.name)}, {q(decorator_kind(fn))}, {lstrs(path)}⟩"


def tr_init(fn):
    W = f"{LONG}.__init__"
    params = arg_names(fn, W)
    stores = []
    for st in fn.body:
        if not (isinstance(st, ast.Assign) and len(st.targets) == 1):
            raise T.TieBroken(f"{W}: statement outside grammar: `{src(st)[:100]}`")
        tp = self_path(st.targets[0])
        if tp is None or len(tp) != 1: raise T.TieBroken(f"{W}: `{src(st)[:100]}` does not assign a plain attribute of self")
        stores.append((tp[0], src_of(st.value, params)))
    return params, stores


# ------------------------------------------------------------------------------------------------ prefactors, mode_gamma, Q
def tr_pexpr(n, W):
    if isinstance(n, ast.UnaryOp) and isinstance(n.op, ast.UAdd): return tr_pexpr(n.operand, W)
    if isinstance(n, ast.UnaryOp) and isinstance(n.op, ast.USub): return f"(.neg {tr_pexpr(n.operand, W)})"
    k = int_lit(n)
    if k is not None and k >= 0: return f"(.lit {k})"
    if isinstance(n, ast.BinOp):
        for op, name in ((ast.Add, "add"), (ast.Sub, "sub"), (ast.Mult, "mul"), (ast.Div, "div")):
            if isinstance(n.op, op): return f"(.{name} {tr_pexpr(n.left, W)} {tr_pexpr(n.right, W)})"
    if isinstance(n, ast.Subscript) and self_path(n.value) == ["e"]:
        i = int_lit(n.slice)
        if i in (0, 1): return f".e{i}"
    if isinstance(n, ast.Call) and src(n.func) in ("numpy.prod", "np.prod") and len(n.args) == 1 and self_path(n.args[0]) == ["e"] \
            and [(k.arg, src(k.value)) for k in n.keywords] == [("axis", "0")]:
        return ".prodE"
    raise T.TieBroken(f"{W}: prefactor expression outside grammar: `{src(n)[:100]}`")


def tr_prefactors(fn, cname):
    W = f"{cname}.prefactors"
    ret = single_return(fn, W)
    if not (isinstance(ret, ast.Tuple) and len(ret.elts) == 3 and isinstance(ret.elts[1], ast.Tuple) and len(ret.elts[1].elts) == 2):
        raise T.TieBroken(f"{W}: the return value is not `(a, (b0, b1), c)`")
    a, (b0, b1), c = ret.elts[0], ret.elts[1].elts, ret.elts[2]
    return (f"{{ p0 := {tr_pexpr(a, W)},\n    p10 := {tr_pexpr(b0, W)},\n    p11 := {tr_pexpr(b1, W)},\n    p2 := {tr_pexpr(c, W)} }}")


def tr_mg_bcast(fn, cname):
    W = f"{cname}.mode_gamma"
    ret = single_return(fn, W)
    if not isinstance(ret, ast.Tuple): raise T.TieBroken(f"{W}: not a tuple")
    flat = []
    for el in ret.elts:
        flat += list(el.elts) if isinstance(el, ast.Tuple) else [el]
    out = []
    for el in flat:
        if not (isinstance(el, ast.BinOp) and isinstance(el.op, ast.Mult)): raise T.TieBroken(f"{W}: entry `{src(el)[:80]}` is not a product")
        l = el.left
        pat = "[]"
        if isinstance(l, ast.Subscript) and int_lit(l.slice) is None:
            pat = bcast_pattern(l.slice)
            if pat is None: pat = f"[(.other {q(src(l.slice))})]"
            l = l.value
        base = l
        while isinstance(base, ast.Subscript) and int_lit(base.slice) is not None: base = base.value
        if self_path(base) != ["prefactors"]: raise T.TieBroken(f"{W}: left factor `{src(el.left)[:80]}` is not an entry of self.prefactors")
        out.append(pat)
    return "[" + ", ".join(out) + "]"


def tr_qdef(fn):
    W = f"{LONG}.Q"
    ret = single_return(fn, W)
    pats = []

    def tr(n):
        if isinstance(n, ast.UnaryOp) and isinstance(n.op, ast.UAdd): return tr(n.operand)
        if isinstance(n, ast.UnaryOp) and isinstance(n.op, ast.USub): return f"(.neg {tr(n.operand)})"
        k = int_lit(n)
        if k is not None and k >= 0: return f"(.lit {k})"
        if isinstance(n, ast.BinOp):
            for op, name in ((ast.Add, "add"), (ast.Sub, "sub"), (ast.Mult, "mul"), (ast.Div, "div")):
                if isinstance(n.op, op): return f"(.{name} {tr(n.left)} {tr(n.right)})"
        if isinstance(n, ast.Name) and n.id == "h_div_k": return ".hdk"
        base = n
        if isinstance(n, ast.Subscript):
            if bcast_pattern(n.slice) is None: raise T.TieBroken(f"{W}: subscript `{src(n)}` is not a broadcasting pattern")
            base = n.value
        p = self_path(base)
        if p == ["freq_array"]: return ".freq"
        if p == ["t_array"]: return ".T"
        raise T.TieBroken(f"{W}: expression outside grammar: `{src(n)[:100]}`")
    return tr(ret)


# ------------------------------------------------------------------------------------------------ masks, broadcasts, units
CMP = {ast.Eq: "==", ast.NotEq: "!=", ast.Lt: "<", ast.LtE: "<=", ast.Gt: ">", ast.GtE: ">="}


def tr_masks(fn, cname):
    """every assignment to a subscript of a local array in the method"""
    W = f"{cname}.{fn.name}"
    out = []
    for st in fn.body:
        if not (isinstance(st, (ast.Assign, ast.AugAssign))): continue
        targets = st.targets if isinstance(st, ast.Assign) else [st.target]
        for t in targets:
            if not isinstance(t, ast.Subscript): continue
            if not isinstance(t.value, ast.Name): raise T.TieBroken(f"{W}: `{src(st)[:100]}` writes into something that is not a local array")
            if isinstance(st, ast.AugAssign): raise T.TieBroken(f"{W}: augmented item assignment `{src(st)[:100]}`")
            elts = t.slice.elts if isinstance(t.slice, ast.Tuple) else [t.slice]
            if len(elts) != 2: raise T.TieBroken(f"{W}: `{src(t)[:100]}` does not index (rows, columns)")
            r, c = elts
            rows = f"(.other {q(src(r))})"
            if isinstance(r, ast.Call) and src(r.func) in ("numpy.where", "np.where") and len(r.args) == 1 and not r.keywords \
                    and isinstance(r.args[0], ast.Compare) and len(r.args[0].ops) == 1 and type(r.args[0].ops[0]) in CMP:
                cmp_ = r.args[0]
                p = self_path(cmp_.left)
                k = int_lit(cmp_.comparators[0])
                if p is not None and k is not None:
                    rows = f"(.whereCmp {lstrs(p)} {q(CMP[type(cmp_.ops[0])])} {lint(k)})"
            elif int_lit(r) is not None:
                rows = f"(.index {lint(int_lit(r))})"
            cols_full = isinstance(c, ast.Slice) and c.lower is None and c.upper is None and c.step is None
            val = nat_lit(st.value, W)
            out.append(f"{{ target := {q(t.value.id)}, rows := {rows}, colsFull := {lbool(cols_full)}, value := {val} }}")
    return out


def collect_bcasts(fn, cname):
    out = []
    nodes = [n for n in ast.walk(fn) if isinstance(n, ast.Subscript) and isinstance(n.ctx, ast.Load)]
    nodes.sort(key=lambda n: (n.lineno, n.col_offset, -(n.end_col_offset or 0)))
    for n in nodes:
        pat = bcast_pattern(n.slice)
        if pat is not None:
            out.append(f"⟨{q(cname)}, {q(fn.name)}, {q(src(n.value))}, {pat}⟩")
    return out


def mono(n, W, sign=1, acc=None):
    """units.A * units.B / units.C ... -> {name: exponent}"""
    acc = {} if acc is None else acc
    if isinstance(n, ast.BinOp) and isinstance(n.op, (ast.Mult, ast.Div)):
        mono(n.left, W, sign, acc)
        mono(n.right, W, sign if isinstance(n.op, ast.Mult) else -sign, acc)
        return acc
    if isinstance(n, ast.BinOp) and isinstance(n.op, ast.Pow) and int_lit(n.right) is not None:
        sub = mono(n.left, W, 1, {})
        for u, k in sub.items(): acc[u] = acc.get(u, 0) + sign * k * int_lit(n.right)
        return acc
    if isinstance(n, ast.Attribute) and isinstance(n.value, ast.Name) and n.value.id == "units":
        acc[n.attr] = acc.get(n.attr, 0) + sign
        return acc
    raise T.TieBroken(f"{W}: unit expression outside grammar: `{src(n)[:80]}`")


def lmono(m):
    return "[" + ", ".join(f"({q(u)}, {lint(k)})" for u, k in sorted(m.items()) if k != 0) + "]"


def unit_conv(value, W):
    """units.Quantity(v, u).to(u').magnitude -> (text of v, from, to) or None"""
    if not (isinstance(value, ast.Attribute) and value.attr == "magnitude"): return None
    c = value.value
    if not (isinstance(c, ast.Call) and isinstance(c.func, ast.Attribute) and c.func.attr == "to" and len(c.args) == 1 and not c.keywords): return None
    qn = c.func.value
    if not (isinstance(qn, ast.Call) and src(qn.func) == "units.Quantity" and len(qn.args) == 2 and not qn.keywords): return None
    return src(qn.args[0]), mono(qn.args[1], W), mono(c.args[0], W)


def value_kind(v):
    if isinstance(v, ast.Constant): return "const"
    if isinstance(v, (ast.List, ast.ListComp)): return "list"
    if isinstance(v, (ast.Dict, ast.DictComp)): return "dict"
    if isinstance(v, (ast.Set, ast.SetComp)): return "set"
    if isinstance(v, ast.Lambda): return "function"
    bad_calls = [src(n.func) for n in ast.walk(v) if isinstance(n, ast.Call)
                 and src(n.func) not in ("logging.getLogger", "units.Quantity") and not (isinstance(n.func, ast.Attribute) and n.func.attr == "to")]
    containers = [n for n in ast.walk(v) if isinstance(n, (ast.List, ast.Dict, ast.Set, ast.ListComp, ast.DictComp, ast.SetComp, ast.Lambda))]
    if bad_calls or containers: return "expr-with:" + ",".join(bad_calls + [type(n).__name__ for n in containers])
    if isinstance(v, ast.Call) and src(v.func) == "logging.getLogger": return "logger"
    return "scalar-expr"


def const_def(v, W):
    """scipy.constants.physical_constants['…'][i] and quotients of such"""
    if isinstance(v, ast.BinOp) and isinstance(v.op, ast.Div): return f"(.div {const_def(v.left, W)} {const_def(v.right, W)})"
    if isinstance(v, ast.BinOp) and isinstance(v.op, ast.Mult): return f"(.mul {const_def(v.left, W)} {const_def(v.right, W)})"
    if isinstance(v, ast.Subscript) and int_lit(v.slice) is not None and isinstance(v.value, ast.Subscript) \
            and src(v.value.value) == "scipy.constants.physical_constants" and isinstance(v.value.slice, ast.Constant) \
            and isinstance(v.value.slice.value, str):
        return f"(.phys {q(v.value.slice.value)} {lint(int_lit(v.slice))})"
    raise T.TieBroken(f"{W}: `{src(v)[:100]}` is not built from scipy.constants.physical_constants[<name>][<i>] by * and /")


# ------------------------------------------------------------------------------------------------ coverage table
# how every function of the module is tied; a function that is not listed here is a broken tie (TieBroken names it)
HOW = {
    (MOD, "average_over_modes"): "tree: nonshear_src avgTree",
    (MOD, "clear_gamma_point"): "data: nonshear_src clearSpec",
    (LONG, "__init__"): "data: nonshear_src initStores",
    (LONG, "v_array"): "data: nonshear_src accessors",
    (LONG, "t_array"): "data: nonshear_src accessors",
    (LONG, "freq_array"): "data: nonshear_src accessors",
    (LONG, "q_weights"): "data: nonshear_src qWeights",
    (LONG, "prefactors"): "tree: nonshear_src prefExprsLong (+ gen_prefactors)",
    (LONG, "mode_gamma"): "data: gen_nonshear_exprs mgWiringLong + nonshear_src mgBroadcastLong",
    (LONG, "Q"): "tree: nonshear_src qDef",
    (LONG, "Q1"): "tree: gen_qexprs q1Expr",
    (LONG, "Q2"): "tree: gen_qexprs q2Expr",
    (LONG, "zero_point_contribution"): "tree: gen_nonshear_exprs nsZpLong + nonshear_src masks/unitConvs/bcastTable",
    (LONG, "thermal_contribution"): "tree: gen_nonshear_exprs nsThLong + nonshear_src masks/unitConvs/bcastTable",
    (LONG, "value_isothermal"): "tree: gen_nonshear_exprs nsIsoLong",
    (LONG, "isothermal_to_adiabatic"): "tree: gen_nonshear_exprs nsGapLong + nonshear_src masks/unitConvs/bcastTable",
    (LONG, "value_adiabatic"): "tree: gen_nonshear_exprs nsAdiaLong",
    (LONG, "average_over_modes"): "data: nonshear_src avgMethod",
    (OFF, "prefactors"): "tree: nonshear_src prefExprsOff (+ gen_prefactors)",
    (OFF, "mode_gamma"): "data: gen_nonshear_exprs mgWiringOff + nonshear_src mgBroadcastOff",
    (OFF, "zero_point_contribution"): "tree: gen_nonshear_exprs nsZpOff + nonshear_src masks/unitConvs/bcastTable",
    (OFF, "thermal_contribution"): "tree: gen_nonshear_exprs nsThOff + nonshear_src masks/unitConvs/bcastTable",
    (OFF, "value_isothermal"): "tree: gen_nonshear_exprs nsIsoOff + nonshear_src bcastTable",
}
BODY_METHODS = ["zero_point_contribution", "thermal_contribution", "value_isothermal", "isothermal_to_adiabatic", "value_adiabatic"]


def gen_nonshear_glue():
    path = os.path.join(T.REPO, REL)
    with warnings.catch_warnings():
        warnings.simplefilter("ignore")
        raw = ast.parse(open(path).read())
    tree = _Strip().visit(copy.deepcopy(raw))
    ast.fix_missing_locations(tree)
    # the generators this plug-in's coverage table refers to must accept the file as well
    for g in (T.gen_prefactors, T.gen_qexprs, T.gen_nonshear_exprs):
        try:
            g()
        except T.TieBroken as e:
            raise T.TieBroken(f"coverage: {g.__name__} no longer translates the bodies it is listed for ({e})")

    classes = {c.name: c for c in tree.body if isinstance(c, ast.ClassDef)}
    mod_fns = {f.name: f for f in tree.body if isinstance(f, (ast.FunctionDef, ast.AsyncFunctionDef))}
    for need in (BASE, LONG, OFF):
        if need not in classes: raise T.TieBroken(f"class {need} not found in {REL}")
    if set(classes) != {BASE, LONG, OFF}: raise T.TieBroken(f"classes of {REL} changed: {sorted(classes)}")

    def fns_of(cname):
        out = {}
        for f in classes[cname].body:
            if isinstance(f, (ast.FunctionDef, ast.AsyncFunctionDef)): out[f.name] = f
        return out
    mL, mO = fns_of(LONG), fns_of(OFF)

    def need(tab, cname, name):
        if name not in tab: raise T.TieBroken(f"{cname}.{name} not found")
        return tab[name]

    L = []
    out = L.append
    out("-- GENERATED by tools/gens/nonshear_src.py from cij/core/phonon_contribution/nonshear.py — do not edit")
    out("import CijModel.NSGlue")
    out("open Cij.NSGlue")
    out("namespace Generated.NonShearGlue\n")

    # ---------------------------------------------------------------- module-level averaging
    params, avg_tree = tr_average(need(mod_fns, MOD, "average_over_modes"))
    out("/-- module `average_over_modes(<amount>, <q_weights>)`: parameter names -/")
    out(f"def avgParams : List String := {lstrs(params)}\n")
    out("/-- its body as a reduction tree (`dims = len(amount.shape)`; `.average a k w` = `numpy.average(a, axis=dims - k[, weights=q_weights])`) -/")
    out(f"def avgTree : Red :=\n  {avg_tree}\n")
    out("/-- module `clear_gamma_point(mat)`: `mat[tuple([slice(None)] * (dims - leadDrop) + [row, slice(lo, hi)])] = value` -/")
    out(f"def clearSpec : ClearSpec :=\n  {tr_clear(need(mod_fns, MOD, 'clear_gamma_point'))}\n")

    # ---------------------------------------------------------------- method average_over_modes, q_weights, accessors, __init__
    out("/-- method `average_over_modes(self, amount)`: `return <callee>(<amountArg>, <weightsArg>)` -/")
    out(f"def avgMethod : AvgMethod :=\n  {tr_avg_method(need(mL, LONG, 'average_over_modes'))}\n")
    out("/-- `q_weights`: `<wrapper>([<component pick> for <tuple of arity names> in self.<path>])` -/")
    out(f"def qWeights : QWeightsSpec :=\n  {tr_q_weights(need(mL, LONG, 'q_weights'))}\n")
    out("/-- `v_array`, `t_array`, `freq_array`: (name, decorator kind, attribute path returned) -/")
    out("def accessors : List Accessor :=\n  [" + ", ".join(tr_accessor(need(mL, LONG, n), LONG) for n in ("v_array", "t_array", "freq_array")) + "]\n")
    iparams, stores = tr_init(need(mL, LONG, "__init__"))
    out("/-- `__init__`: parameters, and every `self.<attribute> = <source>` in order -/")
    out(f"def initParams : List String := {lstrs(iparams)}")
    out("def initStores : List (String × Src) :=\n  [" + ", ".join(f"({q(a)}, {s})" for a, s in stores) + "]\n")

    # ---------------------------------------------------------------- prefactors, mode_gamma broadcast, Q
    out("/-- `prefactors` of the longitudinal class: `(p0, (p10, p11), p2)` as expression trees -/")
    out(f"def prefExprsLong : PrefExprs :=\n  {tr_prefactors(need(mL, LONG, 'prefactors'), LONG)}\n")
    out("/-- `prefactors` of the off-diagonal class" + ("" if "prefactors" in mO else " (inherited)") + " -/")
    out(f"def prefExprsOff : PrefExprs :=\n  {tr_prefactors(mO.get('prefactors', mL['prefactors']), OFF if 'prefactors' in mO else LONG)}\n")
    out("/-- `mode_gamma`: the broadcasting subscript applied to the prefactor of g0, g10, g11, g2 -/")
    out(f"def mgBroadcastLong : List (List Ax) := {tr_mg_bcast(need(mL, LONG, 'mode_gamma'), LONG)}")
    out(f"def mgBroadcastOff : List (List Ax) := {tr_mg_bcast(mO.get('mode_gamma', mL['mode_gamma']), OFF if 'mode_gamma' in mO else LONG)}\n")
    out("/-- `Q`: the return expression -/")
    out(f"def qDef : QDef :=\n  {tr_qdef(need(mL, LONG, 'Q'))}\n")

    # ---------------------------------------------------------------- masks, broadcast table, unit conversions
    def resolved(cname, name):
        if cname == OFF and name in mO: return OFF, mO[name]
        return LONG, need(mL, LONG, name)
    out("/-- every `<local array>[<rows>, <columns>] = <value>` statement of the body methods, per class after method resolution -/")
    for cname, short in ((LONG, "Long"), (OFF, "Off")):
        for name, tag in (("zero_point_contribution", "Zp"), ("thermal_contribution", "Th"), ("value_isothermal", "Iso"),
                          ("isothermal_to_adiabatic", "Gap"), ("value_adiabatic", "Adia")):
            owner, fn = resolved(cname, name)
            ms = tr_masks(fn, owner)
            out(f"def masks{tag}{short} : List MaskSpec := [" + ", ".join(ms) + "]")
    out("")
    bc = []
    for cname, tab in ((LONG, mL), (OFF, mO)):
        for name, fn in tab.items():
            bc += collect_bcasts(fn, cname)
    out("/-- every broadcasting subscript read in any method: (class, method, subscripted expression, pattern) -/")
    out("def bcastTable : List BcastEntry :=\n  [" + ",\n   ".join(bc) + "]\n")
    convs = []
    mod_assigns, mod_other, const_defs = [], [], []
    for st in tree.body:
        if isinstance(st, ast.Assign) and len(st.targets) == 1 and isinstance(st.targets[0], ast.Name):
            nm = st.targets[0].id
            mod_assigns.append((nm, value_kind(st.value)))
            uc = unit_conv(st.value, f"module-level {nm}")
            if uc is not None: convs.append((MOD, MOD, nm) + uc)
            elif nm in ("_h", "_k"): const_defs.append((nm, const_def(st.value, f"module-level {nm}")))
        elif isinstance(st, (ast.Import, ast.ImportFrom, ast.ClassDef, ast.FunctionDef, ast.Pass)): pass
        elif isinstance(st, ast.Expr) and isinstance(st.value, ast.Constant): pass
        else: mod_other.append(type(st).__name__ + ": " + src(st)[:70])
    for cname, tab in ((LONG, mL), (OFF, mO)):
        for name, fn in tab.items():
            for st in fn.body:
                if isinstance(st, ast.Assign) and len(st.targets) == 1 and isinstance(st.targets[0], ast.Name):
                    uc = unit_conv(st.value, f"{cname}.{name}")
                    if uc is not None: convs.append((cname, name, st.targets[0].id) + uc)
    out("/-- `_h`, `_k` from scipy's table of physical constants -/")
    out("def constDefs : List (String × ConstDef) :=\n  [" + ",\n   ".join(f"({q(n)}, {d})" for n, d in const_defs) + "]\n")
    out("/-- every `units.Quantity(<value>, <from>).to(<to>).magnitude`: (class, method, name bound, value as written, from, to) -/")
    out("def unitConvs : List UnitConv :=\n  [" + ",\n   ".join(
        f"⟨{q(a)}, {q(b)}, {q(c)}, {q(v)}, {lmono(f)}, {lmono(t)}⟩" for a, b, c, v, f, t in convs) + "]\n")

    # ---------------------------------------------------------------- classes, resolution, state
    table = []
    for cname, c in classes.items():
        defined = [f.name for f in c.body if isinstance(f, (ast.FunctionDef, ast.AsyncFunctionDef))]
        stmts = [type(s).__name__ + ": " + src(s)[:60] for s in c.body
                 if not isinstance(s, (ast.FunctionDef, ast.AsyncFunctionDef, ast.Pass))]
        table.append((cname, [src(b) for b in c.bases] + [f"{k.arg}={src(k.value)}" for k in c.keywords], defined, stmts))
    out("/-- every class: (name, bases, functions defined in source order — a name listed twice = redefinition, other class-body statements) -/")
    out("def classTable : List (String × List String × List String × List String) :=\n  [" + ",\n   ".join(
        f"({q(a)}, {lstrs(b)}, {lstrs(d)}, {lstrs(s)})" for a, b, d, s in table) + "]\n")
    out("/-- module-level functions in source order -/")
    out(f"def moduleFunctions : List String := {lstrs([f.name for f in tree.body if isinstance(f, (ast.FunctionDef, ast.AsyncFunctionDef))])}\n")
    out("/-- method resolution of the off-diagonal class over the longitudinal one -/")
    out(f"def offOverrides : List String := {lstrs([n for n in mL if n in mO])}")
    out(f"def offInherits : List String := {lstrs([n for n in mL if n not in mO])}")
    out(f"def offAdds : List String := {lstrs([n for n in mO if n not in mL])}\n")
    decs = [(cname, n, decorator_kind(f)) for cname, tab in ((LONG, mL), (OFF, mO)) for n, f in tab.items()]
    out("/-- decorator kind of every method: method | property | LazyProperty | other:<…> -/")
    out("def decorators : List (String × String × String) :=\n  [" + ",\n   ".join(f"({q(a)}, {q(b)}, {q(c)})" for a, b, c in decs) + "]\n")
    defined_all = [(MOD, f) for f in mod_fns] + [(cname, n) for cname in (BASE, LONG, OFF) for n in fns_of(cname)]
    cov = []
    for key in defined_all:
        if key not in HOW:
            raise T.TieBroken(f"{key[0]}.{key[1]} is a function this translator has no grammar for (new function?)")
        cov.append(key + (HOW[key],))
    out("/-- every function of the module and of its classes -/")
    out("def definedFunctions : List (String × String) :=\n  [" + ", ".join(f"({q(a)}, {q(b)})" for a, b in defined_all) + "]\n")
    out("/-- how each of them is tied to the model (tree / data = translated; nothing is left to a textual pin) -/")
    out("def coverage : Coverage :=\n  [" + ",\n   ".join(f"({q(a)}, {q(b)}, {q(c)})" for a, b, c in cov) + "]\n")
    nested = []
    for cname, tab in ((MOD, mod_fns), (LONG, mL), (OFF, mO)):
        for name, fn in tab.items():
            for n in ast.walk(fn):
                if n is not fn and isinstance(n, (ast.FunctionDef, ast.AsyncFunctionDef, ast.Lambda, ast.ClassDef, ast.Global, ast.Nonlocal)):
                    nested.append(f"{cname}.{name}: {type(n).__name__}")
    out("/-- nested definitions / `global` / `nonlocal` inside any function -/")
    out(f"def nestedDefs : List String := {lstrs(nested)}\n")
    out("/-- module-level assignments (name, kind of value: const | logger | scalar-expr | list | dict | set | function | expr-with:<calls>) and other\n"
        "module-level statements (neither import, def, class nor assignment) -/")
    out("def moduleAssigns : List (String × String) := [" + ", ".join(f"({q(a)}, {q(b)})" for a, b in mod_assigns) + "]")
    out(f"def moduleOtherStatements : List String := {lstrs(mod_other)}\n")
    # names a method reads that are neither self, parameters, locals, builtins nor the module's imports / constants
    allowed_globals = {"numpy", "nax", "units", "h_div_k", "_h", "_k", "average_over_modes", "clear_gamma_point", "len", "tuple", "slice", "logger"}
    foreign = []
    for cname, tab in ((MOD, mod_fns), (LONG, mL), (OFF, mO)):
        for name, fn in tab.items():
            bound = {a.arg for a in fn.args.args} | {n.id for n in ast.walk(fn) if isinstance(n, ast.Name) and isinstance(n.ctx, ast.Store)}
            for n in ast.walk(ast.Module(body=list(fn.body), type_ignores=[])):
                if isinstance(n, ast.Name) and isinstance(n.ctx, ast.Load) and n.id not in bound and n.id not in allowed_globals:
                    foreign.append(f"{cname}.{name}: {n.id}")
    out("/-- global names read inside a function other than numpy, nax, units, h_div_k, _h, _k, the two module functions, len/tuple/slice -/")
    out(f"def foreignGlobals : List String := {lstrs(sorted(set(foreign)))}\n")
    out("end Generated.NonShearGlue\n")
    return {"NonShearGlue.lean": "\n".join(L)}, [path]


GENERATORS = {"gen_nonshear_glue": (gen_nonshear_glue, ["NonShearGlue.lean"])}
