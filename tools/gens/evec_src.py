"""Translator plug-in for the eigenvector tools: cij/misc/evec_sort.py, evec_disp2eig.py, evec_load.py, __init__.py
-> lean/Generated/EvecSpec.lean (types and interpreters: lean/CijModel/EvecSrc.lean; consumers:
lean/CijProofs/Lemmas/EvecSource.lean and the `evec_model_is_source…` theorems of Properties/C20.lean).

What is extracted as DATA / EXPRESSION TREES (nothing of it is pinned — a change flows into Lean and the theorems decide):
  evec_sort     the set construction `s = set([...])` and the rejection test as trees; the overlap matrix expression
                (which operand is conjugated / transposed, operand order); the iteration count; reducer and modulus of the
                pick; the threshold test; the loop statements (row/column zeroed through which component of `idx`,
                placement `sorted_arr[idx[d]] = target_arr[idx[s]]`) in order; the defaults of `filter` / `threshold`.
  evec_disp2eig the argument of `numpy.repeat`, the shape test as a tree and which branch raises, the statements of the
                accepted branch (scale by sqrt of which vector along which axis, the norm expression) in order, the list of
                every call made in the function (no reshape).
  evec_load     both regex literals (own tiny AST), the (real, imaginary) column slices per tuple element of `_read_vecs`,
                the vector-line count `np // k`, the converters zipped to the groups, the step list of `_read_q_points`,
                where `.strip()` is applied, every conditional construct of the three readers (there is none).
  __init__      the re-exports.
Everything else is compared on the normalised ast (docstrings, annotations, comments, layout removed) with the canonical
skeleton per function; TieBroken names the function.
"""
import ast
import os

import gen_tables as T


class Broken(T.TieBroken):
    pass


def q(s):
    return T.lean_str(s)


def doc(s):
    """text that is safe inside a Lean doc comment"""
    return s.replace("/-", "/ -").replace("-/", "- /")


# ------------------------------------------------------------------------------------------------ normalisation
def normalise(fn):
    """strip docstring and annotations of a FunctionDef (in place), recursively for nested defs"""
    for node in ast.walk(fn):
        if isinstance(node, (ast.FunctionDef, ast.AsyncFunctionDef)):
            node.returns = None
            for a in node.args.posonlyargs + node.args.args + node.args.kwonlyargs:
                a.annotation = None
            if node.args.vararg: node.args.vararg.annotation = None
            if node.args.kwarg: node.args.kwarg.annotation = None
            if node.body and isinstance(node.body[0], ast.Expr) and isinstance(node.body[0].value, ast.Constant) \
                    and isinstance(node.body[0].value.value, str):
                node.body = node.body[1:] or [ast.Pass()]
    return fn


def load(path):
    with open(path) as fp:
        return ast.parse(fp.read())


def func(tree, name, where):
    for x in tree.body:
        if isinstance(x, ast.FunctionDef) and x.name == name:
            return normalise(x)
    raise Broken(f"{where}: function {name} not found")


def hole(name):
    return ast.Name(id=name, ctx=ast.Load())


def skeleton(fn):
    return ast.unparse(ast.fix_missing_locations(fn))


def u(n):
    return ast.unparse(n)


# ------------------------------------------------------------------------------------------------ evec_sort
def seq_expr(n, fname):
    if isinstance(n, ast.Name): return f'(.var {q(n.id)})'
    if isinstance(n, ast.BinOp) and isinstance(n.op, ast.Add): return f'(.cat {seq_expr(n.left, fname)} {seq_expr(n.right, fname)})'
    raise Broken(f"{fname}: sequence expression outside grammar: {u(n)}")


def set_elems(n, fname):
    """`set([...])` / `set((...))` / `{...}` whose elements are `len(X)` or `*[len(i) for i in SEQ]`"""
    if isinstance(n, ast.Call) and u(n.func) == "set" and len(n.args) == 1 and not n.keywords \
            and isinstance(n.args[0], (ast.List, ast.Tuple, ast.Set)):
        elts = n.args[0].elts
    elif isinstance(n, ast.Set):
        elts = n.elts
    else:
        raise Broken(f"{fname}: set construction outside grammar: {u(n)}")
    out = []
    for e in elts:
        if isinstance(e, ast.Call) and u(e.func) == "len" and len(e.args) == 1 and not e.keywords:
            out.append(f"(.len {seq_expr(e.args[0], fname)})")
        elif isinstance(e, ast.Starred) and isinstance(e.value, (ast.ListComp, ast.GeneratorExp)) and len(e.value.generators) == 1:
            g = e.value.generators[0]
            if g.ifs or g.is_async or not isinstance(g.target, ast.Name) or u(e.value.elt) != f"len({g.target.id})":
                raise Broken(f"{fname}: set element outside grammar: {u(e)}")
            out.append(f"(.starLens {seq_expr(g.iter, fname)})")
        else:
            raise Broken(f"{fname}: set element outside grammar: {u(e)}")
    return out


def int_expr(n, setname, fname):
    if isinstance(n, ast.Constant) and isinstance(n.value, int) and not isinstance(n.value, bool) and n.value >= 0: return f"(.lit {n.value})"
    if isinstance(n, ast.Name) and n.id == "ndim": return ".ndim"
    if isinstance(n, ast.Call) and u(n) == f"len({setname})": return ".card"
    raise Broken(f"{fname}: integer expression outside grammar: {u(n)}")


def bool_expr(n, setname, fname):
    if isinstance(n, ast.BoolOp):
        op = ".or" if isinstance(n.op, ast.Or) else ".and"
        r = bool_expr(n.values[0], setname, fname)
        for v in n.values[1:]:
            r = f"({op} {r} {bool_expr(v, setname, fname)})"
        return r
    if isinstance(n, ast.UnaryOp) and isinstance(n.op, ast.Not): return f"(.not {bool_expr(n.operand, setname, fname)})"
    if isinstance(n, ast.Compare) and len(n.ops) == 1:
        o, l, r = n.ops[0], n.left, n.comparators[0]
        if isinstance(o, (ast.In, ast.NotIn)) and isinstance(r, ast.Name) and r.id == setname:
            return f"({'.isIn' if isinstance(o, ast.In) else '.notIn'} {int_expr(l, setname, fname)})"
        names = {ast.Eq: ".eq", ast.NotEq: ".ne", ast.Lt: ".lt", ast.LtE: ".le", ast.Gt: ".gt", ast.GtE: ".ge"}
        if type(o) in names:
            return f"({names[type(o)]} {int_expr(l, setname, fname)} {int_expr(r, setname, fname)})"
    raise Broken(f"{fname}: test outside grammar: {u(n)}")


def mat_expr(n, fname, wrap=True):
    """matrix expression: @, numpy.conj / .conj() / numpy.conjugate, .T / numpy.transpose, numpy.array(NAME) / numpy.asarray(NAME);
    with wrap=False a bare NAME is an array already (evec_disp2eig)"""
    if isinstance(n, ast.BinOp) and isinstance(n.op, ast.MatMult):
        return f"(.matmul {mat_expr(n.left, fname, wrap)} {mat_expr(n.right, fname, wrap)})"
    if isinstance(n, ast.Call):
        f = u(n.func)
        if f in ("numpy.conj", "numpy.conjugate") and len(n.args) == 1 and not n.keywords: return f"(.conj {mat_expr(n.args[0], fname, wrap)})"
        if f == "numpy.transpose" and len(n.args) == 1 and not n.keywords: return f"(.tr {mat_expr(n.args[0], fname, wrap)})"
        if f in ("numpy.array", "numpy.asarray") and len(n.args) == 1 and not n.keywords and isinstance(n.args[0], ast.Name):
            return f"(.arr {q(n.args[0].id)})"
        if isinstance(n.func, ast.Attribute) and n.func.attr in ("conj", "conjugate") and not n.args and not n.keywords:
            return f"(.conj {mat_expr(n.func.value, fname, wrap)})"
        if isinstance(n.func, ast.Attribute) and n.func.attr == "transpose" and not n.args and not n.keywords:
            return f"(.tr {mat_expr(n.func.value, fname, wrap)})"
    if isinstance(n, ast.Attribute) and n.attr == "T": return f"(.tr {mat_expr(n.value, fname, wrap)})"
    if isinstance(n, ast.Name) and not wrap: return f"(.arr {q(n.id)})"
    raise Broken(f"{fname}: matrix expression outside grammar: {u(n)}")


def idx_component(n, fname):
    """`idx[k]` -> k"""
    if isinstance(n, ast.Subscript) and isinstance(n.value, ast.Name) and n.value.id == "idx" \
            and isinstance(n.slice, ast.Constant) and n.slice.value in (0, 1):
        return int(n.slice.value)
    raise Broken(f"{fname}: index outside grammar: {u(n)}")


def is_full_slice(n):
    return isinstance(n, ast.Slice) and n.lower is None and n.upper is None and n.step is None


SORT_SKELETON = """def evec_sort(target_arr, target_evecs, base_evecs, filter=__DEFAULT0__, threshold=__DEFAULT1__):
    ndim = len(target_arr)
    sorted_arr = [None] * ndim
    s = __SET__
    if __DIMTEST__:
        raise RuntimeError(__MESSAGE__)
    m = __OVERLAP__
    if filter:
        m = filter(m)
    for i in range(__COUNT__):
        idx = numpy.unravel_index(numpy.__REDUCER__(__MODULUS__), m.shape)
        if __THRESHOLDTEST__:
            raise RuntimeError(__MESSAGE__)
        __LOOPSTATEMENTS__
    return sorted_arr"""


def gen_sort(path):
    F = "evec_sort"
    fn = func(load(path), F, "evec_sort.py")
    names = [a.arg for a in fn.args.args]
    if names != ["target_arr", "target_evecs", "base_evecs", "filter", "threshold"] or fn.args.vararg or fn.args.kwarg \
            or fn.args.kwonlyargs or fn.args.posonlyargs or len(fn.args.defaults) != 2:
        raise Broken(f"{F}: signature changed: {u(fn.args)}")
    defaults = [u(d) for d in fn.args.defaults]
    fn.args.defaults = [hole("__DEFAULT0__"), hole("__DEFAULT1__")]
    b = fn.body
    if len(b) != 8: raise Broken(f"{F}: statement structure changed ({len(b)} top-level statements)")
    # s = set([...])
    st = b[2]
    if not (isinstance(st, ast.Assign) and len(st.targets) == 1 and isinstance(st.targets[0], ast.Name)):
        raise Broken(f"{F}: third statement is not the set of lengths: {u(st)}")
    setname = st.targets[0].id
    if setname != "s": raise Broken(f"{F}: name of the length set changed: {setname}")
    elems = set_elems(st.value, F)
    st.value = hole("__SET__")
    # if TEST: raise RuntimeError(...)
    st = b[3]
    if not (isinstance(st, ast.If) and not st.orelse and len(st.body) == 1 and isinstance(st.body[0], ast.Raise)
            and isinstance(st.body[0].exc, ast.Call) and u(st.body[0].exc.func) == "RuntimeError" and st.body[0].cause is None):
        raise Broken(f"{F}: dimension test is not `if …: raise RuntimeError(…)`: {u(st)[:120]}")
    dimtest = bool_expr(st.test, setname, F)
    st.test = hole("__DIMTEST__"); st.body[0].exc.args = [hole("__MESSAGE__")]; st.body[0].exc.keywords = []
    # m = OVERLAP
    st = b[4]
    if not (isinstance(st, ast.Assign) and u(st.targets[0]) == "m" and len(st.targets) == 1):
        raise Broken(f"{F}: overlap assignment changed: {u(st)}")
    overlap = mat_expr(st.value, F)
    st.value = hole("__OVERLAP__")
    # loop
    lp = b[6]
    if not (isinstance(lp, ast.For) and not lp.orelse and isinstance(lp.iter, ast.Call) and u(lp.iter.func) == "range"
            and len(lp.iter.args) == 1 and not lp.iter.keywords):
        raise Broken(f"{F}: loop header changed: {u(lp)[:80]}")
    count = int_expr(lp.iter.args[0], setname, F)
    lp.iter.args = [hole("__COUNT__")]
    lb = lp.body
    if len(lb) < 2: raise Broken(f"{F}: loop body changed")
    pk = lb[0]
    ok = (isinstance(pk, ast.Assign) and u(pk.targets[0]) == "idx" and isinstance(pk.value, ast.Call)
          and u(pk.value.func) == "numpy.unravel_index" and len(pk.value.args) == 2 and isinstance(pk.value.args[0], ast.Call)
          and isinstance(pk.value.args[0].func, ast.Attribute) and u(pk.value.args[0].func.value) == "numpy"
          and len(pk.value.args[0].args) == 1 and not pk.value.args[0].keywords)
    if not ok: raise Broken(f"{F}: pick statement outside grammar: {u(pk)}")
    reducer = pk.value.args[0].func.attr
    inner = pk.value.args[0].args[0]
    if isinstance(inner, ast.Name) and inner.id == "m": modulus = "identity"
    elif isinstance(inner, ast.Call) and u(inner.func).startswith("numpy.") and [u(a) for a in inner.args] == ["m"] and not inner.keywords:
        modulus = u(inner.func)[len("numpy."):]
    else: raise Broken(f"{F}: pick argument outside grammar: {u(inner)}")
    pk.value.args[0].func.attr = "__REDUCER__"; pk.value.args[0].args = [hole("__MODULUS__")]
    th = lb[1]
    if not (isinstance(th, ast.If) and not th.orelse and len(th.body) == 1 and isinstance(th.body[0], ast.Raise)
            and isinstance(th.body[0].exc, ast.Call) and u(th.body[0].exc.func) == "RuntimeError"):
        raise Broken(f"{F}: threshold test is not `if …: raise RuntimeError(…)`: {u(th)[:120]}")
    def thr_expr(n):
        if isinstance(n, ast.BoolOp):
            op = ".or" if isinstance(n.op, ast.Or) else ".and"
            r = thr_expr(n.values[0])
            for v in n.values[1:]: r = f"({op} {r} {thr_expr(v)})"
            return r
        if isinstance(n, ast.Name) and n.id == "threshold": return ".given"
        if isinstance(n, ast.Compare) and len(n.ops) == 1 and u(n.comparators[0]) == "threshold" and u(n.left) == "m[idx]":
            names = {ast.Lt: ".lessThan", ast.LtE: ".lessEq", ast.Gt: ".greaterThan", ast.GtE: ".greaterEq"}
            if type(n.ops[0]) in names: return names[type(n.ops[0])]
        raise Broken(f"{F}: threshold test outside grammar: {u(n)}")
    thr = thr_expr(th.test)
    th.test = hole("__THRESHOLDTEST__"); th.body[0].exc.args = [hole("__MESSAGE__")]; th.body[0].exc.keywords = []
    stmts = []
    for st in lb[2:]:
        okk = isinstance(st, ast.Assign) and len(st.targets) == 1 and isinstance(st.targets[0], ast.Subscript)
        if not okk: raise Broken(f"{F}: loop statement outside grammar: {u(st)}")
        tg = st.targets[0]
        if u(tg.value) == "m" and isinstance(tg.slice, ast.Tuple) and len(tg.slice.elts) == 2 \
                and isinstance(st.value, ast.Constant) and st.value.value == 0 and not isinstance(st.value.value, bool):
            a0, a1 = tg.slice.elts
            if is_full_slice(a1): stmts.append(f".zeroRow {idx_component(a0, F)}")
            elif is_full_slice(a0): stmts.append(f".zeroCol {idx_component(a1, F)}")
            else: raise Broken(f"{F}: loop statement outside grammar: {u(st)}")
        elif u(tg.value) == "sorted_arr" and isinstance(st.value, ast.Subscript) and u(st.value.value) == "target_arr":
            stmts.append(f".place {idx_component(tg.slice, F)} {idx_component(st.value.slice, F)}")
        else:
            raise Broken(f"{F}: loop statement outside grammar: {u(st)}")
    lp.body = lb[:2] + [ast.Expr(value=hole("__LOOPSTATEMENTS__"))]
    got = skeleton(fn)
    if got != SORT_SKELETON:
        raise Broken(f"{F}: statements outside the extracted parts changed:\n{got}")
    return (f"/-- `evec_sort` (cij/misc/evec_sort.py) -/\ndef sortSpec : SortSpec :=\n"
            f"  {{ dimSet := [{', '.join(elems)}],\n    dimReject := {dimtest},\n    overlap := {overlap},\n"
            f"    iterations := {count},\n    reducer := {q(reducer)}, modulus := {q(modulus)},\n    threshold := {thr},\n"
            f"    body := [{', '.join(stmts)}],\n    defaults := [({q('filter')}, {q(defaults[0])}), ({q('threshold')}, {q(defaults[1])})] }}\n")


# ------------------------------------------------------------------------------------------------ evec_disp2eig
DISP_SKELETON = """def evec_disp2eig(a, mass):
    N = len(mass)
    m = numpy.repeat(__REPEATED__, __TIMES__)
    a = numpy.copy(a)
    if __SHAPETEST__:
        __ACCEPTED__
    else:
        __REJECTED__
    return a"""


def shape_int(n, F):
    if isinstance(n, ast.Constant) and isinstance(n.value, int) and not isinstance(n.value, bool) and n.value >= 0: return f"(.lit {n.value})"
    if isinstance(n, ast.Name) and n.id == "N": return ".atoms"
    if isinstance(n, ast.Subscript) and u(n.value) == "a.shape" and isinstance(n.slice, ast.Constant) and n.slice.value in (0, 1):
        return f"(.shape {n.slice.value})"
    if isinstance(n, ast.Attribute) and u(n) == "a.size": return ".size"
    if isinstance(n, ast.BinOp) and isinstance(n.op, (ast.Mult, ast.Add, ast.Mod, ast.FloorDiv)):
        op = {ast.Mult: ".mul", ast.Add: ".add", ast.Mod: ".mod", ast.FloorDiv: ".div"}[type(n.op)]
        return f"({op} {shape_int(n.left, F)} {shape_int(n.right, F)})"
    raise Broken(f"{F}: shape expression outside grammar: {u(n)}")


def shape_test(n, F):
    if isinstance(n, ast.BoolOp):
        op = ".or" if isinstance(n.op, ast.Or) else ".and"
        r = shape_test(n.values[0], F)
        for v in n.values[1:]: r = f"({op} {r} {shape_test(v, F)})"
        return r
    if isinstance(n, ast.UnaryOp) and isinstance(n.op, ast.Not): return f"(.not {shape_test(n.operand, F)})"
    if isinstance(n, ast.Compare) and len(n.ops) == 1:
        names = {ast.Eq: ".eq", ast.NotEq: ".ne", ast.Lt: ".lt", ast.LtE: ".le", ast.Gt: ".gt", ast.GtE: ".ge"}
        if type(n.ops[0]) in names:
            return f"({names[type(n.ops[0])]} {shape_int(n.left, F)} {shape_int(n.comparators[0], F)})"
    raise Broken(f"{F}: shape test outside grammar: {u(n)}")


def broadcast_axis(sl, F):
    """`[nax, :]` -> the vector runs along the columns (one factor per column); `[:, nax]` -> one factor per row"""
    if isinstance(sl, ast.Tuple) and len(sl.elts) == 2:
        a0, a1 = sl.elts
        if u(a0) in ("nax", "numpy.newaxis", "None") and is_full_slice(a1): return ".perColumn"
        if is_full_slice(a0) and u(a1) in ("nax", "numpy.newaxis", "None"): return ".perRow"
    raise Broken(f"{F}: broadcast index outside grammar: {u(sl)}")


def gen_disp(path):
    F = "evec_disp2eig"
    tree = load(path)
    fn = func(tree, F, "evec_disp2eig.py")
    imports = [u(x) for x in tree.body if isinstance(x, (ast.Import, ast.ImportFrom))]
    if sorted(imports) != ["from numpy import newaxis as nax", "import numpy"]:
        raise Broken(f"{F}: module imports changed: {imports}")
    if [a.arg for a in fn.args.args] != ["a", "mass"] or fn.args.defaults or fn.args.vararg or fn.args.kwarg or fn.args.kwonlyargs:
        raise Broken(f"{F}: signature changed: {u(fn.args)}")
    calls = sorted({u(c.func) for c in ast.walk(fn) if isinstance(c, ast.Call)})
    methods = sorted({x.attr for x in ast.walk(fn) if isinstance(x, ast.Attribute)})
    b = fn.body
    if len(b) != 5: raise Broken(f"{F}: statement structure changed ({len(b)} top-level statements)")
    rp = b[1]
    if not (isinstance(rp, ast.Assign) and u(rp.targets[0]) == "m" and isinstance(rp.value, ast.Call) and u(rp.value.func) == "numpy.repeat"
            and len(rp.value.args) == 2 and not rp.value.keywords and isinstance(rp.value.args[0], ast.Name)
            and isinstance(rp.value.args[1], ast.Constant) and isinstance(rp.value.args[1].value, int)):
        raise Broken(f"{F}: mass repetition outside grammar: {u(rp)}")
    rep_of, rep_k = rp.value.args[0].id, rp.value.args[1].value
    rp.value.args = [hole("__REPEATED__"), hole("__TIMES__")]
    it = b[3]
    if not (isinstance(it, ast.If) and it.orelse):
        raise Broken(f"{F}: shape test is not an if/else: {u(it)[:100]}")
    test = shape_test(it.test, F)
    def is_raise(body):
        return (len(body) == 1 and isinstance(body[0], ast.Raise) and isinstance(body[0].exc, ast.Call)
                and u(body[0].exc.func) == "RuntimeError")
    if is_raise(it.orelse) and not is_raise(it.body): accepted, raise_when = it.body, "false"
    elif is_raise(it.body) and not is_raise(it.orelse): accepted, raise_when = it.orelse, "true"
    else: raise Broken(f"{F}: exactly one branch of the shape test must raise RuntimeError")
    stmts = []
    for st in accepted:
        if isinstance(st, ast.AugAssign) and u(st.target) == "a" and isinstance(st.op, (ast.Mult, ast.Div)):
            op = ".mul" if isinstance(st.op, ast.Mult) else ".div"
            v = st.value
            # numpy.sqrt(VEC[ix])  or  numpy.sqrt(VEC)[ix]
            if isinstance(v, ast.Call) and u(v.func) == "numpy.sqrt" and len(v.args) == 1 and not v.keywords \
                    and isinstance(v.args[0], ast.Subscript) and isinstance(v.args[0].value, ast.Name):
                vec, ax = v.args[0].value.id, broadcast_axis(v.args[0].slice, F)
            elif isinstance(v, ast.Subscript) and isinstance(v.value, ast.Call) and u(v.value.func) == "numpy.sqrt" \
                    and len(v.value.args) == 1 and not v.value.keywords and isinstance(v.value.args[0], ast.Name):
                vec, ax = v.value.args[0].id, broadcast_axis(v.slice, F)
            else:
                raise Broken(f"{F}: scaling statement outside grammar: {u(st)}")
            stmts.append(f".scale {op} {ax} {q(vec)}")
        elif isinstance(st, ast.Assign) and len(st.targets) == 1 and isinstance(st.targets[0], ast.Name) \
                and isinstance(st.value, ast.Call) and u(st.value.func) == "numpy.diag" and len(st.value.args) == 1 and not st.value.keywords:
            stmts.append(f".normDiag {q(st.targets[0].id)} {mat_expr(st.value.args[0], F, wrap=False)}")
        else:
            raise Broken(f"{F}: statement of the accepted branch outside grammar: {u(st)}")
    it.test = hole("__SHAPETEST__")
    acc = [ast.Expr(value=hole("__ACCEPTED__"))]; rej = [ast.Expr(value=hole("__REJECTED__"))]
    it.body, it.orelse = (acc, rej) if raise_when == "false" else (rej, acc)
    got = skeleton(fn)
    want = DISP_SKELETON if raise_when == "false" else DISP_SKELETON.replace("__ACCEPTED__", "__TMP__").replace("__REJECTED__", "__ACCEPTED__").replace("__TMP__", "__REJECTED__")
    if got != want:
        raise Broken(f"{F}: statements outside the extracted parts changed:\n{got}")
    return (f"/-- `evec_disp2eig` (cij/misc/evec_disp2eig.py) -/\ndef dispSpec : DispSpec :=\n"
            f"  {{ repeated := {q(rep_of)}, times := {rep_k},\n    shapeTest := {test}, raiseWhen := {raise_when},\n"
            f"    body := [{', '.join(stmts)}],\n    calls := [{', '.join(q(c) for c in calls)}],\n"
            f"    attributes := [{', '.join(q(c) for c in methods)}] }}\n")


# ------------------------------------------------------------------------------------------------ evec_load
def regex_items(pat, what):
    """the tiny grammar: literals, escaped characters, \\s \\d, quantifiers ? * + on a single character/class, plain groups"""
    out, i, depth = [], 0, 0
    def atom_at(i):
        c = pat[i]
        if c == "\\":
            if i + 1 >= len(pat): raise Broken(f"{what}: dangling backslash")
            d = pat[i + 1]
            if d == "s": return ".space", i + 2
            if d == "d": return ".digit", i + 2
            if d.isalnum(): raise Broken(f"{what}: escape \\{d} outside grammar")
            return f"(.chr {lean_char(d)})", i + 2
        if c in ".^$|[]{}": raise Broken(f"{what}: metacharacter {c!r} outside grammar")
        return f"(.chr {lean_char(c)})", i + 1
    while i < len(pat):
        c = pat[i]
        if c == "(":
            if pat[i + 1:i + 2] == "?": raise Broken(f"{what}: group modifier outside grammar")
            if depth: raise Broken(f"{what}: nested group outside grammar")
            depth += 1; out.append(".opn"); i += 1; continue
        if c == ")":
            if not depth: raise Broken(f"{what}: unbalanced )")
            depth -= 1; i += 1
            if pat[i:i + 1] in ("?", "*", "+", "{"): raise Broken(f"{what}: quantified group outside grammar")
            out.append(".cls"); continue
        if c in "?*+": raise Broken(f"{what}: quantifier without atom")
        a, i = atom_at(i)
        qn = ".one"
        if pat[i:i + 1] in ("?", "*", "+"):
            qn = {"?": ".opt", "*": ".star", "+": ".plus"}[pat[i]]; i += 1
            if pat[i:i + 1] in ("?", "+", "*"): raise Broken(f"{what}: lazy/possessive/stacked quantifier outside grammar")
        out.append(f".tok {a} {qn}")
    if depth: raise Broken(f"{what}: unbalanced (")
    return out


def lean_char(c):
    if c == "'": return "'\\''"
    if c == "\\": return "'\\\\'"
    if not (32 <= ord(c) < 127): raise Broken(f"regex: non-ASCII character {c!r}")
    return f"'{c}'"


VECS_SKELETON = """def _read_vecs(fp, np):
    for m in range(np // __PERLINE__):
        line = __VECLINE__
        yield __COMPONENTS__"""
MODES_SKELETON = """def _read_modes(fp, np):
    for l in range(np):
        line = next(fp).strip()
        res = MODE_INDEX_REGEX.search(__MODELINE__)
        mode_id, thz, cm_1 = tuple((func(string) for func, string in zip(__CONVERTERS__, res.groups())))
        yield ((mode_id, thz, cm_1), tuple(itertools.chain.from_iterable(_read_vecs(fp, np))))"""
QPTS_SKELETON = """def _read_q_points(fp, nq, np):
    for k in range(nq):
        __STEPS__"""
LOAD_SKELETON = """def evec_load(fname, nq, np):
    with open(fname) as fp:
        return list(_read_q_points(fp, nq, np))"""


def strips(n, F):
    """`next(fp)` followed by k `.strip()` calls -> k; `line` followed by k strips -> ('line', k)"""
    k = 0
    while isinstance(n, ast.Call) and isinstance(n.func, ast.Attribute) and n.func.attr == "strip" and not n.args and not n.keywords:
        k += 1; n = n.func.value
    return u(n), k


def conditionals(fn):
    out = []
    for x in ast.walk(fn):
        if isinstance(x, (ast.If, ast.IfExp, ast.While, ast.Match, ast.Try, ast.Assert, ast.BoolOp, ast.Compare, ast.Continue, ast.Break, ast.Return)):
            out.append(f"{fn.name}: {u(x).splitlines()[0][:80]}")
        if isinstance(x, ast.comprehension) and x.ifs:
            out.append(f"{fn.name}: comprehension filter {u(x.ifs[0])[:60]}")
    return out


def gen_load(path):
    tree = load(path)
    consts = {}
    for x in tree.body:
        if isinstance(x, ast.Assign) and len(x.targets) == 1 and isinstance(x.targets[0], ast.Name) and x.targets[0].id in ("Q_COORDS_REGEX", "MODE_INDEX_REGEX"):
            v = x.value
            if not (isinstance(v, ast.Call) and u(v.func) == "re.compile" and len(v.args) == 1 and not v.keywords
                    and isinstance(v.args[0], ast.Constant) and isinstance(v.args[0].value, str)):
                raise Broken(f"{x.targets[0].id}: not `re.compile(<string literal>)` without flags: {u(v)[:100]}")
            consts[x.targets[0].id] = v.args[0].value
    for k in ("Q_COORDS_REGEX", "MODE_INDEX_REGEX"):
        if k not in consts: raise Broken(f"evec_load.py: {k} not found")
    rebinds = [u(x) for x in ast.walk(tree) if isinstance(x, (ast.Global, ast.Nonlocal))]
    if rebinds: raise Broken(f"evec_load.py: global/nonlocal statements: {rebinds}")
    top = [type(x).__name__ + ":" + (getattr(x, "name", "") or (u(x.targets[0]) if isinstance(x, ast.Assign) else "")) for x in tree.body
           if not isinstance(x, (ast.Import, ast.ImportFrom)) and not (isinstance(x, ast.Expr) and isinstance(x.value, ast.Constant))]
    want_top = ["Assign:logger", "Assign:Q_COORDS_REGEX", "Assign:MODE_INDEX_REGEX", "FunctionDef:_read_vecs", "FunctionDef:_read_modes",
                "FunctionDef:_read_q_points", "FunctionDef:evec_load", "If:"]
    if top != want_top: raise Broken(f"evec_load.py: module-level structure changed: {top}")
    qre = regex_items(consts["Q_COORDS_REGEX"], "Q_COORDS_REGEX")
    mre = regex_items(consts["MODE_INDEX_REGEX"], "MODE_INDEX_REGEX")
    conds = []
    # ---- _read_vecs
    F = "_read_vecs"
    fn = func(tree, F, "evec_load.py"); conds += conditionals(fn)
    try:
        lp = fn.body[0]; rng = lp.iter.args[0]; asg, yl = lp.body
        per = rng.right.value
        if not (isinstance(rng.op, ast.FloorDiv) and u(rng.left) == "np" and isinstance(per, int)): raise ValueError
        rng.right = hole("__PERLINE__")
        src, nstrip = strips(asg.value, F)
        if src != "next(fp)" or u(asg.targets[0]) != "line": raise ValueError
        asg.value = hole("__VECLINE__")
        tup = yl.value.value
        if not isinstance(tup, ast.Tuple): raise ValueError
    except Broken: raise
    except Exception:
        raise Broken(f"{F}: structure changed:\n{skeleton(fn)}")
    comps = []
    def sl(n):
        if not (isinstance(n, ast.Call) and u(n.func) == "float" and len(n.args) == 1 and not n.keywords and isinstance(n.args[0], ast.Subscript)
                and u(n.args[0].value) == "line" and isinstance(n.args[0].slice, ast.Slice) and n.args[0].slice.step is None
                and isinstance(n.args[0].slice.lower, ast.Constant) and isinstance(n.args[0].slice.upper, ast.Constant)
                and isinstance(n.args[0].slice.lower.value, int) and isinstance(n.args[0].slice.upper.value, int)
                and n.args[0].slice.lower.value >= 0 and n.args[0].slice.upper.value >= 0):
            raise Broken(f"{F}: field outside grammar (float(line[a:b]) with literal a, b ≥ 0): {u(n)}")
        return n.args[0].slice.lower.value, n.args[0].slice.upper.value
    def is_1j(n): return isinstance(n, ast.Constant) and isinstance(n.value, complex) and n.value == 1j
    for e in tup.elts:
        if not (isinstance(e, ast.BinOp) and isinstance(e.op, ast.Add) and isinstance(e.right, ast.BinOp) and isinstance(e.right.op, ast.Mult)):
            raise Broken(f"{F}: component outside grammar (float(line[a:b]) + float(line[c:d]) * 1j): {u(e)}")
        if is_1j(e.right.right): im = e.right.left
        elif is_1j(e.right.left): im = e.right.right
        else: raise Broken(f"{F}: imaginary unit factor changed: {u(e)}")
        comps.append((sl(e.left), sl(im)))
    yl.value.value = hole("__COMPONENTS__")
    if skeleton(fn) != VECS_SKELETON: raise Broken(f"{F}: statements outside the extracted parts changed:\n{skeleton(fn)}")
    # ---- _read_modes
    F = "_read_modes"
    fn = func(tree, F, "evec_load.py"); conds += conditionals(fn)
    try:
        lp = fn.body[0]; a1, a2, a3, yl = lp.body
        src1, k1 = strips(a1.value, F)
        arg = a2.value.args[0]; src2, k2 = strips(arg, F)
        if src1 != "next(fp)" or src2 != "line" or u(a1.targets[0]) != "line": raise ValueError
        a2.value.args = [hole("__MODELINE__")]
        a1.value = ast.parse("next(fp).strip()").body[0].value if k1 >= 1 else a1.value
        gen = a3.value.args[0]; zp = gen.generators[0].iter
        convs = zp.args[0]
        if not (isinstance(convs, ast.Tuple) and all(isinstance(c, ast.Name) for c in convs.elts)): raise ValueError
        conv_names = [c.id for c in convs.elts]
        zp.args[0] = hole("__CONVERTERS__")
        mode_strips = k1 + k2
    except Broken: raise
    except Exception:
        raise Broken(f"{F}: structure changed:\n{skeleton(fn)}")
    if skeleton(fn) != MODES_SKELETON: raise Broken(f"{F}: statements outside the extracted parts changed:\n{skeleton(fn)}")
    # ---- _read_q_points
    F = "_read_q_points"
    fn = func(tree, F, "evec_load.py"); conds += conditionals(fn)
    try:
        lp = fn.body[0]
        body = lp.body
    except Exception:
        raise Broken(f"{F}: structure changed")
    steps, q_strips, i = [], None, 0
    while i < len(body):
        st = body[i]; s = u(st)
        if s == "next(fp)": steps.append(".skip 1"); i += 1; continue
        if isinstance(st, ast.For) and u(st.iter).startswith("range(") and len(st.iter.args) == 1 and isinstance(st.iter.args[0], ast.Constant) \
                and isinstance(st.iter.args[0].value, int) and [u(x) for x in st.body] == ["next(fp)"] and not st.orelse:
            steps.append(f".skip {st.iter.args[0].value}"); i += 1; continue
        if isinstance(st, ast.Assign) and u(st.targets[0]) == "line":
            src, k = strips(st.value, F)
            nxt = [u(x) for x in body[i + 1:i + 3]]
            if src != "next(fp)" or nxt != ["res = Q_COORDS_REGEX.search(line)", "q_coords = tuple([float(i) for i in res.groups()])"]:
                raise Broken(f"{F}: q line statements changed: {[s] + nxt}")
            q_strips = k; steps.append(".qLine"); i += 3; continue
        if s == "yield (q_coords, tuple(_read_modes(fp, np)))": steps.append(".modes"); i += 1; continue
        raise Broken(f"{F}: statement outside grammar: {s[:100]}")
    lp.body = [ast.Expr(value=hole("__STEPS__"))]
    if skeleton(fn) != QPTS_SKELETON: raise Broken(f"{F}: statements outside the extracted parts changed:\n{skeleton(fn)}")
    # ---- evec_load
    fn = func(tree, "evec_load", "evec_load.py")
    if skeleton(fn) != LOAD_SKELETON: raise Broken(f"evec_load: body changed:\n{skeleton(fn)}")
    pairs = ", ".join(f"(({a}, {b}), ({c}, {d}))" for (a, b), (c, d) in comps)
    bl = lambda v: "true" if v else "false"
    return (f"/-- `Q_COORDS_REGEX = {doc(consts['Q_COORDS_REGEX'])}` -/\ndef qCoordsRegex : List Rx.Item :=\n  [{', '.join(qre)}]\n\n"
            f"/-- `MODE_INDEX_REGEX = {doc(consts['MODE_INDEX_REGEX'])}` -/\ndef modeIndexRegex : List Rx.Item :=\n  [{', '.join(mre)}]\n\n"
            f"/-- `_read_vecs`, `_read_modes`, `_read_q_points` (cij/misc/evec_load.py).  `vecComponents`: per element of the yielded tuple the\n"
            f"slice handed to `float()` for the real part and the slice multiplied by `1j` -/\ndef loadSpec : LoadSpec :=\n"
            f"  {{ qRegex := qCoordsRegex, modeRegex := modeIndexRegex,\n    vecComponents := [{pairs}],\n    vecStripped := {bl(nstrip >= 1)}, vecLinesDiv := {per},\n"
            f"    converters := [{', '.join(q(c) for c in conv_names)}], modeStripped := {bl(mode_strips >= 1)},\n"
            f"    qSteps := [{', '.join(steps)}], qStripped := {bl((q_strips or 0) >= 1)},\n"
            f"    conditionals := [{', '.join(q(c) for c in conds)}] }}\n")


# ------------------------------------------------------------------------------------------------ __init__
def gen_init(path):
    tree = load(path)
    exports, allv = [], None
    for x in tree.body:
        if isinstance(x, ast.ImportFrom) and x.level == 1:
            for a in x.names: exports.append((a.asname or a.name, x.module or "", a.name))
        elif isinstance(x, ast.Assign) and u(x.targets[0]) == "__all__" and isinstance(x.value, (ast.List, ast.Tuple)) \
                and all(isinstance(e, ast.Constant) and isinstance(e.value, str) for e in x.value.elts):
            allv = [e.value for e in x.value.elts]
        elif isinstance(x, ast.Expr) and isinstance(x.value, ast.Constant):
            continue
        else:
            raise Broken(f"cij/misc/__init__.py: statement outside grammar: {u(x)[:80]}")
    if allv is None: raise Broken("cij/misc/__init__.py: __all__ not found")
    return ("/-- `cij/misc/__init__.py`: (exported name, module, name inside the module) and `__all__` -/\n"
            f"def miscExports : List (String × String × String) := [{', '.join(f'({q(a)}, {q(b)}, {q(c)})' for a, b, c in exports)}]\n"
            f"def miscAll : List String := [{', '.join(q(a) for a in allv)}]\n")


def gen_evec_src():
    base = os.path.join(T.REPO, "cij", "misc")
    p_sort, p_disp, p_load, p_init = (os.path.join(base, f) for f in ("evec_sort.py", "evec_disp2eig.py", "evec_load.py", "__init__.py"))
    parts = [gen_sort(p_sort), gen_disp(p_disp), gen_load(p_load), gen_init(p_init)]
    txt = ("-- GENERATED by tools/gens/evec_src.py from cij/misc/evec_sort.py, evec_disp2eig.py, evec_load.py, __init__.py — do not edit\n"
           "import CijModel.EvecSrc\nopen Cij.EvecSrc\nnamespace Generated\n\n" + "\n".join(parts) + "\nend Generated\n")
    return {"EvecSpec.lean": txt}, [p_sort, p_disp, p_load, p_init]


GENERATORS = {"gen_evec_src": (gen_evec_src, ["EvecSpec.lean"])}
