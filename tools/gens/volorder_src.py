"""Translator plug-in (C13): the volume-order check of cij/core/qha_adapter.py and everything around it that decides WHEN it runs.

  QHACalculator.read_input      statement by statement as a list of `Cij.VolOrder.Step` values: which attribute of the qha calculator
                                receives which field of the file (per volume block, IN FILE ORDER: the comprehension iterates
                                `qha_input.volumes` itself — no sorted/reversed/filter), and the guard
                                    if [not] <test>(self.<attr>): raise <Exception>(...)
                                at the position it has among these statements.  <test> is either the call
                                `qha.tools.is_monotonic_decreasing(self.<attr>)` — then the comparison operator is read from the
                                INSTALLED qha (`np.all(np.diff(array) <op> 0)`) — or that expression written in line.
  Calculator._load              the assignments in order (attribute, callee, does an argument hand over `self.qha_input`)
  cij/core/*.py                 inventory of every function that iterates/indexes the volume blocks of the phonon file
                                (`<...>qha_input.volumes`), with the number of such reads

-> lean/Generated/VolOrderSpec.lean (consumed by CijProofs/Lemmas/VolOrderSource.lean and Properties/C13.lean).
Dropping the guard, moving it, another exception, another operator, sorting the blocks first, a new reader of the blocks in front of
the adapter: each changes the generated file (or leaves the grammar: TieBroken) and a theorem of C13 stops checking.
"""
import ast, glob, importlib.util, os, re
import gen_tables as T

CMP = {ast.Lt: ".lt", ast.LtE: ".le", ast.Gt: ".gt", ast.GtE: ".ge"}
NP = ("numpy", "np")


def _strip(fn):
    """body without docstring; AnnAssign -> Assign"""
    body = list(fn.body)
    if body and isinstance(body[0], ast.Expr) and isinstance(body[0].value, ast.Constant) and isinstance(body[0].value.value, str):
        body = body[1:]
    out = []
    for st in body:
        if isinstance(st, ast.AnnAssign) and st.value is not None:
            st = ast.copy_location(ast.Assign(targets=[st.target], value=st.value), st)
        out.append(st)
    return out


def _is_log(st):
    return isinstance(st, ast.Expr) and isinstance(st.value, ast.Call) and ast.unparse(st.value.func).split(".")[0] in ("logger", "logging")


def _np_call(node, name):
    """numpy.<name>(x) / np.<name>(x) with one positional argument -> x"""
    if (isinstance(node, ast.Call) and len(node.args) == 1 and not node.keywords and isinstance(node.func, ast.Attribute)
            and node.func.attr == name and isinstance(node.func.value, ast.Name) and node.func.value.id in NP):
        return node.args[0]
    return None


def _all_diff_cmp(node, what):
    """<np>.all(<np>.diff(X) <op> 0)  ->  (X, op)"""
    inner = _np_call(node, "all")
    if inner is None or not (isinstance(inner, ast.Compare) and len(inner.ops) == 1 and type(inner.ops[0]) in CMP):
        raise T.TieBroken(f"{what}: not numpy.all(numpy.diff(<array>) <op> 0): {ast.unparse(node)[:100]}")
    right = inner.comparators[0]
    if not (isinstance(right, ast.Constant) and type(right.value) in (int, float) and right.value == 0):
        raise T.TieBroken(f"{what}: the differences are not compared with the literal 0: {ast.unparse(inner)[:100]}")
    return inner.left, CMP[type(inner.ops[0])]


def qha_monotonic():
    """the installed qha's is_monotonic_decreasing: body `dx = np.diff(array); return np.all(dx <op> 0)` (or in one expression)"""
    spec = importlib.util.find_spec("qha")
    if spec is None or not spec.origin:
        raise T.TieBroken("qha not found for this interpreter")
    root = os.path.dirname(spec.origin)
    path = os.path.join(root, "tools.py")
    if not os.path.exists(path): raise T.TieBroken(f"{path} not found")
    tree = ast.parse(open(path).read())
    fn = next((f for f in tree.body if isinstance(f, ast.FunctionDef) and f.name == "is_monotonic_decreasing"), None)
    if fn is None: raise T.TieBroken("qha.tools.is_monotonic_decreasing not found")
    if len(fn.args.args) != 1 or fn.args.vararg or fn.args.kwarg or fn.args.kwonlyargs or fn.decorator_list:
        raise T.TieBroken("qha.tools.is_monotonic_decreasing: signature is not (array)")
    arg = fn.args.args[0].arg
    body = _strip(fn)
    env = {}
    for st in body[:-1]:
        if not (isinstance(st, ast.Assign) and len(st.targets) == 1 and isinstance(st.targets[0], ast.Name)):
            raise T.TieBroken(f"qha.tools.is_monotonic_decreasing: statement outside grammar: {ast.unparse(st)[:80]}")
        env[st.targets[0].id] = st.value
    if not body or not isinstance(body[-1], ast.Return) or body[-1].value is None:
        raise T.TieBroken("qha.tools.is_monotonic_decreasing does not end in a return")
    left, op = _all_diff_cmp(body[-1].value, "qha.tools.is_monotonic_decreasing")
    if isinstance(left, ast.Name) and left.id in env: left = env[left.id]
    x = _np_call(left, "diff")
    if not (isinstance(x, ast.Name) and x.id == arg):
        raise T.TieBroken(f"qha.tools.is_monotonic_decreasing: compares {ast.unparse(left)[:60]}, not numpy.diff of its argument")
    version = "unknown"
    for cand in ("version.py", "__init__.py"):
        p = os.path.join(root, cand)
        if os.path.exists(p):
            m = re.search(r'^__version__\s*=\s*["\']([^"\']+)["\']', open(p).read(), re.M)
            if m: version = m.group(1); break
    return op, version, path


def _self_attr(node):
    if isinstance(node, ast.Attribute) and isinstance(node.value, ast.Name) and node.value.id == "self":
        return node.attr
    return None


def _per_block(value):
    """numpy.array([<elt> for <v> in qha_input.volumes]) -> 'volume' | 'energy' | 'modes'; numpy.array([w for (_, w) in qha_input.weights]) -> 'weights'"""
    if not (isinstance(value, ast.Call) and ast.unparse(value.func) in ("numpy.array", "np.array") and len(value.args) == 1
            and not value.keywords and isinstance(value.args[0], ast.ListComp)):
        return None
    lc = value.args[0]
    if len(lc.generators) != 1: return None
    g = lc.generators[0]
    if g.ifs or g.is_async: return None
    it = ast.unparse(g.iter)
    if it == "qha_input.volumes" and isinstance(g.target, ast.Name):
        v = g.target.id
        e = ast.unparse(lc.elt)
        if e == f"{v}.volume": return "volume"
        if e == f"{v}.energy": return "energy"
        if isinstance(lc.elt, ast.ListComp) and len(lc.elt.generators) == 1:
            g2 = lc.elt.generators[0]
            if (not g2.ifs and ast.unparse(g2.iter) == f"{v}.q_points" and isinstance(g2.target, ast.Tuple) and len(g2.target.elts) == 2
                    and all(isinstance(t, ast.Name) for t in g2.target.elts) and isinstance(lc.elt.elt, ast.Name)
                    and lc.elt.elt.id == g2.target.elts[1].id):
                return "modes"
        return None
    if it == "qha_input.weights" and isinstance(g.target, ast.Tuple) and len(g.target.elts) == 2 \
            and all(isinstance(t, ast.Name) for t in g.target.elts) and isinstance(lc.elt, ast.Name) and lc.elt.id == g.target.elts[1].id:
        return "weights"
    return None


def gen_volorder():
    q = T.lean_str
    path = os.path.join(T.REPO, "cij/core/qha_adapter.py")
    tree = ast.parse(open(path).read())
    Q = next((c for c in tree.body if isinstance(c, ast.ClassDef) and c.name == "QHACalculator"), None)
    ri = next((f for f in Q.body if isinstance(f, ast.FunctionDef) and f.name == "read_input"), None) if Q else None
    if ri is None: raise T.TieBroken("QHACalculator.read_input not found")
    if [a.arg for a in ri.args.args] != ["self", "qha_input"] or ri.decorator_list:
        raise T.TieBroken("QHACalculator.read_input: signature is not (self, qha_input)")
    steps, origin, sources = [], None, [path]
    qha_op = qha_version = None
    for st in _strip(ri):
        if _is_log(st): continue
        if isinstance(st, ast.Assign) and len(st.targets) == 1 and _self_attr(st.targets[0]):
            attr = _self_attr(st.targets[0])
            if ast.unparse(st.value) == "qha_input.nm":
                steps.append(f".scalar {q(attr)} \"nm\""); continue
            kind = _per_block(st.value)
            if kind == "weights": steps.append(f".weights {q(attr)}"); continue
            if kind in ("volume", "energy", "modes"): steps.append(f".perBlock {q(attr)} .{kind}"); continue
            raise T.TieBroken(f"QHACalculator.read_input: self.{attr} is not a field of the file listed in file order: {ast.unparse(st.value)[:100]}")
        if isinstance(st, ast.If):
            if st.orelse: raise T.TieBroken("QHACalculator.read_input: the guard has an else branch")
            inner = [s for s in st.body if not _is_log(s)]
            if len(inner) != 1 or not isinstance(inner[0], ast.Raise) or inner[0].exc is None:
                raise T.TieBroken("QHACalculator.read_input: the guarded block is not a single raise")
            exc = inner[0].exc
            exc_name = ast.unparse(exc.func) if isinstance(exc, ast.Call) else ast.unparse(exc)
            test, negated = st.test, False
            if isinstance(test, ast.UnaryOp) and isinstance(test.op, ast.Not):
                test, negated = test.operand, True
            if isinstance(test, ast.Call) and ast.unparse(test.func) == "qha.tools.is_monotonic_decreasing" and len(test.args) == 1 and not test.keywords:
                arg = test.args[0]
                op, qha_version, qpath = qha_monotonic()
                qha_op = op
                sources.append(qpath)
                this_origin = "qha.tools.is_monotonic_decreasing"
            else:
                arg, op = _all_diff_cmp(test, "QHACalculator.read_input: test of the guard")
                inner_arg = _np_call(arg, "diff")
                if inner_arg is None: raise T.TieBroken(f"QHACalculator.read_input: test does not take numpy.diff: {ast.unparse(test)[:100]}")
                arg = inner_arg
                this_origin = "inline"
            attr = _self_attr(arg)
            if attr is None: raise T.TieBroken(f"QHACalculator.read_input: the guard tests {ast.unparse(arg)[:60]}, not an attribute of self")
            if origin is not None: raise T.TieBroken("QHACalculator.read_input: more than one guard")
            origin = this_origin
            steps.append(f".guard ⟨{q(attr)}, {'true' if negated else 'false'}, {op}, {q(exc_name)}⟩")
            continue
        raise T.TieBroken(f"QHACalculator.read_input: statement outside grammar: {ast.unparse(st)[:100]}")
    if qha_op is None:
        # the installed qha is read in any case: the file records what qha's own reader would demand
        qha_op, qha_version, qpath = qha_monotonic(); sources.append(qpath)

    # Calculator._load: assignments in order
    cpath = os.path.join(T.REPO, "cij/core/calculator.py")
    ctree = ast.parse(open(cpath).read())
    C = next((c for c in ctree.body if isinstance(c, ast.ClassDef) and c.name == "Calculator"), None)
    load = next((f for f in C.body if isinstance(f, ast.FunctionDef) and f.name == "_load"), None) if C else None
    if load is None: raise T.TieBroken("Calculator._load not found")
    load_steps = []
    for st in _strip(load):
        if _is_log(st): continue
        if not (isinstance(st, ast.Assign) and len(st.targets) == 1):
            raise T.TieBroken(f"Calculator._load: statement outside grammar: {ast.unparse(st)[:80]}")
        tgt = st.targets[0]
        uses = any(ast.unparse(n) == "self.qha_input" for n in ast.walk(st.value))
        if _self_attr(tgt) and isinstance(st.value, ast.Call):
            load_steps.append((_self_attr(tgt), ast.unparse(st.value.func), uses))
        elif isinstance(tgt, ast.Name) and not uses:
            continue                          # local path arithmetic (config_fname, work_dir)
        else:
            raise T.TieBroken(f"Calculator._load: statement outside grammar: {ast.unparse(st)[:80]}")
    sources.append(cpath)

    # inventory: who reads the volume blocks of the phonon file in cij/core
    readers = []
    for p in sorted(glob.glob(os.path.join(T.REPO, "cij/core/*.py"))):
        mod = os.path.basename(p)[:-3]
        mtree = ast.parse(open(p).read())
        counts = {}
        def count(node, qual):
            for ch in ast.iter_child_nodes(node):
                qn = qual
                if isinstance(ch, (ast.FunctionDef, ast.AsyncFunctionDef, ast.ClassDef)):
                    qn = (qual + "." if qual else "") + ch.name
                if isinstance(ch, ast.Attribute) and ch.attr == "volumes" and ast.unparse(ch.value).split(".")[-1] in ("qha_input", "input01"):
                    counts[qual or "<module>"] = counts.get(qual or "<module>", 0) + 1
                count(ch, qn)
        count(mtree, "")
        for k in counts: readers.append((mod, k, counts[k]))
        if counts: sources.append(p)

    txt = ("-- GENERATED by tools/gens/volorder_src.py from cij/core/qha_adapter.py, cij/core/calculator.py, cij/core/*.py and the installed qha/tools.py — do not edit\n"
           "import CijModel.VolOrder\nnamespace Generated.VolOrder\nopen Cij.VolOrder\n\n"
           "/-- `QHACalculator.read_input(self, qha_input)`, statement by statement (logging aside, nothing else):\n"
           "`.scalar a f`     `self.<a> = qha_input.<f>`;\n"
           "`.perBlock a k`   `self.<a> = numpy.array([<k of the block> for volume in qha_input.volumes])` — the blocks themselves, in file order;\n"
           "`.weights a`      `self.<a> = numpy.array([weight for (q_coord, weight) in qha_input.weights])`;\n"
           "`.guard ⟨a, negated, op, exc⟩`   `if [not] numpy.all(numpy.diff(self.<a>) <op> 0): raise <exc>(…)` -/\n"
           "def readInputSteps : List Step :=\n  [" + ",\n   ".join(steps) + "]\n\n"
           "/-- where the test of the guard is written: the qha function it calls (its comparison operator is then `qhaMonotonicOp`,\n"
           "read from the installed qha), or \"inline\"; \"\" when `read_input` has no guard -/\n"
           f"def guardTestOrigin : String := {q(origin or '')}\n\n"
           "/-- `qha.tools.is_monotonic_decreasing(array)` of the installed qha: `numpy.all(numpy.diff(array) <op> 0)` -/\n"
           f"def qhaMonotonicOp : Cmp := {qha_op}\n"
           f"def qhaVersion : String := {q(qha_version)}\n\n"
           "/-- `Calculator._load`: (attribute of self assigned, callee, is `self.qha_input` among the arguments), in order -/\n"
           "def loadSteps : List (String × String × Bool) :=\n  [" + ", ".join(f"({q(a)}, {q(b)}, {'true' if c else 'false'})" for a, b, c in load_steps) + "]\n\n"
           "/-- every function of cij/core that reads the volume blocks of the phonon file (`….qha_input.volumes`): (module, function, number of reads) -/\n"
           "def volumeBlockReaders : List (String × String × Nat) :=\n  [" + ", ".join(f"({q(a)}, {q(b)}, {c})" for a, b, c in readers) + "]\n\nend Generated.VolOrder\n")
    return {"VolOrderSpec.lean": txt}, sources


GENERATORS = {"gen_volorder": (gen_volorder, ["VolOrderSpec.lean"])}
