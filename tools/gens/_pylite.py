"""Python `ast`  ->  `PyLite.Module` literal (lean/CijModel/PyLite.lean).   Reusable part of the PyLite translator plug-ins.

`translate_module(path, rel)` parses ONE pure-Python module of the working tree and returns the Lean text of a `PyLite.Module`
value.  The grammar is exactly the constructor set of PyLite; every construct outside it raises `TieBroken` naming the
function, the line and the construct — never a silent skip, never an approximation.  Docstrings, type annotations, comments and
layout do not reach the output (they are not part of `ast` / are dropped), so edits to them never change the generated file.

The file name starts with `_` so that tools/gen_tables.py does not load it as a plug-in.
"""
import ast

import gen_tables as T

BUILTINS = {"int", "str", "repr", "len", "type", "tuple", "list", "dict", "bool", "sorted", "set",
            "RuntimeError", "ValueError", "TypeError", "KeyError", "IndexError", "AttributeError", "NameError",
            "ZeroDivisionError", "RecursionError", "NotImplementedError", "Exception"}
GEN_CONSUMERS = {"dict", "tuple", "list", "sorted"}        # f(<genexp>) consumes the generator completely and at once
CMP = {ast.Eq: "eq", ast.NotEq: "ne", ast.Lt: "lt", ast.LtE: "le", ast.Gt: "gt", ast.GtE: "ge",
       ast.In: "in_", ast.NotIn: "notIn", ast.Is: "is_", ast.IsNot: "isNot"}
BIN = {ast.Add: "add", ast.Sub: "sub", ast.Mult: "mul", ast.LShift: "shl", ast.Mod: "mod"}


def s(x):
    return T.lean_str(x)


def lst(items, ind=None):
    """Lean list literal; one item per line when `ind` (an indentation string) is given and the list is long"""
    items = list(items)
    flat = "[" + ", ".join(items) + "]"
    if ind is None or len(flat) + len(ind) <= 118 or not items:
        return flat
    return "[\n" + ",\n".join(ind + "  " + i for i in items) + "]"


class Tr:
    def __init__(self, rel):
        self.rel = rel
        self.where = "<module>"
        self.module_names = set()          # globals + classes defined so far (module-level order check)
        self.all_module_names = set()      # every module-level name (a lambda may mention them)

    def broken(self, node, what):
        ln = getattr(node, "lineno", "?")
        raise T.TieBroken(f"{self.rel}: {self.where} (line {ln}): {what} is outside the PyLite subset")

    # ------------------------------------------------------------------ expressions
    def const(self, node, v):
        if v is None: return ".none"
        if isinstance(v, bool): return f"(.bool {'true' if v else 'false'})"
        if isinstance(v, int): return f"(.int ({v}))" if v < 0 else f"(.int {v})"
        if isinstance(v, str):
            if any(ord(c) < 32 and c not in "\n\t" for c in v): self.broken(node, f"string constant with control characters {v!r}")
            return f"(.str {s(v)})"
        self.broken(node, f"constant {v!r} of type {type(v).__name__}")

    def target(self, node):
        if isinstance(node, ast.Name): return f"(.name {s(node.id)})"
        if isinstance(node, ast.Tuple) and all(isinstance(e, ast.Name) for e in node.elts):
            return "(.tuple " + lst(s(e.id) for e in node.elts) + ")"
        self.broken(node, f"assignment / loop target `{ast.unparse(node)}`")

    def expr(self, n, star_ok=False, gen_ok=False):
        E = self.expr
        if isinstance(n, ast.Constant): return f"(.const {self.const(n, n.value)})"
        if isinstance(n, ast.Name):
            if not isinstance(n.ctx, ast.Load): self.broken(n, "name in store context")
            return f"(.name {s(n.id)})"
        if isinstance(n, ast.Attribute): return f"(.attr {E(n.value)} {s(n.attr)})"
        if isinstance(n, ast.Tuple): return "(.tuple " + lst(E(e, star_ok=True) for e in n.elts) + ")"
        if isinstance(n, ast.Dict):
            if any(k is None for k in n.keys): self.broken(n, "`**` in a dict display")
            return "(.dict " + lst(E(k) for k in n.keys) + " " + lst(E(v) for v in n.values) + ")"
        if isinstance(n, ast.Set): return "(.set " + lst(E(e) for e in n.elts) + ")"
        if isinstance(n, ast.Subscript):
            if isinstance(n.slice, ast.Slice) or (isinstance(n.slice, ast.Tuple) and any(isinstance(e, ast.Slice) for e in n.slice.elts)):
                self.broken(n, f"slice `{ast.unparse(n)}`")
            return f"(.subscript {E(n.value)} {E(n.slice)})"
        if isinstance(n, ast.Compare):
            if len(n.ops) != 1: self.broken(n, f"chained comparison `{ast.unparse(n)}`")
            op = CMP.get(type(n.ops[0]))
            if op is None: self.broken(n, f"comparison operator in `{ast.unparse(n)}`")
            return f"(.cmp .{op} {E(n.left)} {E(n.comparators[0])})"
        if isinstance(n, ast.BoolOp):
            return f"(.boolop .{'and' if isinstance(n.op, ast.And) else 'or'} " + lst(E(v) for v in n.values) + ")"
        if isinstance(n, ast.UnaryOp):
            if isinstance(n.op, ast.Not): return f"(.not {E(n.operand)})"
            if isinstance(n.op, ast.USub) and isinstance(n.operand, ast.Constant) and type(n.operand.value) is int:
                return f"(.const {self.const(n, -n.operand.value)})"
            self.broken(n, f"unary operator `{ast.unparse(n)}`")
        if isinstance(n, ast.BinOp):
            op = BIN.get(type(n.op))
            if op is None: self.broken(n, f"binary operator `{ast.unparse(n)}`")
            return f"(.binop .{op} {E(n.left)} {E(n.right)})"
        if isinstance(n, ast.Call):
            consumes = (isinstance(n.func, ast.Name) and n.func.id in GEN_CONSUMERS) or \
                       (isinstance(n.func, ast.Attribute) and n.func.attr == "join")
            args = []
            for a in n.args:
                args.append(E(a, star_ok=True, gen_ok=consumes and len(n.args) == 1))
            kws = []
            for k in n.keywords:
                if k.arg is None: self.broken(n, f"`**` argument in `{ast.unparse(n)}`")
                kws.append(f"({s(k.arg)}, {E(k.value)})")
            return f"(.call {E(n.func)} {lst(args)} {lst(kws)})"
        if isinstance(n, ast.Starred):
            if not star_ok: self.broken(n, f"starred expression `{ast.unparse(n)}` outside a call / tuple display")
            return f"(.starred {E(n.value, gen_ok=True)})"
        if isinstance(n, ast.GeneratorExp):
            if not gen_ok:
                self.broken(n, f"generator expression `{ast.unparse(n)}` in a position where it is not consumed at once")
            if len(n.generators) != 1: self.broken(n, "generator expression with several `for` clauses")
            g = n.generators[0]
            if g.ifs or g.is_async: self.broken(n, "generator expression with `if` / `async`")
            return f"(.genexp {E(n.elt)} {self.target(g.target)} {E(g.iter)})"
        if isinstance(n, ast.Lambda):
            a = n.args
            if a.posonlyargs or a.kwonlyargs or a.vararg or a.kwarg or a.defaults or a.kw_defaults:
                self.broken(n, f"lambda signature `{ast.unparse(n)}`")
            params = [x.arg for x in a.args]
            free = {x.id for x in ast.walk(n.body) if isinstance(x, ast.Name)} - set(params)
            bad = sorted(free - self.all_module_names - BUILTINS)
            if bad: self.broken(n, f"lambda `{ast.unparse(n)}` closing over local variable(s) {bad}")
            return f"(.lambda {lst(s(p) for p in params)} {E(n.body)})"
        if isinstance(n, ast.JoinedStr):
            parts = []
            for v in n.values:
                if isinstance(v, ast.Constant) and isinstance(v.value, str): parts.append(f"(.const {self.const(v, v.value)})")
                elif isinstance(v, ast.FormattedValue):
                    if v.conversion != -1 or v.format_spec is not None:
                        self.broken(n, f"f-string conversion / format spec in `{ast.unparse(n)}`")
                    parts.append(E(v.value))          # str(<str>) is the str itself, so a constant placeholder is a literal part
                else: self.broken(n, "f-string part")
            return "(.fstring " + lst(parts) + ")"
        self.broken(n, f"expression `{ast.unparse(n)[:60]}` ({type(n).__name__})")

    # ------------------------------------------------------------------ statements
    def stmts(self, body, ind, first_doc=True):
        out = []
        for i, st in enumerate(body):
            if isinstance(st, ast.Expr) and isinstance(st.value, ast.Constant) and isinstance(st.value.value, str):
                continue                      # docstring / bare string: no effect
            out.append(self.stmt(st, ind))
        return out

    def stmt(self, st, ind):
        if isinstance(st, ast.Assign):
            if len(st.targets) != 1: self.broken(st, f"chained assignment `{ast.unparse(st)}`")
            return f"(.assign {self.target(st.targets[0])} {self.expr(st.value)})"
        if isinstance(st, ast.If):
            a = lst(self.stmts(st.body, ind + "  "), ind + "  ")
            b = lst(self.stmts(st.orelse, ind + "  "), ind + "  ")
            return f"(.ifElse {self.expr(st.test)}\n{ind}    {a}\n{ind}    {b})"
        if isinstance(st, ast.Return):
            return "(.ret none)" if st.value is None else f"(.ret (some {self.expr(st.value)}))"
        if isinstance(st, ast.Raise):
            if st.exc is None or st.cause is not None: self.broken(st, f"`{ast.unparse(st)}`")
            return f"(.raise {self.expr(st.exc)})"
        if isinstance(st, ast.Expr): return f"(.expr {self.expr(st.value)})"
        if isinstance(st, ast.Pass): return ".pass"
        self.broken(st, f"statement `{ast.unparse(st).splitlines()[0][:60]}` ({type(st).__name__})")

    # ------------------------------------------------------------------ definitions
    def fundef(self, cls, fn, fields):
        self.where = f"{cls}.{fn.name}"
        if isinstance(fn, ast.AsyncFunctionDef): self.broken(fn, "async def")
        decos = [ast.unparse(d) for d in fn.decorator_list]
        if decos == []: kind = "method"
        elif decos == ["classmethod"]: kind = "classmethod"
        elif decos == ["property"]: kind = "property"
        else: self.broken(fn, f"decorator(s) {decos}")
        if fn.name in fields: self.broken(fn, f"function named like the field `{fn.name}`")
        a = fn.args
        if a.posonlyargs or a.kwonlyargs or a.kwarg or a.kw_defaults: self.broken(fn, "keyword-only / positional-only / ** parameters")
        if not a.args: self.broken(fn, "function without a self / cls parameter")
        nd = len(a.defaults)
        params = []
        for i, p in enumerate(a.args):
            j = i - (len(a.args) - nd)
            if j >= 0:
                d = a.defaults[j]
                if not isinstance(d, ast.Constant): self.broken(fn, f"non-constant default `{ast.unparse(d)}`")
                params.append(f"{{ name := {s(p.arg)}, default := some {self.const(d, d.value)} }}")
            else:
                params.append(f"{{ name := {s(p.arg)} }}")
        for sub in ast.walk(fn):
            if sub is not fn and isinstance(sub, (ast.FunctionDef, ast.AsyncFunctionDef, ast.ClassDef, ast.Global, ast.Nonlocal)):
                self.broken(sub, f"nested definition / scope statement `{type(sub).__name__}`")
        va = f"some {s(a.vararg.arg)}" if a.vararg else "none"
        ind = "        "
        body = lst(self.stmts(fn.body, ind), ind)
        return (f"{{ name := {s(fn.name)}, kind := .{kind}, params := {lst(params)}, vararg := {va},\n"
                f"{ind}body := {body} }}")

    def classdef(self, c, imported):
        self.where = f"class {c.name}"
        if c.decorator_list or c.keywords: self.broken(c, "class decorator / keyword")
        bases = [ast.unparse(b) for b in c.bases]
        if bases == ["NamedTuple"] and imported.get("NamedTuple") == "typing":
            fields, funs = [], []
            for st in c.body:
                if isinstance(st, ast.Expr) and isinstance(st.value, ast.Constant) and isinstance(st.value.value, str): continue
                if isinstance(st, ast.Pass): continue
                if isinstance(st, ast.AnnAssign):
                    if not isinstance(st.target, ast.Name) or st.value is not None: self.broken(st, f"field `{ast.unparse(st)}` (default / non-name)")
                    if funs: self.broken(st, "field declared after a function")
                    fields.append(st.target.id)
                elif isinstance(st, (ast.FunctionDef, ast.AsyncFunctionDef)):
                    funs.append(st)
                else: self.broken(st, f"class-body statement `{ast.unparse(st)[:50]}`")
            names = [f.name for f in funs]
            if len(set(names)) != len(names): self.broken(c, "function defined twice")
            self.module_names.add(c.name)          # methods may refer to their own class
            fl = [self.fundef(c.name, f, fields) for f in funs]
            self.where = f"class {c.name}"
            return (f"{{ name := {s(c.name)}, kind := .namedTuple {lst(s(f) for f in fields)},\n      funs := " +
                    "[\n      " + ",\n      ".join(fl) + "] }")
        if bases == ["Enum"] and imported.get("Enum") == "enum":
            members = []
            for st in c.body:
                if isinstance(st, ast.Expr) and isinstance(st.value, ast.Constant) and isinstance(st.value.value, str): continue
                ok = (isinstance(st, ast.Assign) and len(st.targets) == 1 and isinstance(st.targets[0], ast.Name)
                      and isinstance(st.value, ast.Call) and ast.unparse(st.value) == "auto()" and imported.get("auto") == "enum")
                if not ok: self.broken(st, f"Enum body statement `{ast.unparse(st)[:50]}` (only `NAME = auto()` members)")
                members.append(st.targets[0].id)
            if len(set(members)) != len(members): self.broken(c, "Enum member defined twice")
            self.module_names.add(c.name)
            return f"{{ name := {s(c.name)}, kind := .enum {lst(s(x) for x in members)} }}"
        self.broken(c, f"class with bases {bases}")


def translate_module(path, rel):
    """-> (lean text of the `PyLite.Module` value, list of global names, list of class names)"""
    tree = ast.parse(open(path).read())
    tr = Tr(rel)
    imported, globs, classes, cnames = {}, [], [], []
    for st in tree.body:
        if isinstance(st, ast.ClassDef): tr.all_module_names.add(st.name)
        if isinstance(st, ast.Assign):
            tr.all_module_names |= {t.id for t in st.targets if isinstance(t, ast.Name)}
    for st in tree.body:
        tr.where = "<module>"
        if isinstance(st, ast.Expr) and isinstance(st.value, ast.Constant) and isinstance(st.value.value, str): continue
        if isinstance(st, ast.ImportFrom):
            if st.level != 0 or st.module not in ("typing", "enum"): tr.broken(st, f"`{ast.unparse(st)}`")
            for a in st.names:
                if a.asname: tr.broken(st, f"`{ast.unparse(st)}` (renaming import)")
                imported[a.name] = st.module
            continue
        if isinstance(st, ast.Assign):
            if len(st.targets) != 1 or not isinstance(st.targets[0], ast.Name): tr.broken(st, f"module-level `{ast.unparse(st)[:50]}`")
            name = st.targets[0].id
            used = {x.id for x in ast.walk(st.value) if isinstance(x, ast.Name) and isinstance(x.ctx, ast.Load)}
            bound = {x.id for x in ast.walk(st.value) if isinstance(x, ast.Name) and isinstance(x.ctx, ast.Store)}
            bad = sorted(used - bound - tr.module_names - BUILTINS)
            if bad: tr.broken(st, f"module-level `{name} = …` mentioning {bad} before its definition")
            if name in tr.module_names: tr.broken(st, f"module-level name `{name}` bound twice")
            globs.append((name, tr.expr(st.value)))
            tr.module_names.add(name)
            continue
        if isinstance(st, ast.ClassDef):
            if st.name in tr.module_names: tr.broken(st, f"module-level name `{st.name}` bound twice")
            classes.append(tr.classdef(st, imported)); cnames.append(st.name)
            continue
        tr.broken(st, f"module-level statement `{ast.unparse(st).splitlines()[0][:60]}` ({type(st).__name__})")
    txt = ("{ globals := [\n    " + ",\n    ".join(f"({s(n)}, {e})" for n, e in globs) + "],\n"
           "    classes := [\n    " + ",\n    ".join(classes) + "] }")
    return txt, [n for n, _ in globs], cnames
