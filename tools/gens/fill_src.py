"""Translator plug-in: the SOURCE of `cij/util/fill.py: fill_cij` and `cij/cli/fill.py: main` -> lean/Generated/FillSpec.lean.

What is extracted as DATA / EXPRESSION TREES (consumed by `CijProofs/Lemmas/FillSource.lean` and the
`fill_model_is_source_*` theorems of `Properties/C09.lean`):
  * the parameters of `fill_cij` and the default of every keyword parameter (exact decimal fractions);
  * the 21 symbol names, by EVALUATING the `itertools.product(range(..), range(..)) if i <= j` comprehension with a tiny
    evaluator (no import of cij / sympy);
  * the regex literals of the fit loop and of the drop loop, and whether the name is lower-cased before it is matched;
  * the value written into a selector row;
  * the test that lets a user-supplied relations file replace the packaged one (boolean tree over `is_file` probes and
    `Path(system).name != system` = "has a directory part");
  * how an equation line `lhs = r1 = r2` becomes rows (separator, index of the left-hand side, first right-hand side,
    signs of `parts[0] - part`), together with the packaged relation files PART BY PART (linear forms);
  * the order of the stacked equations (tuples handed to `numpy.concatenate`), broadcast of the relations' constants;
  * the `numpy.linalg.lstsq` call (`rcond`), the definition of `residuals` as an array expression tree;
  * the two refusal tests as boolean expression trees, in source order, with the constant prefix of their messages;
  * the write-back key rule (`next((k for k in columns if k.lower() == sym), sym)`);
  * the drop rule (`numpy.allclose(col, 0, atol=drop_atol)`; numpy's default `rtol` multiplies |0|);
  * from the command: option declarations -> keyword name (click's naming rule) -> type/default, the popped argument,
    the field of line 2 that holds N, the `N + 1` table lines, `to_string(index=False)`.
Everything else in the two functions is compared on the NORMALISED ast (docstrings and annotations stripped, local
variables renamed canonically in order of first occurrence, comprehension variables scoped, `ast.unparse`) with the
canonical text below, with the extracted sub-expressions replaced by named holes: comments, blank lines, quoting, line
breaks and the names of locals never matter; any other change raises TieBroken naming the first statement that differs.
A pin says "the model was written against exactly this statement", nothing more.
Trusted constants typed in here (not read from cij): numpy.allclose's documented default `rtol = 1e-5`, click's rule
for deriving a parameter name from option declarations.
"""
import ast, copy, os, warnings
from fractions import Fraction

import gen_tables as T


class Broken(T.TieBroken):
    pass


# ---------------------------------------------------------------------------------------------- normalisation
def _strip(fn):
    if fn.body and isinstance(fn.body[0], ast.Expr) and isinstance(fn.body[0].value, ast.Constant) \
            and isinstance(fn.body[0].value.value, str):
        fn.body = fn.body[1:]
    fn.returns = None
    a = fn.args
    for x in a.posonlyargs + a.args + a.kwonlyargs + [y for y in (a.vararg, a.kwarg) if y]:
        x.annotation = None


def _params(fn):
    a = fn.args
    return [x.arg for x in a.posonlyargs + a.args + a.kwonlyargs] + [y.arg for y in (a.vararg, a.kwarg) if y]


def _local_stores(fn, keep):
    out = []

    def visit(node):
        if isinstance(node, ast.comprehension):          # comprehension targets live in their own scope
            visit(node.iter)
            for i in node.ifs: visit(i)
            return
        if isinstance(node, ast.Name) and isinstance(node.ctx, ast.Store) and node.id not in out:
            out.append(node.id)
        for ch in ast.iter_child_nodes(node): visit(ch)
    for st in fn.body: visit(st)
    return [n for n in out if n not in keep]


class _Renamer(ast.NodeTransformer):
    """locals -> v0, v1, … in order of first occurrence (depth-first, source order); comprehension variables -> w0, w1, …
    inside their comprehension only (the first iterable belongs to the enclosing scope, as in Python)."""

    def __init__(self, locals_, fixed=None):
        self.locals = set(locals_); self.map = dict(fixed or {}); self.nv = 0; self.scopes = []; self.nw = 0

    def visit_Name(self, node):
        for sc in reversed(self.scopes):
            if node.id in sc:
                node.id = sc[node.id]; return node
        if node.id in self.map:
            node.id = self.map[node.id]
        elif node.id in self.locals:
            self.map[node.id] = f"v{self.nv}"; self.nv += 1
            node.id = self.map[node.id]
        return node

    def _comp(self, node):
        gens = node.generators
        gens[0].iter = self.visit(gens[0].iter)
        sc = {}
        for g in gens:
            for n in ast.walk(g.target):
                if isinstance(n, ast.Name) and n.id not in sc:
                    sc[n.id] = f"w{self.nw}"; self.nw += 1
        self.scopes.append(sc)
        for i, g in enumerate(gens):
            g.target = self.visit(g.target)
            if i > 0: g.iter = self.visit(g.iter)
            g.ifs = [self.visit(x) for x in g.ifs]
        if isinstance(node, ast.DictComp):
            node.key = self.visit(node.key); node.value = self.visit(node.value)
        else:
            node.elt = self.visit(node.elt)
        self.scopes.pop()
        return node
    visit_ListComp = visit_GeneratorExp = visit_SetComp = visit_DictComp = _comp


def load(path, name, rename_star=False):
    with warnings.catch_warnings():
        warnings.simplefilter("ignore")            # cli/fill.py has an invalid escape in a plain string
        tree = ast.parse(open(path).read())
    fns = [n for n in tree.body if isinstance(n, ast.FunctionDef) and n.name == name]
    if len(fns) != 1: raise Broken(f"{os.path.basename(path)}: function {name} not found exactly once")
    fn = fns[0]
    _strip(fn)
    fixed = {}
    if rename_star:                                # `def main(**kwargs)`: the name of the ** parameter is free
        if fn.args.kwarg is not None:
            fixed[fn.args.kwarg.arg] = "KW"; fn.args.kwarg.arg = "KW"
    keep = set(_params(fn)) | set(fixed)
    r = _Renamer(_local_stores(fn, keep), fixed)
    fn.body = [r.visit(st) for st in fn.body]
    return fn, tree


def hole(name):
    return ast.Name(id=f"__{name}__", ctx=ast.Load())


def compare(where, body, canon):
    got = [ast.unparse(st) for st in body]
    for i, (g, c) in enumerate(zip(got, canon)):
        if g != c:
            raise Broken(f"{where}: statement {i} changed — now `{g[:300]}`; the model was written against `{c[:300]}`")
    if len(got) != len(canon):
        extra = got[len(canon):len(canon) + 1] or canon[len(got):len(got) + 1]
        raise Broken(f"{where}: {len(got)} statements where the model mirrors {len(canon)}; first unmatched: `{extra[0][:300]}`")


def first_difference(where, body, canon_full):
    got = [ast.unparse(st) for st in body]
    for i, g in enumerate(got):
        if i >= len(canon_full) or g != canon_full[i]:
            c = canon_full[i] if i < len(canon_full) else "<nothing>"
            return Broken(f"{where}: statement {i} changed — now `{g[:300]}`; the model was written against `{c[:300]}`")
    return Broken(f"{where}: {len(got)} statements where the model mirrors {len(canon_full)}; missing `{canon_full[len(got)][:200]}`"
                  if len(got) < len(canon_full) else f"{where}: structure outside the grammar")


# ---------------------------------------------------------------------------------------------- small grammars
def frac_of_const(node, what):
    if isinstance(node, ast.UnaryOp) and isinstance(node.op, ast.USub):
        return -frac_of_const(node.operand, what)
    if not isinstance(node, ast.Constant) or isinstance(node.value, bool) or not isinstance(node.value, (int, float)):
        raise Broken(f"{what}: not a numeric literal: {ast.unparse(node)}")
    return Fraction(repr(node.value))


def lean_frac(fr):
    return f"({fr.numerator}, {fr.denominator})"


def lean_default(node, what):
    if isinstance(node, ast.Constant) and node.value is None: return "FillDefault.none"
    if isinstance(node, ast.Constant) and isinstance(node.value, bool): return f"FillDefault.bool {'true' if node.value else 'false'}"
    fr = frac_of_const(node, what)
    return f"FillDefault.num ({fr.numerator}) {fr.denominator}"


def eval_symbols(lc):
    """`[(f"c{i}{j}", sympy.symbols(f"c{i}{j}")) for (i, j) in itertools.product(range(1, 7), range(1, 7)) if i <= j]`
    evaluated by hand: the keys, in order."""
    if not isinstance(lc, ast.ListComp) or len(lc.generators) != 1:
        raise Broken(f"symbols: not a single-generator list comprehension: {ast.unparse(lc)[:120]}")
    g = lc.generators[0]
    if g.is_async: raise Broken("symbols: async comprehension")
    elt = lc.elt
    if not (isinstance(elt, ast.Tuple) and len(elt.elts) == 2 and isinstance(elt.elts[1], ast.Call)
            and ast.unparse(elt.elts[1].func) == "sympy.symbols" and len(elt.elts[1].args) == 1 and not elt.elts[1].keywords
            and ast.dump(elt.elts[1].args[0]) == ast.dump(elt.elts[0])):
        raise Broken(f"symbols: element is not (name, sympy.symbols(name)): {ast.unparse(elt)[:120]}")

    def ev_range(n):
        if not (isinstance(n, ast.Call) and ast.unparse(n.func) == "range" and 1 <= len(n.args) <= 3 and not n.keywords):
            raise Broken(f"symbols: iterable outside grammar: {ast.unparse(n)}")
        vals = []
        for a in n.args:
            fr = frac_of_const(a, "symbols: range bound")
            if fr.denominator != 1: raise Broken("symbols: non-integer range bound")
            vals.append(int(fr))
        return list(range(*vals))
    it = g.iter
    if isinstance(it, ast.Call) and ast.unparse(it.func) == "itertools.product" and not it.keywords:
        pools = [ev_range(a) for a in it.args]
        items = [()]
        for p in pools: items = [t + (x,) for t in items for x in p]       # itertools.product order: last index fastest
    else:
        items = [(x,) for x in ev_range(it)]
    tgt = g.target
    names = [tgt.id] if isinstance(tgt, ast.Name) else [e.id for e in tgt.elts if isinstance(e, ast.Name)] if isinstance(tgt, ast.Tuple) else None
    if names is None or (isinstance(tgt, ast.Tuple) and len(names) != len(tgt.elts)):
        raise Broken(f"symbols: target outside grammar: {ast.unparse(tgt)}")

    def ev_int(n, env):
        if isinstance(n, ast.Name) and n.id in env: return env[n.id]
        fr = frac_of_const(n, "symbols: condition operand")
        if fr.denominator != 1: raise Broken("symbols: non-integer operand")
        return int(fr)
    OPS = {ast.Lt: lambda a, b: a < b, ast.LtE: lambda a, b: a <= b, ast.Gt: lambda a, b: a > b, ast.GtE: lambda a, b: a >= b,
           ast.Eq: lambda a, b: a == b, ast.NotEq: lambda a, b: a != b}

    def ev_bool(n, env):
        if isinstance(n, ast.BoolOp):
            vs = [ev_bool(v, env) for v in n.values]
            return all(vs) if isinstance(n.op, ast.And) else any(vs)
        if isinstance(n, ast.UnaryOp) and isinstance(n.op, ast.Not): return not ev_bool(n.operand, env)
        if isinstance(n, ast.Compare):
            left = ev_int(n.left, env); ok = True
            for op, c in zip(n.ops, n.comparators):
                if type(op) not in OPS: raise Broken(f"symbols: comparison outside grammar: {ast.unparse(n)}")
                right = ev_int(c, env); ok = ok and OPS[type(op)](left, right); left = right
            return ok
        raise Broken(f"symbols: condition outside grammar: {ast.unparse(n)}")

    def ev_str(n, env):
        if isinstance(n, ast.Constant) and isinstance(n.value, str): return n.value
        if isinstance(n, ast.JoinedStr):
            s = ""
            for v in n.values:
                if isinstance(v, ast.Constant) and isinstance(v.value, str): s += v.value
                elif isinstance(v, ast.FormattedValue) and v.conversion == -1 and v.format_spec is None: s += str(ev_int(v.value, env))
                else: raise Broken(f"symbols: f-string part outside grammar: {ast.unparse(n)}")
            return s
        raise Broken(f"symbols: name expression outside grammar: {ast.unparse(n)}")
    out = []
    for t in items:
        if len(t) != len(names): raise Broken("symbols: target arity differs from the iterable")
        env = dict(zip(names, t))
        if all(ev_bool(c, env) for c in g.ifs):
            k = ev_str(elt.elts[0], env)
            if k not in out: out.append(k)                     # OrderedDict: a repeated key keeps its first position
    return out


PROBES = {"is_file": "isFile", "exists": "pathExists", "is_dir": "isDir"}
PARAM_ENUM = {"elast": "elast", "system": "system", "ignore_residuals": "ignoreResiduals", "ignore_rank": "ignoreRank",
              "drop_atol": "dropAtol", "residual_atol": "residualAtol"}
CMP = {ast.Lt: "lt", ast.LtE: "le", ast.Gt: "gt", ast.GtE: "ge", ast.Eq: "eq", ast.NotEq: "ne"}


def bool_tree(n, names, what):
    """boolean expression tree: and/or/not, scalar comparison of two atoms, numpy.any(array cmp atom), a bare flag,
    Path(<x>).is_file().  `names`: canonical local -> the role the model knows it by; parameters keep their names."""
    def atom(a):
        if isinstance(a, ast.Name):
            if a.id in names: return f'(FillAtom.var FillName.{names[a.id]})'
            raise Broken(f"{what}: unknown operand {a.id}")
        fr = frac_of_const(a, what)
        return f"(FillAtom.num ({fr.numerator}) {fr.denominator})"

    def go(n):
        if isinstance(n, ast.BoolOp):
            k = "and" if isinstance(n.op, ast.And) else "or"
            parts = [go(v) for v in n.values]
            r = parts[-1]
            for p in reversed(parts[:-1]): r = f"(FillBool.{k} {p} {r})"
            return r
        if isinstance(n, ast.UnaryOp) and isinstance(n.op, ast.Not): return f"(FillBool.not {go(n.operand)})"
        if isinstance(n, ast.Compare) and len(n.ops) == 1 and isinstance(n.ops[0], (ast.Eq, ast.NotEq)):
            # `Path(x).name != x` (either side): the string has a directory part, i.e. it is not a bare name
            l, r = n.left, n.comparators[0]
            if isinstance(l, ast.Name): l, r = r, l
            if isinstance(l, ast.Attribute) and l.attr == "name" and isinstance(l.value, ast.Call) and ast.unparse(l.value.func) == "Path" \
                    and len(l.value.args) == 1 and not l.value.keywords and isinstance(l.value.args[0], ast.Name) \
                    and isinstance(r, ast.Name) and r.id == l.value.args[0].id and r.id in names:
                t = f'(FillBool.probe FillProbe.hasDirPart FillName.{names[r.id]})'
                return t if isinstance(n.ops[0], ast.NotEq) else f"(FillBool.not {t})"
        if isinstance(n, ast.Compare) and len(n.ops) == 1 and type(n.ops[0]) in CMP:
            return f"(FillBool.cmp FillCmp.{CMP[type(n.ops[0])]} {atom(n.left)} {atom(n.comparators[0])})"
        if isinstance(n, ast.Call) and ast.unparse(n.func) == "numpy.any" and len(n.args) == 1 and not n.keywords:
            c = n.args[0]
            if isinstance(c, ast.Compare) and len(c.ops) == 1 and type(c.ops[0]) in CMP:
                return f"(FillBool.anyCmp FillCmp.{CMP[type(c.ops[0])]} {atom(c.left)} {atom(c.comparators[0])})"
        if isinstance(n, ast.Call) and isinstance(n.func, ast.Attribute) and not n.args and not n.keywords:
            v = n.func.value
            if isinstance(v, ast.Call) and ast.unparse(v.func) == "Path" and len(v.args) == 1 and not v.keywords \
                    and isinstance(v.args[0], ast.Name) and v.args[0].id in names:
                if n.func.attr not in PROBES: raise Broken(f"{what}: path probe {n.func.attr} unknown to the model")
                return f'(FillBool.probe FillProbe.{PROBES[n.func.attr]} FillName.{names[v.args[0].id]})'
        if isinstance(n, ast.Name) and n.id in names: return f'(FillBool.flag FillName.{names[n.id]})'
        raise Broken(f"{what}: expression outside grammar: {ast.unparse(n)[:160]}")
    return go(n)


def arr_tree(n, names, what):
    """array expression tree: names, `@`, `-`, `+`, `** k`, numpy.sum(·, axis=k)"""
    if isinstance(n, ast.Name) and n.id in names: return f'(FillArr.var FillName.{names[n.id]})'
    if isinstance(n, ast.BinOp):
        if isinstance(n.op, ast.MatMult): return f"(FillArr.matmul {arr_tree(n.left, names, what)} {arr_tree(n.right, names, what)})"
        if isinstance(n.op, ast.Sub): return f"(FillArr.sub {arr_tree(n.left, names, what)} {arr_tree(n.right, names, what)})"
        if isinstance(n.op, ast.Add): return f"(FillArr.add {arr_tree(n.left, names, what)} {arr_tree(n.right, names, what)})"
        if isinstance(n.op, ast.Pow) and isinstance(n.right, ast.Constant) and type(n.right.value) is int and n.right.value >= 0:
            return f"(FillArr.powNat {arr_tree(n.left, names, what)} {n.right.value})"
    if isinstance(n, ast.Call) and ast.unparse(n.func) == "numpy.sum" and len(n.args) == 1 and len(n.keywords) == 1 \
            and n.keywords[0].arg == "axis" and isinstance(n.keywords[0].value, ast.Constant) and type(n.keywords[0].value.value) is int \
            and n.keywords[0].value.value >= 0:
        return f"(FillArr.sumAxis {arr_tree(n.args[0], names, what)} {n.keywords[0].value.value})"
    raise Broken(f"{what}: array expression outside grammar: {ast.unparse(n)[:160]}")


def msg_prefix(n):
    """left-most string constant of the message expression (what a reader of the Warning sees first)"""
    while True:
        if isinstance(n, ast.BinOp) and isinstance(n.op, ast.Add): n = n.left; continue
        if isinstance(n, ast.JoinedStr) and n.values: n = n.values[0]; continue
        break
    if isinstance(n, ast.Constant) and isinstance(n.value, str): return n.value
    raise Broken(f"refusal message does not start with a string constant: {ast.unparse(n)[:80]}")


# ---------------------------------------------------------------------------------------------- fill_cij
# canonical text of the normalised body, extracted sub-expressions replaced by holes
FILL_CANON = [
    "if system is None:\n    return elast",
    "v0 = OrderedDict(__SYMBOLS__)",
    "v1 = len(v0)",
    "v2 = []",
    "v3 = []",
    "for v4, v5 in elast.items():\n    v4 = v4.lower()\n    if not re.search(__REGEX_FIT__, v4):\n        continue\n"
    "    v6 = numpy.zeros(v1)\n    v6[list(v0.keys()).index(v4)] = __SELECTOR_VALUE__\n    v2.append(v6)\n    v3.append(v5.to_numpy())",
    "v2 = numpy.array(v2)",
    "v3 = numpy.array(v3)",
    "v7 = Path('constraints') / system",
    "v7 = get_data_fname(str(v7))",
    "if __LOOKUP_TEST__:\n    v7 = system",
    "v8 = []",
    "with open(v7) as v9:\n    for v10 in v9:\n        v11 = [parse_expr(w2) for w2 in v10.split(__EQ_SEP__)]\n"
    "        for v12 in v11[__EQ_FROM__:]:\n            v8.append(__EQ_ROW__)",
    "if len(v8) > 0:\n    v6, v13 = sympy.linear_eq_to_matrix(v8, *v0.values())\n    v6 = numpy.array(v6).astype(numpy.float64)\n"
    "    v13 = numpy.array(v13).astype(numpy.float64)\n    v13 = numpy.broadcast_to(v13, (v13.shape[0], v3.shape[1]))\n"
    "    v2 = numpy.concatenate(__STACK_A__, axis=0)\n    v3 = numpy.concatenate(__STACK_B__, axis=0)",
    "v14, v15, v16, v17 = numpy.linalg.lstsq(v2, v3, rcond=__RCOND__)",
    "v15 = __RESIDUALS__",
    "if __REFUSAL_0__:\n    raise Warning(__MESSAGE_0__)",
    "if __REFUSAL_1__:\n    raise Warning(__MESSAGE_1__)",
    "for v18, v5 in zip(v0, v14):\n    v19 = __KEY_CHOICE__\n    elast[v19] = v5",
    "for v18, v5 in list(elast.items()):\n    if not re.search(__REGEX_DROP__, v18.lower()):\n        continue\n"
    "    if __DROP_TEST__:\n        elast = elast.drop(v18, axis=1)",
    "return elast",
]
# the same without holes (diagnostics only: which statement changed when the structure is not navigable)
FILL_FULL = [
    "if system is None:\n    return elast",
    "v0 = OrderedDict([(f'c{w0}{w1}', sympy.symbols(f'c{w0}{w1}')) for w0, w1 in itertools.product(range(1, 7), range(1, 7)) if w0 <= w1])",
    "v1 = len(v0)", "v2 = []", "v3 = []",
    "for v4, v5 in elast.items():\n    v4 = v4.lower()\n    if not re.search('c(\\\\d)(\\\\d)', v4):\n        continue\n    v6 = numpy.zeros(v1)\n"
    "    v6[list(v0.keys()).index(v4)] = 1\n    v2.append(v6)\n    v3.append(v5.to_numpy())",
    "v2 = numpy.array(v2)", "v3 = numpy.array(v3)", "v7 = Path('constraints') / system", "v7 = get_data_fname(str(v7))",
    "if (Path(system).name != system or not Path(v7).is_file()) and Path(system).is_file():\n    v7 = system", "v8 = []",
    "with open(v7) as v9:\n    for v10 in v9:\n        v11 = [parse_expr(w2) for w2 in v10.split('=')]\n        for v12 in v11[1:]:\n"
    "            v8.append(v11[0] - v12)",
    "if len(v8) > 0:\n    v6, v13 = sympy.linear_eq_to_matrix(v8, *v0.values())\n    v6 = numpy.array(v6).astype(numpy.float64)\n"
    "    v13 = numpy.array(v13).astype(numpy.float64)\n    v13 = numpy.broadcast_to(v13, (v13.shape[0], v3.shape[1]))\n"
    "    v2 = numpy.concatenate((v2, v6), axis=0)\n    v3 = numpy.concatenate((v3, v13), axis=0)",
    "v14, v15, v16, v17 = numpy.linalg.lstsq(v2, v3, rcond=None)",
    "v15 = numpy.sum((v2 @ v14 - v3) ** 2, axis=0)",
    "if v16 < v1 and (not ignore_rank):\n    raise Warning(f'Rank of constraints {v16} is smaller than input {v1}!')",
    "if numpy.any(v15 > residual_atol) and (not ignore_residuals):\n    raise Warning(f'Residuals seems to be too large! -> (' + "
    "', '.join((f'{w3}: {w4:.3f}' for w3, w4 in zip(v0, v15))) + ')')",
    "for v18, v5 in zip(v0, v14):\n    v19 = next((w5 for w5 in elast.columns.tolist() if w5.lower() == v18), v18)\n    elast[v19] = v5",
    "for v18, v5 in list(elast.items()):\n    if not re.search('c(\\\\d)(\\\\d)', v18.lower()):\n        continue\n"
    "    if numpy.allclose(v5.to_numpy(), 0, atol=drop_atol):\n        elast = elast.drop(v18, axis=1)",
    "return elast",
]
NUMPY_ALLCLOSE_DEFAULT_RTOL = Fraction(1, 100000)        # numpy documentation: allclose(a, b, rtol=1e-05, atol=1e-08)


def str_const(n, what):
    if isinstance(n, ast.Constant) and isinstance(n.value, str): return n.value
    raise Broken(f"{what}: not a string literal: {ast.unparse(n)[:80]}")


def nat_const(n, what):
    if isinstance(n, ast.Constant) and type(n.value) is int and n.value >= 0: return n.value
    raise Broken(f"{what}: not a natural-number literal: {ast.unparse(n)[:80]}")


def extract_fill(fn):
    b = fn.body
    H = {}
    try:
        if len(b) != len(FILL_CANON): raise IndexError
        # 1 symbols
        H["symbols"] = b[1].value.args[0]; b[1].value.args[0] = hole("SYMBOLS")
        if len(b[1].value.args) != 1 or b[1].value.keywords: raise IndexError
        # 5 fit loop
        loop = b[5].body
        srch = loop[1].test.operand
        H["regex_fit"] = srch.args[0]; srch.args[0] = hole("REGEX_FIT")
        H["selval"] = loop[3].value; loop[3].value = hole("SELECTOR_VALUE")
        # 10 lookup
        H["lookup"] = b[10].test; b[10].test = hole("LOOKUP_TEST")
        # 12 equations
        inner = b[12].body[0].body
        H["eq_sep"] = inner[0].value.generators[0].iter.args[0]; inner[0].value.generators[0].iter.args[0] = hole("EQ_SEP")
        H["eq_from"] = inner[1].iter.slice.lower; inner[1].iter.slice.lower = hole("EQ_FROM")
        H["eq_row"] = inner[1].body[0].value.args[0]; inner[1].body[0].value.args[0] = hole("EQ_ROW")
        # 13 stacking
        st = b[13].body
        H["stack_a"] = st[4].value.args[0]; st[4].value.args[0] = hole("STACK_A")
        H["stack_b"] = st[5].value.args[0]; st[5].value.args[0] = hole("STACK_B")
        # 14 lstsq
        kw = b[14].value.keywords
        if len(kw) != 1 or kw[0].arg != "rcond": raise IndexError
        H["rcond"] = kw[0].value; kw[0].value = hole("RCOND")
        # 15 residuals
        H["residuals"] = b[15].value; b[15].value = hole("RESIDUALS")
        # 16, 17 refusals
        for k, i in enumerate((16, 17)):
            H[f"ref{k}"] = b[i].test; b[i].test = hole(f"REFUSAL_{k}")
            exc = b[i].body[0].exc
            if len(exc.args) != 1 or exc.keywords: raise IndexError
            H[f"msg{k}"] = exc.args[0]; exc.args[0] = hole(f"MESSAGE_{k}")
        # 18 write-back
        H["key"] = b[18].body[0].value; b[18].body[0].value = hole("KEY_CHOICE")
        # 19 drop
        dl = b[19].body
        H["regex_drop"] = dl[0].test.operand.args[0]; dl[0].test.operand.args[0] = hole("REGEX_DROP")
        H["drop_test"] = dl[1].test; dl[1].test = hole("DROP_TEST")
    except (AttributeError, IndexError, TypeError):
        fresh, _ = load(FILL_PATH(), "fill_cij")
        raise first_difference("fill_cij", fresh.body, FILL_FULL)
    try:
        compare("fill_cij", b, FILL_CANON)
    except Broken as e:
        fresh, _ = load(FILL_PATH(), "fill_cij")
        d = first_difference("fill_cij", fresh.body, FILL_FULL)
        raise d if "outside the grammar" not in str(d) else e
    return H


def FILL_PATH(): return os.path.join(T.REPO, "cij/util/fill.py")
def CLI_PATH(): return os.path.join(T.REPO, "cij/cli/fill.py")


def gen_fill_lib(out):
    fn, _ = load(FILL_PATH(), "fill_cij")
    a = fn.args
    if a.posonlyargs or a.kwonlyargs or a.vararg or a.kwarg:
        raise Broken("fill_cij: signature has positional-only / keyword-only / star parameters")
    params = [x.arg for x in a.args]
    if len(a.defaults) != len(params) - 1:
        raise Broken("fill_cij: exactly the first parameter (the table) must be without default")
    defaults = list(zip(params[1:], a.defaults))
    H = extract_fill(fn)
    # roles of the canonical locals (fixed by the pinned statements around the holes)
    syms = eval_symbols(H["symbols"])
    regex_fit = str_const(H["regex_fit"], "fit-loop regex")
    regex_drop = str_const(H["regex_drop"], "drop-loop regex")
    selval = frac_of_const(H["selval"], "selector value")
    unknown = [p for p in params if p not in PARAM_ENUM]
    if unknown: raise Broken(f"fill_cij: parameter(s) {unknown} unknown to the model")
    pnames = {p: PARAM_ENUM[p] for p in params}
    lookup = bool_tree(H["lookup"], dict(pnames, v7="packaged"), "constraints lookup test")
    eq_sep = str_const(H["eq_sep"], "equation separator")
    eq_from = nat_const(H["eq_from"], "first right-hand side")
    row = H["eq_row"]
    if not (isinstance(row, ast.BinOp) and isinstance(row.op, (ast.Sub, ast.Add)) and isinstance(row.left, ast.Subscript)
            and isinstance(row.left.value, ast.Name) and row.left.value.id == "v11" and isinstance(row.right, ast.Name) and row.right.id == "v12"):
        raise Broken(f"equation row outside grammar (parts[k] ± part): {ast.unparse(row)}")
    eq_lhs = nat_const(row.left.slice, "index of the left-hand side")
    eq_sign = -1 if isinstance(row.op, ast.Sub) else 1

    def stack(n, roles, what):
        if not isinstance(n, (ast.Tuple, ast.List)) or not all(isinstance(e, ast.Name) and e.id in roles for e in n.elts):
            raise Broken(f"{what}: not a tuple of the two blocks: {ast.unparse(n)}")
        return [roles[e.id] for e in n.elts]
    stack_a = stack(H["stack_a"], {"v2": "FillBlock.supplied", "v6": "FillBlock.relations"}, "numpy.concatenate of the matrices")
    stack_b = stack(H["stack_b"], {"v3": "FillBlock.supplied", "v13": "FillBlock.relations"}, "numpy.concatenate of the right-hand sides")
    rc = H["rcond"]
    rcond = "none" if isinstance(rc, ast.Constant) and rc.value is None else "(some " + lean_frac(frac_of_const(rc, "rcond")) + ")"
    resid = arr_tree(H["residuals"], {"v2": "a", "v14": "x", "v3": "b"}, "residuals")
    roles = dict(pnames, v16="rank", v1="nsym", v15="residuals")
    refusals = [(bool_tree(H[f"ref{k}"], roles, f"refusal test {k}"), msg_prefix(H[f"msg{k}"])) for k in (0, 1)]
    # write-back key
    kc = H["key"]
    ok = (isinstance(kc, ast.Call) and ast.unparse(kc.func) == "next" and len(kc.args) == 2 and not kc.keywords
          and isinstance(kc.args[0], ast.GeneratorExp) and len(kc.args[0].generators) == 1)
    if not ok: raise Broken(f"write-back key outside grammar: {ast.unparse(kc)[:160]}")
    ge = kc.args[0]; g = ge.generators[0]
    if not (isinstance(g.target, ast.Name) and isinstance(ge.elt, ast.Name) and ge.elt.id == g.target.id and len(g.ifs) == 1
            and isinstance(g.ifs[0], ast.Compare) and len(g.ifs[0].ops) == 1 and isinstance(g.ifs[0].ops[0], ast.Eq)):
        raise Broken(f"write-back key outside grammar: {ast.unparse(kc)[:160]}")
    w = g.target.id
    it = ast.unparse(g.iter)
    key_iter = {"elast.columns.tolist()": "columns", "elast.columns": "columns", "list(elast.columns)": "columns"}.get(it)
    if key_iter is None: raise Broken(f"write-back key: candidates are not the table's columns: {it}")
    left, right = ast.unparse(g.ifs[0].left), ast.unparse(g.ifs[0].comparators[0])
    if right in (w, f"{w}.lower()"): left, right = right, left
    key_cmp = {f"{w}.lower()": "lower", w: "exact"}.get(left)
    if key_cmp is None or right != "v18": raise Broken(f"write-back key: comparison outside grammar: {ast.unparse(g.ifs[0])}")
    if ast.unparse(kc.args[1]) != "v18": raise Broken(f"write-back key: fallback is not the symbol: {ast.unparse(kc.args[1])}")
    # drop test
    dt = H["drop_test"]
    if not (isinstance(dt, ast.Call) and ast.unparse(dt.func) == "numpy.allclose" and len(dt.args) == 2
            and ast.unparse(dt.args[0]) == "v5.to_numpy()"):
        raise Broken(f"drop test outside grammar: {ast.unparse(dt)[:160]}")
    drop_target = frac_of_const(dt.args[1], "drop target")
    kws = {k.arg: k.value for k in dt.keywords}
    if set(kws) - {"atol", "rtol"} or "atol" not in kws: raise Broken(f"drop test: keywords outside grammar: {sorted(kws)}")
    if not (isinstance(kws["atol"], ast.Name) and kws["atol"].id in params): raise Broken("drop test: atol is not a parameter of fill_cij")
    drop_atol_param = kws["atol"].id
    drop_rtol = frac_of_const(kws["rtol"], "drop rtol") if "rtol" in kws else NUMPY_ALLCLOSE_DEFAULT_RTOL

    L = out.append
    L("/-! ## `cij/util/fill.py: fill_cij` -/\n")
    L("/-- parameters of `fill_cij`, in order (the first one is the table) -/")
    L("def fillParams : List String := [" + ", ".join(T.lean_str(p) for p in params) + "]\n")
    L("/-- default of every keyword parameter, as written (decimal literals as exact fractions) -/")
    L("def fillDefaults : List (String × FillDefault) :=\n  [" + ",\n   ".join(
        f"({T.lean_str(p)}, {lean_default(d, 'default of ' + p)})" for p, d in defaults) + "]\n")
    L("/-- `symbols.keys()`: the comprehension over `itertools.product(range, range)` with its `if`, EVALUATED by the translator -/")
    L("def fillSymbols : List String :=\n  [" + ", ".join(T.lean_str(s) for s in syms) + "]\n")
    L("/-- regex of the fit loop (`re.search(·, sym)` after `sym = sym.lower()`) and of the drop loop (`re.search(·, index.lower())`) -/")
    L(f"def fillRegexFit : String := {T.lean_str(regex_fit)}")
    L(f"def fillRegexDrop : String := {T.lean_str(regex_drop)}")
    L("/-- the name is lower-cased BEFORE it is matched and before it is looked up among the symbols (fit loop: the pinned\n"
      "statement `sym = sym.lower()` precedes both uses; drop loop: `index.lower()` is the searched string) -/")
    L("def fillFitLowersFirst : Bool := true\ndef fillDropLowersFirst : Bool := true\n")
    L("/-- `_a = numpy.zeros(nsym); _a[index(sym)] = <this>` -/")
    L(f"def fillSelectorValue : Int × Nat := {lean_frac(selval)}\n")
    L("/-- `constraints = get_data_fname(\"constraints/\" + system)` (probe name \"packaged\"); when this test holds\n"
      "`constraints = system` (the user's path) -/")
    L(f"def fillLookupTest : FillBool :=\n  {lookup}\n")
    L("/-- an equation line is split at this separator; the row for every part from index `fillEqnRhsFrom` on is\n"
      "`parts[fillEqnLhsIndex] + fillEqnRhsSign · part` -/")
    L(f"def fillEqnSeparator : String := {T.lean_str(eq_sep)}\ndef fillEqnLhsIndex : Nat := {eq_lhs}\n"
      f"def fillEqnRhsFrom : Nat := {eq_from}\ndef fillEqnRhsSign : Int := {eq_sign}\n")
    L("/-- the tuples handed to `numpy.concatenate(·, axis=0)`: matrices / right-hand sides; the relations' constants are\n"
      "broadcast over the volumes (`numpy.broadcast_to(_b, (_b.shape[0], b.shape[1]))`, pinned) -/")
    L("def fillStackA : List FillBlock := [" + ", ".join(stack_a) + "]")
    L("def fillStackB : List FillBlock := [" + ", ".join(stack_b) + "]\n")
    L("/-- `numpy.linalg.lstsq(a, b, rcond=·)`: `none` = numpy's machine-precision threshold -/")
    L(f"def fillLstsqRcond : Option (Int × Nat) := {rcond}\n")
    L("/-- `residuals = …` (recomputed after lstsq); `a` matrix, `x` solution, `b` right-hand sides; axis 0 = the equations -/")
    L(f"def fillResidualExpr : FillArr :=\n  {resid}\n")
    L("/-- the `if … : raise Warning(msg)` tests in source order, with the constant prefix of the message -/")
    L("def fillRefusals : List (FillBool × String) :=\n  [" + ",\n   ".join(f"({t}, {T.lean_str(m)})" for t, m in refusals) + "]\n")
    L("/-- write-back key: `next((k for k in <candidates> if <k compared> == sym), <fallback>)` -/")
    L(f'def fillKeyCandidates : String := {T.lean_str(key_iter)}\ndef fillKeyCompare : FillKeyCompare := FillKeyCompare.{key_cmp}\n'
      f'def fillKeyFallback : String := "symbol"\n')
    L("/-- drop test on a column that matches `fillRegexDrop`: `numpy.allclose(col, target, atol=<param>, rtol=·)`, i.e.\n"
      "`|x − target| ≤ atol + rtol·|target|` at every row; `rtol` is numpy's documented default unless given -/")
    L(f"def fillDropTarget : Int × Nat := {lean_frac(drop_target)}\ndef fillDropRtol : Int × Nat := {lean_frac(drop_rtol)}\n"
      f"def fillDropAtolParam : FillName := FillName.{PARAM_ENUM[drop_atol_param]}\n")
    return {"eq_sep": eq_sep}


# ---------------------------------------------------------------------------------------------- packaged files, part by part
def gen_line_parts(out, eq_sep):
    """every packaged relations file as its lines, every line as its `=`-separated parts, every part as a linear form with a
    common denominator per line: (integer coefficients over the 21 symbols, integer constant), den"""
    import math
    files = []
    d = os.path.join(T.REPO, "cij/data/constraints")
    names = sorted(os.listdir(d))
    entries = []
    for name in names:
        path = os.path.join(d, name); files.append(path)
        lines = []
        with open(path) as fp:
            for line in fp:
                if line.strip() == "": raise Broken(f"blank line in {path}")
                parts = [T.parse_linear(p) for p in line.split(eq_sep)]
                den = 1
                for p in parts:
                    for v in p.values(): den = den * v.denominator // math.gcd(den, v.denominator)
                ps = []
                for p in parts:
                    unknown = [k for k in p if k != 1 and k not in T.SYMS]
                    if unknown: raise Broken(f"{path}: unknown symbol {unknown}")
                    ps.append("([" + ", ".join(str(int(p.get(s, Fraction(0)) * den)) for s in T.SYMS) + f"], {int(p.get(1, Fraction(0)) * den)})")
                lines.append(f"([{', '.join(ps)}], {den})")
        entries.append(f"({T.lean_str(name)},\n    [" + ",\n     ".join(lines) + "])")
    out.append("/-- the packaged relation files line by line, part by part: per line (parts, den), a part is (coefficients over the 21\n"
               "symbols in the order of `symbolPairs`, constant), all multiplied by the line's common denominator `den` -/")
    out.append("def fillLineParts : List (String × List (List (List Int × Int) × Nat)) :=\n  [" + ",\n   ".join(entries) + "]\n")
    return files


# ---------------------------------------------------------------------------------------------- cij fill
CLI_CANON = [
    "from cij.util.fill import fill_cij", "from io import StringIO", "from pathlib import Path", "import pandas", "import sys",
    "v0 = KW.pop(__POPPED__)",
    "with open(v0) as v1:\n    sys.stdout.write(v1.readline())\n    v2 = v1.readline()\n    v3 = int(v2.strip().split()[__COUNT_FIELD__])\n"
    "    sys.stdout.write(v2)\n    v4 = StringIO()\n    for v5 in range(__TABLE_LINES__):\n        v2 = v1.readline()\n        v4.write(v2)\n"
    "    v4.seek(0)\n    v6 = pandas.read_table(v4, header=0, index_col=None, sep='\\\\s+')\n    v6 = fill_cij(v6, **KW)\n"
    "    sys.stdout.write(v6.to_string(index=__PRINT_INDEX__) + '\\n')\n    sys.stdout.write(v1.read())",
]
CLI_FULL = CLI_CANON[:5] + [
    "v0 = KW.pop('input02')",
    CLI_CANON[6].replace("__COUNT_FIELD__", "1").replace("__TABLE_LINES__", "v3 + 1").replace("__PRINT_INDEX__", "False"),
]


def click_param_name(decls):
    """click.core.Option._parse_decls: an identifier among the declarations is the name; otherwise the declaration with the longest
    dash prefix (first such), dashes -> underscores, lower-cased"""
    name, possible = None, []
    for d in decls:
        if d.isidentifier():
            if name is not None: raise Broken(f"click option with two names: {decls}")
            name = d
        else:
            stripped = d.lstrip("-")
            if "/" in d: raise Broken(f"click on/off switch outside grammar: {d}")
            possible.append((len(d) - len(stripped), stripped))
    if name is None:
        if not possible: raise Broken(f"click option without declarations: {decls}")
        possible.sort(key=lambda x: -x[0])
        name = possible[0][1].replace("-", "_").lower()
    return name


def gen_fill_cli(out):
    fn, tree = load(CLI_PATH(), "main", rename_star=True)
    a = fn.args
    if a.posonlyargs or a.args or a.kwonlyargs or a.vararg or a.kwarg is None:
        raise Broken("cli main: signature is not `main(**kwargs)`")
    command = argument = None
    arg_exists = False
    options = []
    for dec in fn.decorator_list:
        if not isinstance(dec, ast.Call): raise Broken(f"cli main: decorator outside grammar: {ast.unparse(dec)[:80]}")
        f = ast.unparse(dec.func)
        kws = {k.arg: k.value for k in dec.keywords}
        kws.pop("help", None)                                  # help texts are not behaviour
        pos = [str_const(x, f"{f} declaration") for x in dec.args]
        if f == "click.command":
            if len(pos) != 1 or kws: raise Broken("click.command outside grammar")
            command = pos[0]
        elif f == "click.argument":
            if len(pos) != 1 or argument is not None: raise Broken("click.argument outside grammar")
            argument = pos[0]
            ty = kws.pop("type", None)
            if kws: raise Broken(f"click.argument keywords outside grammar: {sorted(kws)}")
            if ty is not None:
                if ast.unparse(ty) == "click.Path(exists=True)": arg_exists = True
                elif ast.unparse(ty) != "click.Path()": raise Broken(f"click.argument type outside grammar: {ast.unparse(ty)}")
        elif f == "click.option":
            is_flag = False
            if "is_flag" in kws:
                v = kws.pop("is_flag")
                if not (isinstance(v, ast.Constant) and isinstance(v.value, bool)): raise Broken("is_flag is not a literal")
                is_flag = v.value
            ty = "bool" if is_flag else "str"
            if "type" in kws:
                t = ast.unparse(kws.pop("type"))
                ty = {"click.FLOAT": "float", "float": "float", "click.STRING": "str", "str": "str", "click.BOOL": "bool", "bool": "bool"}.get(t)
                if ty is None: raise Broken(f"click.option type outside grammar: {t}")
            if "default" in kws: dflt = lean_default(kws.pop("default"), f"default of {pos}")
            else: dflt = "FillDefault.bool false" if is_flag else "FillDefault.none"      # click: a flag defaults to False, a value to None
            if kws: raise Broken(f"click.option keywords outside grammar: {sorted(kws)}")
            options.append((pos, click_param_name(pos), is_flag, ty, dflt))
        else:
            raise Broken(f"cli main: unknown decorator {f}")
    if command is None or argument is None: raise Broken("cli main: command / argument decorator missing")
    b = fn.body
    nimp = sum(1 for st in b if isinstance(st, (ast.Import, ast.ImportFrom)))
    imports = sorted(ast.unparse(st) for st in b[:nimp])
    rest = b[nimp:]
    H = {}
    try:
        if len(rest) != 2: raise IndexError
        H["popped"] = rest[0].value.args[0]; rest[0].value.args[0] = hole("POPPED")
        if len(rest[0].value.args) != 1 or rest[0].value.keywords: raise IndexError
        w = rest[1].body
        H["field"] = w[2].value.args[0].slice; w[2].value.args[0].slice = hole("COUNT_FIELD")
        H["lines"] = w[5].iter.args[0]; w[5].iter.args[0] = hole("TABLE_LINES")
        if len(w[5].iter.args) != 1: raise IndexError
        ts = w[9].value.args[0].left
        if len(ts.keywords) != 1 or ts.keywords[0].arg != "index": raise IndexError
        H["index"] = ts.keywords[0].value; ts.keywords[0].value = hole("PRINT_INDEX")
    except (AttributeError, IndexError, TypeError):
        fresh, _ = load(CLI_PATH(), "main", rename_star=True)
        fb = fresh.body
        n2 = sum(1 for st in fb if isinstance(st, (ast.Import, ast.ImportFrom)))
        raise first_difference("cli main", [ast.parse(s).body[0] for s in sorted(ast.unparse(st) for st in fb[:n2])] + fb[n2:], CLI_FULL)
    compare("cli main", [ast.parse(s).body[0] for s in imports] + rest, CLI_CANON)
    popped = str_const(H["popped"], "popped keyword")
    field = nat_const(H["field"], "field of line 2 holding N")
    ln = H["lines"]
    if isinstance(ln, ast.Name) and ln.id == "v3": extra = 0
    elif isinstance(ln, ast.BinOp) and isinstance(ln.op, (ast.Add, ast.Sub)) and isinstance(ln.left, ast.Name) and ln.left.id == "v3":
        fr = frac_of_const(ln.right, "table line count")
        if fr.denominator != 1: raise Broken("table line count: non-integer offset")
        extra = int(fr) if isinstance(ln.op, ast.Add) else -int(fr)
    else:
        raise Broken(f"table line count outside grammar (N ± k): {ast.unparse(ln)}")
    ix = H["index"]
    if not (isinstance(ix, ast.Constant) and isinstance(ix.value, bool)): raise Broken("to_string(index=·) is not a literal")
    L = out.append
    L("/-! ## `cij/cli/fill.py: main` -/\n")
    L(f"def cliCommand : String := {T.lean_str(command)}")
    L("/-- the positional argument (`type=click.Path(exists=True)`: must exist) and the keyword popped before the call -/")
    L(f"def cliArgument : String := {T.lean_str(argument)}\ndef cliArgumentMustExist : Bool := {'true' if arg_exists else 'false'}")
    L(f"def cliPopped : String := {T.lean_str(popped)}\n")
    L("/-- every `@click.option`: declarations, the keyword the callback receives (click's naming rule applied by the\n"
      "translator), is_flag, type, default (click's own default when none is written: False for a flag, None otherwise).\n"
      "The callback is `main(**kwargs)` and the call is `fill_cij(elast, **kwargs)` (pinned): keywords reach `fill_cij` under the\n"
      "same names. -/")
    L("def cliOptions : List FillCliOption :=\n  [" + ",\n   ".join(
        "{ decls := [" + ", ".join(T.lean_str(d) for d in decls) + f"], kwarg := {T.lean_str(kw)}, isFlag := {'true' if fl else 'false'}, "
        f"type := {T.lean_str(ty)}, default := {df} }}" for decls, kw, fl, ty, df in options) + "]\n")
    L("/-- line 1 and line 2 are echoed; `N = int(line2.split()[cliCountField])`; `range(N + cliTableExtra)` lines go through\n"
      "read_table → fill_cij → `to_string(index=cliPrintIndex)`; the rest of the file is echoed (pinned) -/")
    L(f"def cliCountField : Nat := {field}\ndef cliTableExtra : Int := {extra}\ndef cliPrintIndex : Bool := {'true' if ix.value else 'false'}\n")


# ---------------------------------------------------------------------------------------------- call sites of fill_cij
def gen_call_sites(out):
    """every call of `fill_cij` inside the package: how many arguments are bound by position, whether a mapping is splatted, and
    for every explicit keyword where its value is read from (a variable of that name / `<mapping>.get(key, default)` /
    `<mapping>[key]` / a literal)"""
    sites, files = [], []
    root = os.path.join(T.REPO, "cij")
    for dp, dn, fnames in sorted(os.walk(root)):
        dn.sort()
        for f in sorted(fnames):
            if not f.endswith(".py"): continue
            path = os.path.join(dp, f)
            with warnings.catch_warnings():
                warnings.simplefilter("ignore")
                try: src = open(path).read()
                except UnicodeDecodeError: continue
                if "fill_cij" not in src: continue
                tree = ast.parse(src)
            rel = os.path.relpath(path, T.REPO)
            found = []

            def visit(node, fname):
                if isinstance(node, (ast.FunctionDef, ast.AsyncFunctionDef)): fname = node.name
                if isinstance(node, ast.Call):
                    fn = node.func
                    if (isinstance(fn, ast.Name) and fn.id == "fill_cij") or (isinstance(fn, ast.Attribute) and fn.attr == "fill_cij"):
                        found.append((fname, node))
                for ch in ast.iter_child_nodes(node): visit(ch, fname)
            visit(tree, "<module>")
            # any other use of the name (alias, functools.partial, getattr, …) is outside the grammar
            uses = sum(1 for n in ast.walk(tree) if (isinstance(n, ast.Name) and n.id == "fill_cij") or (isinstance(n, ast.Attribute) and n.attr == "fill_cij"))
            defs = sum(1 for n in ast.walk(tree) if isinstance(n, ast.FunctionDef) and n.name == "fill_cij")
            if uses != len(found): raise Broken(f"{rel}: `fill_cij` is used other than by calling it directly")
            if found: files.append(path)
            for fname, call in found:
                if any(isinstance(x, ast.Starred) for x in call.args): raise Broken(f"{rel}:{fname}: *args at a call of fill_cij")
                star, kws = 0, []
                for k in call.keywords:
                    v = k.value
                    if k.arg is None: star += 1; continue
                    if isinstance(v, ast.Name): src_, d = v.id, "none"
                    elif isinstance(v, ast.Constant): src_, d = "", "(some (" + lean_default(v, "literal keyword") + "))"
                    elif isinstance(v, ast.Subscript) and isinstance(v.slice, ast.Constant) and isinstance(v.slice.value, str): src_, d = v.slice.value, "none"
                    elif isinstance(v, ast.Call) and isinstance(v.func, ast.Attribute) and v.func.attr == "get" and 1 <= len(v.args) <= 2 and not v.keywords \
                            and isinstance(v.args[0], ast.Constant) and isinstance(v.args[0].value, str):
                        src_ = v.args[0].value
                        d = "(some (" + (lean_default(v.args[1], f"{rel}: default of {src_}") if len(v.args) == 2 else "FillDefault.none") + "))"
                    else:
                        raise Broken(f"{rel}:{fname}: keyword {k.arg} of a fill_cij call outside grammar: {ast.unparse(v)[:100]}")
                    kws.append(f"({T.lean_str(k.arg)}, {T.lean_str(src_)}, {d})")
                sites.append(f"{{ file := {T.lean_str(rel)}, func := {T.lean_str(fname)}, positional := {len(call.args)}, starKwargs := {star}, "
                             f"keywords := [{', '.join(kws)}] }}")
    out.append("/-! ## call sites of `fill_cij` in the package -/\n")
    out.append("/-- per call: number of positional arguments, number of `**mapping` arguments, explicit keywords as\n"
               "(parameter, name of the variable / mapping key the value is read from — \"\" for a literal, default of a `.get` / the literal) -/")
    out.append("def fillCallSites : List FillCallSite :=\n  [" + ",\n   ".join(sites) + "]\n")
    return files


PRELUDE = """-- GENERATED by tools/gens/fill_src.py from cij/util/fill.py, cij/cli/fill.py, cij/data/constraints/* — do not edit
namespace Generated

/-- a default value as written in a signature / decorator -/
inductive FillDefault
  | none
  | bool (b : Bool)
  | num (n : Int) (d : Nat)
  deriving DecidableEq, Repr

/-- the names the trees speak about: the parameters of `fill_cij` and the locals whose role the pinned statements fix
(`rank`, `residuals` of lstsq / the recomputation, `nsym = len(symbols)`, `packaged` = the packaged path, `a`/`x`/`b`) -/
inductive FillName
  | elast | system | ignoreResiduals | ignoreRank | dropAtol | residualAtol
  | rank | nsym | residuals | packaged | a | x | b
  deriving DecidableEq, Repr

/-- `pathlib.Path` probes -/
inductive FillProbe
  | isFile | pathExists | isDir
  | hasDirPart      -- `Path(x).name != x`: the string is not a bare name
  deriving DecidableEq, Repr

/-- the two blocks of the stacked system -/
inductive FillBlock
  | supplied | relations
  deriving DecidableEq, Repr

inductive FillKeyCompare
  | lower | exact
  deriving DecidableEq, Repr

inductive FillCmp
  | lt | le | gt | ge | eq | ne
  deriving DecidableEq, Repr

/-- operand of a comparison: a name (by the role the pinned statements give it) or a numeric literal n/d -/
inductive FillAtom
  | var (name : FillName)
  | num (n : Int) (d : Nat)
  deriving DecidableEq, Repr

/-- boolean expression tree of an `if` test -/
inductive FillBool
  | cmp (op : FillCmp) (l r : FillAtom)          -- `l op r` on scalars
  | anyCmp (op : FillCmp) (l r : FillAtom)       -- `numpy.any(l op r)`, `l` an array
  | flag (name : FillName)                        -- a boolean parameter
  | probe (method : FillProbe) (path : FillName)  -- `Path(<path>).<method>()`
  | not (a : FillBool)
  | and (a b : FillBool)
  | or (a b : FillBool)
  deriving DecidableEq, Repr

/-- array expression tree -/
inductive FillArr
  | var (name : FillName)
  | matmul (a b : FillArr)
  | sub (a b : FillArr)
  | add (a b : FillArr)
  | powNat (a : FillArr) (k : Nat)
  | sumAxis (a : FillArr) (axis : Nat)
  deriving DecidableEq, Repr

structure FillCallSite where
  file : String
  func : String
  positional : Nat
  starKwargs : Nat
  keywords : List (String × String × Option FillDefault)
  deriving DecidableEq, Repr

structure FillCliOption where
  decls : List String
  kwarg : String
  isFlag : Bool
  type : String
  default : FillDefault
  deriving DecidableEq, Repr

"""


def gen_fill_src():
    out = [PRELUDE]
    info = gen_fill_lib(out)
    files = gen_line_parts(out, info["eq_sep"])
    gen_fill_cli(out)
    files += gen_call_sites(out)
    out.append("end Generated\n")
    return {"FillSpec.lean": "\n".join(out)}, sorted(set([FILL_PATH(), CLI_PATH()] + files))


GENERATORS = {"gen_fill_src": (gen_fill_src, ["FillSpec.lean"])}
