"""Translator plug-in: the GLUE of `cij/core/phonon_contribution/shear.py` -> lean/Generated/ShearGlue.lean

(The two arithmetic formulas — the term accumulated into `_energy` and the value of `get_target_elastic_modulus` — are
translated by gen_tables.gen_shear_exprs into Generated/ShearExprs.lean; this plug-in covers everything around them.)

Everything is read with `ast` from the working tree (never imported).  Docstrings and type annotations are stripped first, so
comments, blank lines, quoting, line breaks, docstrings and annotations never matter; names of local variables are read off the
statements (a renamed local does not matter) EXCEPT the four names the other generator's symbol table is keyed on
(`_moduli`, `fictitious_strain`, `i, j, k, l`): those are emitted as data and the Lean evaluator demands them.

Extracted as DATA / EXPRESSION TREES (types and meaning: lean/CijModel/ShearGlue.lean; consumed by the theorems of
lean/CijProofs/Lemmas/ShearGlueSource.lean and the `c03_glue_is_source…` theorems of Properties/C03.lean):
  fictitious_strain            shape of the zeros array; every cell assignment `e[self.key.<i|j>[n] ± k, …] = <int>` in order
  fictitious_strain_rotated,
  transformation_matrix        the RETURNED expression as a tree (calls with their integer arguments, `[k]`, `.T`, `@`); the
                               statements before it must be pure logging (only then are they dropped)
  strain_rotated               statement by statement: zeros shape, the einsum subscripts and operand of the diagonal write, every
                               assignment and the returned expression as trees (operands, transposes, product order, the axes of
                               `numpy.diagonal`)
  calculate_fictitious_strain_energy,
  get_fictitious_strain_energy_keys
                               parameters with defaults, accumulator initialisation, the argument of `numpy.argwhere` as a tree,
                               the iterator call and its operands, the loop variable pattern, the key constructor with
                               (variable, offset) per argument, the skip test as a tree, the loop body (resolver call / append),
                               the returned name; every call made anywhere in the function
  energy properties, key methods
                               which module function, which strain attribute, which resolver method, which target attribute
  get_elastic_modulus(_rotated) the dictionary attribute indexed
  value_isothermal, value_adiabatic   what is returned (`self.<method>()` / `self.<attribute>`)
  __init__                     parameters with defaults, every assignment (parameter / fresh dict / other)
  get_target_elastic_modulus   (formula: gen_shear_exprs) the calls it makes and its statement kinds
  module                       imports (local name -> origin), module-level assignments, class bases / decorators / class-level
                               statements, decorator kind of every method, every `def` / `lambda` of the file (qualified names,
                               duplicates visible) next to the list of what was translated or pinned
Nothing is compared as text except the pure-logging statements (they are checked structurally and dropped).  A statement outside
these grammars raises TieBroken naming the function.
"""
import ast
import copy
import os
import warnings

import gen_tables as T

REL = "cij/core/phonon_contribution/shear.py"
CLASS = "ShearElasticModulusPhononContribution"


# ------------------------------------------------------------------------------------------------ normalisation
def _nodoc(body):
    body = [s for s in body if s is not None]
    if body and isinstance(body[0], ast.Expr) and isinstance(body[0].value, ast.Constant) and isinstance(body[0].value.value, str):
        body = body[1:]
    return body or [ast.Pass()]


class _Strip(ast.NodeTransformer):
    """docstrings and annotations out; `x: T = v` -> `x = v`; a bare `x: T` disappears"""

    def _fn(self, n):
        self.generic_visit(n)
        n.returns = None
        a = n.args
        for x in a.posonlyargs + a.args + a.kwonlyargs + [y for y in (a.vararg, a.kwarg) if y is not None]:
            x.annotation = None
        n.body = _nodoc(n.body)
        return n

    visit_FunctionDef = _fn
    visit_AsyncFunctionDef = _fn

    def visit_ClassDef(self, n):
        self.generic_visit(n)
        n.body = _nodoc(n.body)
        return n

    def visit_AnnAssign(self, n):
        self.generic_visit(n)
        if n.value is None:
            return None
        return ast.copy_location(ast.Assign(targets=[n.target], value=n.value), n)


def src(n):
    return ast.unparse(n) if isinstance(n, ast.AST) else str(n)


def broken(where, what):
    raise T.TieBroken(f"{REL}: {where}: {what}")


def q(s):
    return T.lean_str(s)


def doc(s):
    """text that is safe inside a Lean doc comment"""
    return s.replace("/-", "/ -").replace("-/", "- /")


def lint(k):
    return f"({k})" if k < 0 else str(k)


def lstrs(xs):
    return "[" + ", ".join(q(x) for x in xs) + "]"


def lopt(x):
    return "none" if x is None else f"(some {q(x)})"


def want_int(n, where):
    if isinstance(n, ast.Constant) and isinstance(n.value, int) and not isinstance(n.value, bool):
        return n.value
    if isinstance(n, ast.UnaryOp) and isinstance(n.op, ast.USub) and isinstance(n.operand, ast.Constant) \
            and isinstance(n.operand.value, int) and not isinstance(n.operand.value, bool):
        return -n.operand.value
    broken(where, f"`{src(n)}` is not an integer literal")


def is_int(n):
    try:
        want_int(n, "")
        return True
    except T.TieBroken:
        return False


def want_name(n, where):
    if not isinstance(n, ast.Name):
        broken(where, f"`{src(n)}` is not a plain local name")
    return n.id


def self_attr(n):
    """`self.<name>` -> name, else None"""
    if isinstance(n, ast.Attribute) and isinstance(n.value, ast.Name) and n.value.id == "self":
        return n.attr
    return None


def decorator_kind(fn):
    ds = [src(d) for d in fn.decorator_list]
    if not ds: return "method"
    if ds == ["property"]: return "property"
    if ds == ["LazyProperty"]: return "LazyProperty"
    return "other:" + ",".join(ds)


def signature(fn, where):
    """[(parameter, default text or None)]; *args / **kwargs / keyword-only / positional-only are outside the grammar"""
    a = fn.args
    if a.vararg or a.kwarg or a.kwonlyargs or a.posonlyargs:
        broken(where, "signature with * / ** / keyword-only / positional-only parameters")
    names = [x.arg for x in a.args]
    dflt = [None] * (len(names) - len(a.defaults)) + [src(d) for d in a.defaults]
    return list(zip(names, dflt))


def lparams(ps):
    return "[" + ", ".join(f"({q(n)}, {lopt(d)})" for n, d in ps) + "]"


def calls_in(fn):
    return sorted({src(n.func) for n in ast.walk(fn) if isinstance(n, ast.Call)})


# ------------------------------------------------------------------------------------------------ array expressions
def arr_expr(n, local_names):
    """-> Lean text of a Cij.ShearGlue.ArrE; whatever is outside the grammar becomes `.other <text>` (no meaning in Lean)"""
    a = self_attr(n)
    if a is not None:
        return f"(.selfAttr {q(a)})"
    if isinstance(n, ast.Name) and n.id in local_names:
        return f"(.var {q(n.id)})"
    if isinstance(n, ast.BinOp) and isinstance(n.op, ast.MatMult):
        return f"(.matmul {arr_expr(n.left, local_names)} {arr_expr(n.right, local_names)})"
    if isinstance(n, ast.Attribute) and n.attr == "T":
        return f"(.tr {arr_expr(n.value, local_names)})"
    if isinstance(n, ast.Subscript) and is_int(n.slice):
        return f"(.index {arr_expr(n.value, local_names)} {lint(want_int(n.slice, ''))})"
    if isinstance(n, ast.Call) and n.args and not any(isinstance(x, ast.Starred) for x in n.args) \
            and all(is_int(x) for x in n.args[1:]) and all(k.arg is not None and is_int(k.value) for k in n.keywords):
        fn = src(n.func)
        if all(c.isalnum() or c in "._" for c in fn):
            extra = "[" + ", ".join(lint(want_int(x, "")) for x in n.args[1:]) + "]"
            kw = "[" + ", ".join(f"({q(k.arg)}, {lint(want_int(k.value, ''))})" for k in sorted(n.keywords, key=lambda k: k.arg)) + "]"
            return f"(.call {q(fn)} {arr_expr(n.args[0], local_names)} {extra} {kw})"
    return f"(.other {q(src(n))})"


PURE_LOG_CALLS = {"str", "repr", "numpy.diag", "numpy.linalg.eigh", "numpy.array2string"}


def is_pure_logging(st):
    """`logger.<level>(<expression without side effects>)`: only then may a statement be dropped"""
    if not (isinstance(st, ast.Expr) and isinstance(st.value, ast.Call)):
        return False
    c = st.value
    if src(c.func) not in ("logger.debug", "logger.info", "logger.warning"):
        return False
    for part in list(c.args) + [k.value for k in c.keywords]:
        for n in ast.walk(part):
            if isinstance(n, (ast.NamedExpr, ast.Lambda, ast.Await, ast.Yield, ast.YieldFrom, ast.ListComp, ast.SetComp,
                              ast.DictComp, ast.GeneratorExp, ast.Starred)):
                return False
            if isinstance(n, ast.Call) and src(n.func) not in PURE_LOG_CALLS:
                return False
            if isinstance(n, (ast.Name, ast.Attribute, ast.Subscript)) and not isinstance(n.ctx, ast.Load):
                return False
    return True


def returned_expr(fn, where):
    """body = pure logging statements, then `return <expr>`"""
    body = list(fn.body)
    n_log = 0
    while body and is_pure_logging(body[0]):
        body.pop(0); n_log += 1
    if len(body) != 1 or not isinstance(body[0], ast.Return) or body[0].value is None:
        broken(where, f"body is not [pure logging…] + one `return <expr>`: first other statement `{src(body[0])[:100] if body else '<none>'}`")
    return body[0].value, n_log


# ------------------------------------------------------------------------------------------------ fictitious_strain
def key_idx(n, where):
    """`self.key.<i|j>[c]`, `… + k`, `… - k` -> Lean ⟨pair, comp, off⟩"""
    off = 0
    if isinstance(n, ast.BinOp) and isinstance(n.op, (ast.Add, ast.Sub)) and is_int(n.right):
        off = want_int(n.right, where) * (1 if isinstance(n.op, ast.Add) else -1)
        n = n.left
    if not (isinstance(n, ast.Subscript) and is_int(n.slice) and isinstance(n.value, ast.Attribute) and n.value.attr in ("i", "j")
            and src(n.value.value) == "self.key"):
        broken(where, f"index `{src(n)}` is not self.key.<i|j>[<int>] ± <int>")
    return f"⟨.{n.value.attr}, {lint(want_int(n.slice, where))}, {lint(off)}⟩"


def gen_fict(fn):
    W = "fictitious_strain"
    b = list(fn.body)
    if len(b) < 2 or not isinstance(b[0], ast.Assign) or len(b[0].targets) != 1:
        broken(W, "first statement is not `<e> = numpy.zeros((…))`")
    e = want_name(b[0].targets[0], W)
    v = b[0].value
    if not (isinstance(v, ast.Call) and src(v.func) == "numpy.zeros" and len(v.args) == 1 and not v.keywords
            and isinstance(v.args[0], ast.Tuple) and all(is_int(x) for x in v.args[0].elts)):
        broken(W, f"`{src(b[0])}` is not `<e> = numpy.zeros((<int>, <int>))` (no dtype, no further argument)")
    shape = [want_int(x, W) for x in v.args[0].elts]
    if not (isinstance(b[-1], ast.Return) and src(b[-1].value) == e):
        broken(W, f"last statement is not `return {e}`")
    cells = []
    for st in b[1:-1]:
        if not (isinstance(st, ast.Assign) and len(st.targets) == 1 and isinstance(st.targets[0], ast.Subscript)
                and src(st.targets[0].value) == e and isinstance(st.targets[0].slice, ast.Tuple) and len(st.targets[0].slice.elts) == 2):
            broken(W, f"statement outside grammar: `{src(st)[:100]}` (expected `{e}[<row>, <col>] = <int>`)")
        r, c = st.targets[0].slice.elts
        val = want_int(st.value, W)
        if val < 0: broken(W, f"negative cell value in `{src(st)}`")
        cells.append(f"⟨{key_idx(r, W)}, {key_idx(c, W)}, {val}⟩")
    return (f"{{ kind := {q(decorator_kind(fn))}, shape := [{', '.join(str(x) for x in shape)}],\n"
            f"      cells := [" + ",\n                ".join(cells) + "] }")


# ------------------------------------------------------------------------------------------------ strain_rotated
def gen_strain_rotated(fn):
    W = "strain_rotated"
    stmts, local_names = [], []
    body = list(fn.body)
    for pos, st in enumerate(body):
        last = pos == len(body) - 1
        if isinstance(st, ast.Return):
            if not last or st.value is None: broken(W, "a `return` that is not the last statement / returns nothing")
            stmts.append(f".ret {arr_expr(st.value, local_names)}")
            continue
        if last: broken(W, f"last statement `{src(st)[:80]}` is not a return")
        if not (isinstance(st, ast.Assign) and len(st.targets) == 1):
            broken(W, f"statement outside grammar: `{src(st)[:100]}`")
        t, v = st.targets[0], st.value
        # <var> = numpy.zeros((*self.<attr>.shape, n…))
        if isinstance(t, ast.Name) and isinstance(v, ast.Call) and src(v.func) == "numpy.zeros":
            ok = (len(v.args) == 1 and not v.keywords and isinstance(v.args[0], ast.Tuple) and v.args[0].elts
                  and isinstance(v.args[0].elts[0], ast.Starred) and all(is_int(x) for x in v.args[0].elts[1:]))
            inner = v.args[0].elts[0].value if ok else None
            if not (ok and isinstance(inner, ast.Attribute) and inner.attr == "shape" and self_attr(inner.value) is not None):
                broken(W, f"`{src(st)}` is not `<var> = numpy.zeros((*self.<attr>.shape, <int>…))` (no dtype)")
            extra = [want_int(x, W) for x in v.args[0].elts[1:]]
            if any(x < 0 for x in extra): broken(W, f"negative extent in `{src(st)}`")
            stmts.append(f".zerosLike {q(t.id)} {q(self_attr(inner.value))} [{', '.join(str(x) for x in extra)}]")
            local_names.append(t.id)
            continue
        # numpy.einsum('<in> -> <out>', <var>)[...] = <expr>
        if isinstance(t, ast.Subscript):
            c = t.value
            if not (isinstance(t.slice, ast.Constant) and t.slice.value is Ellipsis and isinstance(c, ast.Call)
                    and src(c.func) == "numpy.einsum" and len(c.args) == 2 and not c.keywords
                    and isinstance(c.args[0], ast.Constant) and isinstance(c.args[0].value, str)
                    and isinstance(c.args[1], ast.Name) and c.args[1].id in local_names):
                broken(W, f"`{src(st)[:100]}` is not `numpy.einsum('<in> -> <out>', <local array>)[...] = <expr>`")
            sub = c.args[0].value.replace(" ", "")
            if sub.count("->") != 1: broken(W, f"einsum subscripts {c.args[0].value!r} without exactly one `->`")
            i, o = sub.split("->")
            stmts.append(f".einsumWrite {q(i)} {q(o)} {q(c.args[1].id)} {arr_expr(v, local_names)}")
            continue
        if isinstance(t, ast.Name):
            stmts.append(f".assign {q(t.id)} {arr_expr(v, local_names)}")
            local_names.append(t.id)
            continue
        broken(W, f"statement outside grammar: `{src(st)[:100]}`")
    return "[" + ",\n       ".join(stmts) + "]"


# ------------------------------------------------------------------------------------------------ the two module functions
def mask_expr(n):
    if isinstance(n, ast.Call) and src(n.func) in ("numpy.logical_not", "numpy.invert") and len(n.args) == 1 and not n.keywords:
        return f"(.not {mask_expr(n.args[0])})"
    if isinstance(n, ast.UnaryOp) and isinstance(n.op, ast.Invert):
        return f"(.not {mask_expr(n.operand)})"
    if isinstance(n, ast.Call) and src(n.func) == "numpy.isclose" and len(n.args) >= 2 and isinstance(n.args[0], ast.Name) and is_int(n.args[1]):
        kw = [src(x) for x in n.args[2:]] + [f"{k.arg}={src(k.value)}" for k in n.keywords]
        return f"(.isclose {q(n.args[0].id)} {lint(want_int(n.args[1], ''))} {lstrs(kw)})"
    if isinstance(n, ast.Compare) and len(n.ops) == 1 and isinstance(n.ops[0], ast.NotEq) and isinstance(n.left, ast.Name) and is_int(n.comparators[0]):
        return f"(.ne {q(n.left.id)} {lint(want_int(n.comparators[0], ''))})"
    return f"(.other {q(src(n))})"


def skip_expr(n):
    if isinstance(n, ast.BoolOp):
        op = ".and" if isinstance(n.op, ast.And) else ".or"
        r = skip_expr(n.values[-1])
        for v in reversed(n.values[:-1]):
            r = f"({op} {skip_expr(v)} {r})"
        return r
    if isinstance(n, ast.UnaryOp) and isinstance(n.op, ast.Not):
        return f"(.not {skip_expr(n.operand)})"
    if isinstance(n, ast.Name):
        return f"(.truthy {q(n.id)})"
    if isinstance(n, ast.Compare) and len(n.ops) == 1 and isinstance(n.left, ast.Name):
        r = n.comparators[0]
        if isinstance(n.ops[0], ast.Eq) and isinstance(r, ast.Name):
            return f"(.eq {q(n.left.id)} {q(r.id)})"
        if isinstance(n.ops[0], ast.IsNot) and isinstance(r, ast.Constant) and r.value is None:
            return f"(.isNotNone {q(n.left.id)})"
    return f"(.other {q(src(n))})"


def gen_loop(fn, def_name):
    W = fn.name
    if fn.decorator_list: broken(W, f"decorated: {[src(d) for d in fn.decorator_list]}")
    params = signature(fn, W)
    b = list(fn.body)
    if len(b) != 4:
        broken(W, f"{len(b)} top-level statements (expected accumulator / nz / for / return)")
    if not isinstance(b[3], ast.Return) or not isinstance(b[3].value, ast.Name):
        broken(W, f"last statement `{src(b[3])[:80]}` is not `return <name>` (no post-processing of the result)")
    ret = b[3].value.id
    acc = nz = None
    for st in b[:2]:
        if not (isinstance(st, ast.Assign) and len(st.targets) == 1 and isinstance(st.targets[0], ast.Name)):
            broken(W, f"statement outside grammar: `{src(st)[:100]}`")
        v = st.value
        if isinstance(v, ast.Call) and len(v.args) == 1 and not v.keywords and all(c.isalnum() or c in "._" for c in src(v.func)) \
                and not (src(v.func) in ("list", "dict")):
            if nz is not None: broken(W, "two candidate `nz = <fn>(<mask>)` statements")
            nz = (st.targets[0].id, src(v.func), mask_expr(v.args[0]))
        elif (isinstance(v, ast.Constant) and v.value == 0 and not isinstance(v.value, bool)) or (isinstance(v, ast.List) and not v.elts) \
                or (isinstance(v, ast.Call) and src(v.func) == "list" and not v.args and not v.keywords):
            if acc is not None: broken(W, "two accumulator initialisations")
            acc = (st.targets[0].id, "0" if isinstance(v, ast.Constant) else "[]")
        else:
            broken(W, f"statement outside grammar: `{src(st)[:100]}`")
    if acc is None or nz is None:
        broken(W, "needs one `<acc> = 0 | []` and one `<nz> = numpy.argwhere(<mask>)` before the loop")
    lp = b[2]
    if not (isinstance(lp, ast.For) and not lp.orelse and isinstance(lp.target, ast.Tuple)
            and all(isinstance(x, ast.Tuple) and all(isinstance(y, ast.Name) for y in x.elts) for x in lp.target.elts)):
        broken(W, f"loop `{src(lp)[:80]}` is not `for (a, b), (c, d) in …:`")
    loop_vars = [[y.id for y in x.elts] for x in lp.target.elts]
    flat = [y for x in loop_vars for y in x]
    if len(set(flat)) != len(flat): broken(W, "a loop variable is bound twice")
    it = lp.iter
    if not (isinstance(it, ast.Call) and not it.keywords and all(isinstance(x, ast.Name) for x in it.args)):
        broken(W, f"iterator `{src(it)[:80]}` is not <fn>(<name>, <name>)")
    body = list(lp.body)
    if len(body) < 3: broken(W, "loop body shorter than key / skip / action")
    # key = c_(v + k, …)
    st = body[0]
    if not (isinstance(st, ast.Assign) and len(st.targets) == 1 and isinstance(st.targets[0], ast.Name) and isinstance(st.value, ast.Call)
            and isinstance(st.value.func, ast.Name) and not st.value.keywords):
        broken(W, f"`{src(st)[:80]}` is not `<key> = <fn>(<loop variable> ± <int>, …)`")
    key_var, key_fn, key_args = st.targets[0].id, st.value.func.id, []
    for a in st.value.args:
        if isinstance(a, ast.Name) and a.id in flat: key_args.append((flat.index(a.id), 0)); continue
        if isinstance(a, ast.BinOp) and isinstance(a.op, (ast.Add, ast.Sub)) and isinstance(a.left, ast.Name) and a.left.id in flat and is_int(a.right):
            k = want_int(a.right, W)
            key_args.append((flat.index(a.left.id), k if isinstance(a.op, ast.Add) else -k)); continue
        if isinstance(a, ast.BinOp) and isinstance(a.op, ast.Add) and isinstance(a.right, ast.Name) and a.right.id in flat and is_int(a.left):
            key_args.append((flat.index(a.right.id), want_int(a.left, W))); continue
        broken(W, f"key argument `{src(a)}` is not <loop variable> ± <int>")
    # if <test>: continue
    st = body[1]
    if not (isinstance(st, ast.If) and not st.orelse and len(st.body) == 1 and isinstance(st.body[0], ast.Continue)):
        broken(W, f"`{src(st)[:80]}` is not `if <test>: continue`")
    skip = skip_expr(st.test)
    rest = body[2:]
    if acc[1] == "0":
        if len(rest) != 2: broken(W, f"{len(rest)} statements after the skip (expected `<m> = <resolver>(<key>)`, `<acc> += <term>`)")
        s1, s2 = rest
        if not (isinstance(s1, ast.Assign) and len(s1.targets) == 1 and isinstance(s1.targets[0], ast.Name) and isinstance(s1.value, ast.Call)
                and isinstance(s1.value.func, ast.Name) and len(s1.value.args) == 1 and isinstance(s1.value.args[0], ast.Name) and not s1.value.keywords):
            broken(W, f"`{src(s1)[:80]}` is not `<m> = <resolver>(<key>)`")
        if not (isinstance(s2, ast.AugAssign) and isinstance(s2.op, ast.Add) and isinstance(s2.target, ast.Name) and s2.target.id == acc[0]):
            broken(W, f"`{src(s2)[:80]}` is not `{acc[0]} += <term>`")
        strain = params[0][0] if params else ""
        cells, names = [], set()
        for n in ast.walk(s2.value):
            if isinstance(n, ast.Subscript):
                if not (isinstance(n.value, ast.Name) and n.value.id == strain and isinstance(n.slice, ast.Tuple) and len(n.slice.elts) == 2
                        and all(isinstance(x, ast.Name) and x.id in flat for x in n.slice.elts)):
                    broken(W, f"`{src(n)}` in the accumulated term is not {strain}[<loop variable>, <loop variable>]")
                cells.append((n.lineno, n.col_offset, flat.index(n.slice.elts[0].id), flat.index(n.slice.elts[1].id)))
            elif isinstance(n, ast.Name):
                names.add(n.id)
            elif isinstance(n, ast.Call):
                broken(W, f"call `{src(n)[:60]}` inside the accumulated term")
        extra = names - {strain, s1.targets[0].id} - set(flat)
        if extra: broken(W, f"the accumulated term reads {sorted(extra)}")
        cells = [(a, b_) for _, _, a, b_ in sorted(cells)]
        body_l = (f"(.accumulate {q(s1.targets[0].id)} {q(s1.value.func.id)} {q(s1.value.args[0].id)} "
                  f"[{', '.join(f'({a}, {b_})' for a, b_ in cells)}])")
    else:
        if len(rest) != 1: broken(W, f"{len(rest)} statements after the skip (expected `<acc>.append(<key>)`)")
        s1 = rest[0]
        if not (isinstance(s1, ast.Expr) and isinstance(s1.value, ast.Call) and src(s1.value.func) == f"{acc[0]}.append"
                and len(s1.value.args) == 1 and isinstance(s1.value.args[0], ast.Name) and not s1.value.keywords):
            broken(W, f"`{src(s1)[:80]}` is not `{acc[0]}.append(<name>)`")
        body_l = f"(.append {q(s1.value.args[0].id)})"
    txt = (f"def {def_name} : LoopSpec :=\n"
           f"  {{ name := {q(fn.name)}, params := {lparams(params)},\n"
           f"    accVar := {q(acc[0])}, accInit := {q(acc[1])},\n"
           f"    nzVar := {q(nz[0])}, nzFn := {q(nz[1])}, mask := {nz[2]},\n"
           f"    iterFn := {q(src(it.func))}, iterArgs := {lstrs([x.id for x in it.args])},\n"
           f"    loopVars := [{', '.join(lstrs(x) for x in loop_vars)}],\n"
           f"    keyVar := {q(key_var)}, keyFn := {q(key_fn)}, keyArgs := [{', '.join(f'({p}, {lint(o)})' for p, o in key_args)}],\n"
           f"    skip := {skip},\n"
           f"    body := {body_l},\n"
           f"    returns := {q(ret)} }}\n")
    return txt


# ------------------------------------------------------------------------------------------------ class wiring
def gen_energy_use(fn, with_resolver):
    W = fn.name
    if len(fn.body) != 1 or not isinstance(fn.body[0], ast.Return) or not isinstance(fn.body[0].value, ast.Call):
        broken(W, "body is not one `return <function>(…)` (no post-processing of the result)")
    c = fn.body[0].value
    if not isinstance(c.func, ast.Name): broken(W, f"`{src(c.func)}` is not a module-level function name")
    args = list(c.args)
    kws = {k.arg: k.value for k in c.keywords}
    if None in kws or any(isinstance(a, ast.Starred) for a in args): broken(W, "* / ** in the call")
    if not args or self_attr(args[0]) is None: broken(W, f"first argument `{src(args[0]) if args else ''}` is not self.<strain attribute>")
    strain = self_attr(args[0])
    rest = args[1:]
    resolver = target = None
    if with_resolver:
        r = rest.pop(0) if rest else kws.pop("resolve_elastic_modulus", None)
        if r is None: broken(W, "no resolver argument")
        if isinstance(r, ast.Lambda):
            la = r.args
            ok = (len(la.args) == 1 and not la.defaults and not la.vararg and not la.kwarg and not la.kwonlyargs
                  and isinstance(r.body, ast.Call) and self_attr(r.body.func) is not None and len(r.body.args) == 1 and not r.body.keywords
                  and isinstance(r.body.args[0], ast.Name) and r.body.args[0].id == la.args[0].arg)
            if not ok: broken(W, f"resolver `{src(r)}` is not `lambda k: self.<method>(k)`")
            resolver = self_attr(r.body.func)
        elif self_attr(r) is not None:
            resolver = self_attr(r)
        else:
            broken(W, f"resolver `{src(r)}` is neither `lambda k: self.<method>(k)` nor `self.<method>`")
    t = rest.pop(0) if rest else kws.pop("target", None)
    if rest or kws: broken(W, f"unexpected further arguments in `{src(c)[:100]}`")
    if t is not None:
        if isinstance(t, ast.Constant) and t.value is None: target = None
        elif self_attr(t) is not None: target = self_attr(t)
        else: broken(W, f"target `{src(t)}` is not self.<attribute>")
    return f"⟨{q(fn.name)}, {q(decorator_kind(fn))}, {q(c.func.id)}, {q(strain)}, {lopt(resolver)}, {lopt(target)}⟩"


def gen_resolver(fn):
    W = fn.name
    ps = signature(fn, W)
    if len(ps) != 2 or ps[0][0] != "self" or ps[1][1] is not None: broken(W, "signature is not (self, key)")
    if len(fn.body) != 1 or not isinstance(fn.body[0], ast.Return): broken(W, "body is not one return")
    v = fn.body[0].value
    if not (isinstance(v, ast.Subscript) and self_attr(v.value) is not None and isinstance(v.slice, ast.Name) and v.slice.id == ps[1][0]):
        broken(W, f"`{src(fn.body[0])}` is not `return self.<dict>[{ps[1][0]}]`")
    return f"⟨{q(fn.name)}, {q(decorator_kind(fn))}, {q(self_attr(v.value))}⟩"


def gen_value(fn):
    W = fn.name
    if len(fn.body) != 1 or not isinstance(fn.body[0], ast.Return) or fn.body[0].value is None:
        broken(W, "body is not one `return <expr>` (no post-processing of the result)")
    v = fn.body[0].value
    if isinstance(v, ast.Call) and self_attr(v.func) is not None and not v.args and not v.keywords:
        b = f".callSelf {q(self_attr(v.func))}"
    elif self_attr(v) is not None:
        b = f".attr {q(self_attr(v))}"
    else:
        b = f".other {q(src(v))}"
    return f"⟨{q(fn.name)}, {q(decorator_kind(fn))}, {b}⟩"


def gen_init(fn):
    W = "__init__"
    ps = signature(fn, W)
    names = [p for p, _ in ps]
    out = []
    for st in fn.body:
        if isinstance(st, ast.Pass): continue
        if not (isinstance(st, ast.Assign) and len(st.targets) == 1 and self_attr(st.targets[0]) is not None):
            broken(W, f"statement outside grammar: `{src(st)[:100]}` (expected `self.<attribute> = …`)")
        v = st.value
        if isinstance(v, ast.Name) and v.id in names and v.id != "self": val = f".param {q(v.id)}"
        elif (isinstance(v, ast.Dict) and not v.keys) or (isinstance(v, ast.Call) and src(v.func) == "dict" and not v.args and not v.keywords): val = ".freshDict"
        else: val = f".other {q(src(v))}"
        out.append(f"({q(self_attr(st.targets[0]))}, {val})")
    return lparams(ps), "[" + ", ".join(out) + "]"


def qualnames(tree):
    """every def / lambda of the module with its qualified name, in source order"""
    out = []

    def walk(node, prefix):
        for ch in ast.iter_child_nodes(node):
            if isinstance(ch, (ast.FunctionDef, ast.AsyncFunctionDef)):
                out.append((ch.lineno, ch.col_offset, prefix + ch.name)); walk(ch, prefix + ch.name + ".")
            elif isinstance(ch, ast.ClassDef):
                walk(ch, prefix + ch.name + ".")
            elif isinstance(ch, ast.Lambda):
                out.append((ch.lineno, ch.col_offset, prefix + "<lambda>")); walk(ch, prefix + "<lambda>.")
            else:
                walk(ch, prefix)
    walk(tree, "")
    return [n for _, _, n in sorted(out)]


# ------------------------------------------------------------------------------------------------ the generator
def gen_shear_glue():
    path = os.path.join(T.REPO, REL)
    with warnings.catch_warnings():
        warnings.simplefilter("ignore")
        raw = ast.parse(open(path).read())
    tree = _Strip().visit(copy.deepcopy(raw))
    ast.fix_missing_locations(tree)
    L = []
    out = L.append
    out(f"-- GENERATED by tools/gens/shear_src.py from {REL} — do not edit")
    out("import CijModel.ShearGlue")
    out("open Cij.ShearGlue")
    out("namespace Generated.ShearGlue\n")

    # ---------------------------------------------------------------- module level
    imports, mod_assigns, mod_other, mod_funcs, classes = [], [], [], {}, {}
    for st in tree.body:
        if isinstance(st, ast.Import):
            for a in st.names: imports.append((a.asname or a.name.split(".")[0], a.name))
        elif isinstance(st, ast.ImportFrom):
            for a in st.names: imports.append((a.asname or a.name, "." * st.level + (st.module or "") + "." + a.name))
        elif isinstance(st, ast.FunctionDef): mod_funcs.setdefault(st.name, []).append(st)
        elif isinstance(st, ast.ClassDef): classes.setdefault(st.name, []).append(st)
        elif isinstance(st, ast.Assign):
            for t in st.targets:
                for nm in ast.walk(t):
                    if isinstance(nm, ast.Name): mod_assigns.append((nm.id, src(st.value)))
        elif isinstance(st, ast.Pass) or (isinstance(st, ast.Expr) and isinstance(st.value, ast.Constant)): pass
        else: mod_other.append(type(st).__name__ + ": " + src(st)[:80])
    out("/-- imports: (local name, origin) -/")
    out("def imports : List (String × String) := [" + ", ".join(f"({q(a)}, {q(b)})" for a, b in imports) + "]\n")
    out("/-- module-level assignments (name, value as text); module-level statements other than import / def / class / assignment -/")
    out("def moduleAssigns : List (String × String) := [" + ", ".join(f"({q(a)}, {q(b)})" for a, b in mod_assigns) + "]")
    out(f"def moduleOtherStatements : List String := {lstrs(mod_other)}\n")
    for need in ("calculate_fictitious_strain_energy", "get_fictitious_strain_energy_keys"):
        if need not in mod_funcs: broken("module", f"function {need} not found")
    if CLASS not in classes: broken("module", f"class {CLASS} not found")
    cls = classes[CLASS][-1]
    handled = []                 # (qualified name, Lean text of Handled)

    # ---------------------------------------------------------------- the two loops
    fe, fk = mod_funcs["calculate_fictitious_strain_energy"][-1], mod_funcs["get_fictitious_strain_energy_keys"][-1]
    out("/-- `calculate_fictitious_strain_energy`:\n"
        "`<acc> = <accInit>`; `<nz> = <nzFn>(<mask>)`; `for <loopVars> in <iterFn>(<iterArgs>)`: `<key> = <keyFn>(v ± k, …)`;\n"
        "`if <skip>: continue`; `<m> = <resolver>(<key>)`; `<acc> += <term of Generated.shearEnergyTerm>`; `return <returns>` -/")
    out(gen_loop(fe, "energyFn"))
    out("/-- `get_fictitious_strain_energy_keys`: the same header; body `<acc>.append(<key>)` -/")
    out(gen_loop(fk, "keysFn"))
    out("/-- every call made anywhere in the two functions -/")
    out(f"def energyFnCalls : List String := {lstrs(calls_in(fe))}")
    out(f"def keysFnCalls : List String := {lstrs(calls_in(fk))}\n")
    handled.append(("calculate_fictitious_strain_energy", '.translated "energyFn"'))
    handled.append(("get_fictitious_strain_energy_keys", '.translated "keysFn"'))

    # ---------------------------------------------------------------- the class
    methods, class_other, order = {}, [], []
    for st in cls.body:
        if isinstance(st, (ast.FunctionDef, ast.AsyncFunctionDef)): methods[st.name] = st; order.append(st.name)
        elif isinstance(st, ast.Pass): pass
        else: class_other.append(type(st).__name__ + ": " + src(st)[:80])
    def need(name):
        if name not in methods: broken(CLASS, f"method {name} not found")
        return methods[name]
    out(f"/-- class `{CLASS}`: bases / keywords / decorators; class-level statements that are not a def -/")
    out("def classBases : List String := " + lstrs([src(x) for x in cls.bases] + [f"{k.arg}={src(k.value)}" for k in cls.keywords]
                                                    + ["@" + src(d) for d in cls.decorator_list]))
    out(f"def classOtherStatements : List String := {lstrs(class_other)}\n")
    out("/-- every name the class body defines, in source order (a name listed twice: the later definition replaces the earlier one),\n"
        "with its decorator kind: method | property | LazyProperty | other:<…> -/")
    out("def methodKinds : List (String × String) :=\n  [" + ",\n   ".join(
        f"({q(st.name)}, {q(decorator_kind(st))})" for st in cls.body if isinstance(st, (ast.FunctionDef, ast.AsyncFunctionDef))) + "]\n")

    init_params, init_assigns = gen_init(need("__init__"))
    fict = gen_fict(need("fictitious_strain"))
    rot_e, rot_logs = returned_expr(need("fictitious_strain_rotated"), "fictitious_strain_rotated")
    tm_e, tm_logs = returned_expr(need("transformation_matrix"), "transformation_matrix")
    sr = gen_strain_rotated(need("strain_rotated"))
    energies = [gen_energy_use(need(n), True) for n in ("fictitious_strain_energy", "fictitious_strain_energy_rotated")]
    keyms = [gen_energy_use(need(n), False) for n in ("get_modulus_keys", "get_modulus_keys_rotated")]
    resolvers = [gen_resolver(need(n)) for n in ("get_elastic_modulus", "get_elastic_modulus_rotated")]
    values = [gen_value(need(n)) for n in ("value_isothermal", "value_adiabatic")]
    out("/-- the class as data.\n"
        "`__init__(<initParams>)`: `self.<a> = <parameter> | dict() | …` per entry of `initAssigns`;\n"
        "`fictitious_strain`: `e = numpy.zeros(<shape>)`; `e[self.key.<pair>[<comp>] + <off>, …] = <value>` per cell; `return e`;\n"
        f"`fictitious_strain_rotated`: {rot_logs} pure logging statement(s) dropped, `return <rotated>`;\n"
        f"`transformation_matrix`: {tm_logs} pure logging statement(s) dropped, `return <transformation>`;\n"
        "`strain_rotated`: statement by statement;\n"
        "energy properties / key methods: `return <fn>(self.<strain>[, lambda k: self.<resolver>(k)][, self.<target>])`;\n"
        "resolvers: `return self.<dict>[key]`; value properties: `return self.<method>()` / `return self.<attribute>` -/")
    out("def cls : ClassSpec :=")
    out(f"  {{ initParams := {init_params},")
    out(f"    initAssigns := {init_assigns},")
    out(f"    fict :=\n    {fict},")
    out(f"    rotated := ({q(decorator_kind(methods['fictitious_strain_rotated']))}, {arr_expr(rot_e, [])}),")
    out(f"    transformation := ({q(decorator_kind(methods['transformation_matrix']))}, {arr_expr(tm_e, [])}),")
    out(f"    strainRotated := ({q(decorator_kind(methods['strain_rotated']))},\n      {sr}),")
    out("    energies := [" + ",\n                 ".join(energies) + "],")
    out("    keyMethods := [" + ",\n                   ".join(keyms) + "],")
    out("    resolvers := [" + ", ".join(resolvers) + "],")
    out("    values := [" + ", ".join(values) + "] }\n")
    for n in ("__init__", "fictitious_strain", "fictitious_strain_rotated", "transformation_matrix", "strain_rotated",
              "fictitious_strain_energy", "fictitious_strain_energy_rotated", "get_modulus_keys", "get_modulus_keys_rotated",
              "get_elastic_modulus", "get_elastic_modulus_rotated", "value_isothermal", "value_adiabatic"):
        handled.append((f"{CLASS}.{n}", '.translated "cls"'))
    for n in ("fictitious_strain_energy", "fictitious_strain_energy_rotated"):
        handled.append((f"{CLASS}.{n}.<lambda>", '.translated "cls"'))

    # ---------------------------------------------------------------- get_target_elastic_modulus (formula: gen_shear_exprs)
    gt = need("get_target_elastic_modulus")
    kinds = []
    for st in gt.body:
        if isinstance(st, ast.Assign) and len(st.targets) == 1 and isinstance(st.targets[0], ast.Tuple): kinds.append("unpack " + src(st.value))
        elif isinstance(st, ast.Assign) and len(st.targets) == 1 and isinstance(st.targets[0], ast.Name): kinds.append("local")
        elif isinstance(st, ast.Return): kinds.append("return")
        else: kinds.append(type(st).__name__ + ": " + src(st)[:60])
    out("/-- `get_target_elastic_modulus` (its formula is `Generated.shearTarget`): signature, statement kinds, every call it makes -/")
    out(f"def targetParams : List (String × Option String) := {lparams(signature(gt, 'get_target_elastic_modulus'))}")
    out(f"def targetStatements : List String := {lstrs(kinds)}")
    out(f"def targetCalls : List String := {lstrs(calls_in(gt))}\n")
    handled.append((f"{CLASS}.get_target_elastic_modulus", '.translatedBy "gen_shear_exprs" "Generated.shearTarget"'))

    # ---------------------------------------------------------------- inventory
    handled_sorted = []
    names = qualnames(tree)
    rest = list(handled)
    for n in names:                                   # in source order; what the translator did not handle is simply missing
        hit = next((h for h in rest if h[0] == n), None)
        if hit is not None:
            rest.remove(hit); handled_sorted.append(hit)
    handled_sorted += rest
    out("/-- every `def` / `lambda` of the file with its qualified name, in source order (a name listed twice = defined twice) -/")
    out("def definedFunctions : List String :=\n  [" + ",\n   ".join(q(n) for n in names) + "]\n")
    out("/-- what this translator (or gen_shear_exprs) turned into data, per function -/")
    out("def handled : List (String × Handled) :=\n  [" + ",\n   ".join(f"({q(n)}, {h})" for n, h in handled_sorted) + "]\n")
    out("end Generated.ShearGlue\n")
    return {"ShearGlue.lean": "\n".join(L)}, [path]


GENERATORS = {"gen_shear_glue": (gen_shear_glue, ["ShearGlue.lean"])}
