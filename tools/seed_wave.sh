#!/bin/bash
# tools/seed_wave.sh <wave dir with Cxx/SEED_1, Cxx/SEED_2> <first index> [Cxx ...]
#   1 confirms every seed (tools/seed_verify.py; at most 3 pytest suites at a time: more exhausts memory and makes pass sets differ)
#   2 runs the property's check against every confirmed seed, one after the other (they share lean/Generated and the driver)
# Never commit in /verif or run ./check while step 2 is in flight.
ROOT="$(cd "$(dirname "$0")/.." && pwd)"      # the copy of /verif this script lives in (a wave may run from a scratch copy)
src=$1; k=$2; shift 2
props=${@:-$(ls $src | grep '^C[0-9][0-9]$')}
mkdir -p /tmp/seedwave_logs
for p in $props; do for i in 1 2; do [ -d $src/$p/SEED_$i ] && echo "$p $i"; done; done | \
  xargs -P 3 -L 1 bash -c 'python3 '$ROOT'/tools/seed_verify.py '$src'/$0/SEED_$1 $0-$(('$k'+$1-1)) > /tmp/seedwave_logs/verify_$0_$1.log 2>&1'
for p in $props; do for i in 1 2; do
  n=$p-$((k+i-1))
  echo "=== $n"
  if [ -d $ROOT/seeded/$n ]; then python3 $ROOT/tools/seed_run.py $n 2>&1 | grep -E '"exit"|VIOLATION|"what"' | head -4
  else echo " not confirmed: see /tmp/seedwave_logs/verify_${p}_$i.log"; fi
done; done
