#!/bin/bash
# tools/seed_batch.sh <Cxx> <srcdir with SEED_1 SEED_2> <first index> : verify both seeds and run the property's check against them
p=$1; src=$2; k=${3:-3}
for i in 1 2; do
  n=$p-$((k+i-1))
  echo "=== $n"
  python3 /verif/tools/seed_verify.py $src/SEED_$i $n 2>&1 | grep -E '"confirmed"|apply_error|pass_set_diff|demo_clean_exit|demo_mutated_exit' | tr '\n' ' '; echo
  if [ -d /verif/seeded/$n ]; then python3 /verif/tools/seed_run.py $n 2>&1 | grep -E '"exit"|VIOLATION|"what"' | head -3; fi
done
