#!/usr/bin/env python3
"""Writes MANIFEST.json from tools/manifest_src.py (single source of truth for the per-property claims)."""
import json, os, sys
HERE = os.path.dirname(os.path.abspath(__file__))
sys.path.insert(0, HERE)
import manifest_src as M

props = [json.loads(l)["id"] for l in open(os.path.join(HERE, "..", "properties.jsonl"))]
checks, na = [], []
for pid in props:
    c = M.CHECKS.get(pid)
    if c is None:
        na.append({"property_id": pid, "reason": M.NOT_APPLICABLE.get(pid, "check not built yet in this round (planned: DESIGN.md §5)")})
        continue
    checks.append({
        "property_id": pid,
        "quick_cmd": f"./check {pid} --tier quick",
        "thorough_cmd": f"./check {pid} --tier thorough",
        "evidence_file": f"evidence/{pid}.json",
        "replay_cmd_template": f"./check {pid} --replay {{path}}",
        "engine": "lean4-proof+correspondence",
        "level_claimed": {"category": "proof", "text": c["text"], "design_ref": c.get("design_ref", f"DESIGN.md §5 {pid}")},
        "level_note": c["note"],
        "technique": c["technique"],
    })
man = {
    "version": 1,
    "setup_cmd": "/venv/bin/python tools/gen_tables.py && cd lean && lake build",
    "hooks": M.HOOKS,
    "engines": [{
        "name": "lean4-proof+correspondence", "path": "check",
        "serves_properties": [c["property_id"] for c in checks],
        "kind_free_text": "Lean 4 theorems about an executable model (lean/CijModel, lean/CijProofs); model tied to /repo by a translator for data files, expressions and glue code (tools/gen_tables.py + tools/gens/*.py -> lean/Generated) and by a differential correspondence run of the real Python code against the compiled Lean driver (harness/*.py, lean/Driver.lean); failing-input search with an independent oracle per property",
    }],
    "checks": checks,
    "not_applicable": na,
    "notes": M.NOTES,
}
with open(os.path.join(HERE, "..", "MANIFEST.json"), "w") as fp:
    fp.write(json.dumps(man, indent=1) + "\n")
print(f"{len(checks)} checks, {len(na)} not claimed")
