#!/bin/bash
# tools/run_all.sh [tier] : run every claimed check on the real tree (regenerates all evidence files); prints one line per check
cd "$(dirname "$0")/.."
tier=${1:-quick}
for p in $(python3 -c "import json;print(' '.join(c['property_id'] for c in json.load(open('MANIFEST.json'))['checks']))"); do
  out=$(./check $p --tier $tier 2>&1); rc=$?
  echo "$p rc=$rc $(echo "$out" | grep -E "^\[$p\]" | tail -1)"
  echo "$out" | grep -E "^VIOLATION|^KNOWN-FINDING|^INFRA" | cut -c1-160
done
