#!/usr/bin/env python3
"""UNTRUSTED certificate search for C08 (nothing here is believed: the Lean kernel multiplies everything out).

For every generator g of a Laue class (standard setting) the script computes, with exact integer arithmetic in
Z[sqrt3] (pairs (re, im) = re + im*sqrt3), the 21x21 matrix  N_g = act(2R_g) - 16*1  of the *doubled* rotation on the
21 independent components (the factor 2 clears the halves of the 3- and 6-fold axes; rank-4 => factor 16).
For every packaged constraints file (read through the translator's own parser, from the CURRENT tree named by
CIJ_REPO) it then looks for certificates of  rowspace(K) = rowspace(stack_g N_g)  over Q(sqrt3):

    d1 * K_i      = sum_k L1[i][k] * N[k]         (invariance  => relations)
    d2 * N[k]     = sum_i L2[k][i] * K_i          (relations   => invariance)

with L1, L2 sparse over Z[sqrt3] and d1, d2 non-zero integers.  Output (written only when changed):

    lean/CijProofs/Certs/ActData.lean   literal tables of N_g              (independent of /repo)
    lean/CijProofs/Certs/SysData.lean   the certificates of the nine systems (depend on cij/data/constraints/*)

`lean/CijProofs/Lemmas/LaueCerts.lean` states `defectZ g a b = table` and `certOK system rows = true` and has the
kernel evaluate both (`decide +kernel`).  When the two subspaces differ no certificate exists; the script then
writes an empty certificate, the kernel check fails and the C08 theorem of that system no longer builds.

Run:  /venv/bin/python tools/gen_certs.py        (also run by tools/gen_tables.py on every check)
"""
import os, sys
from fractions import Fraction
from math import gcd

HERE = os.path.dirname(os.path.abspath(__file__))
sys.path.insert(0, HERE)
OUT = os.path.join(os.path.dirname(HERE), "lean", "CijProofs", "Certs")

# ----------------------------------------------------------------------------- Z[sqrt3]
def zadd(a, b): return (a[0] + b[0], a[1] + b[1])
def zmul(a, b): return (a[0] * b[0] + 3 * a[1] * b[1], a[0] * b[1] + a[1] * b[0])
Z0, Z1 = (0, 0), (1, 0)
S3 = (0, 1)
def zi(n): return (n, 0)
def zneg(a): return (-a[0], -a[1])

GENS = {   # 2*R, rows
    "twoX":     [[zi(2), Z0, Z0], [Z0, zi(-2), Z0], [Z0, Z0, zi(-2)]],
    "twoY":     [[zi(-2), Z0, Z0], [Z0, zi(2), Z0], [Z0, Z0, zi(-2)]],
    "twoZ":     [[zi(-2), Z0, Z0], [Z0, zi(-2), Z0], [Z0, Z0, zi(2)]],
    "fourZ":    [[Z0, zi(-2), Z0], [zi(2), Z0, Z0], [Z0, Z0, zi(2)]],
    "threeZ":   [[zi(-1), zneg(S3), Z0], [S3, zi(-1), Z0], [Z0, Z0, zi(2)]],
    "sixZ":     [[zi(1), zneg(S3), Z0], [S3, zi(1), Z0], [Z0, Z0, zi(2)]],
    "three111": [[Z0, Z0, zi(2)], [zi(2), Z0, Z0], [Z0, zi(2), Z0]],
}
GEN_ORDER = ["twoX", "twoY", "twoZ", "fourZ", "threeZ", "sixZ", "three111"]
LAUE = {   # must mirror Cij.Laue.laueGens (a mismatch only makes the kernel check fail)
    "triclinic": [], "monoclinic": ["twoY"], "orthorhombic": ["twoX", "twoY", "twoZ"],
    "tetragonal7": ["fourZ"], "tetragonal6": ["fourZ", "twoX"], "trigonal7": ["threeZ"],
    "trigonal6": ["threeZ", "twoX"], "hexagonal": ["sixZ", "twoX"], "cubic": ["fourZ", "three111"],
}
VOIGT = {1: (0, 0), 2: (1, 1), 3: (2, 2), 4: (1, 2), 5: (0, 2), 6: (0, 1)}
PAIRS = [(i, j) for i in range(1, 7) for j in range(i, 7)]
def voigt_of(i, j):
    for v, p in VOIGT.items():
        if p == (min(i, j), max(i, j)): return v
def key_index(i, j, k, l):
    a, b = voigt_of(i, j), voigt_of(k, l)
    return PAIRS.index((min(a, b), max(a, b)))

def defect(gname):
    g = GENS[gname]
    N = [[Z0] * 21 for _ in range(21)]
    for a, (va, vb) in enumerate(PAIRS):
        i, j = VOIGT[va]; k, l = VOIGT[vb]
        for p in range(3):
            for q in range(3):
                for r in range(3):
                    for s in range(3):
                        co = zmul(zmul(zmul(g[i][p], g[j][q]), g[k][r]), g[l][s])
                        b = key_index(p, q, r, s)
                        N[a][b] = zadd(N[a][b], co)
        N[a][a] = zadd(N[a][a], zi(-16))
    return N

# ----------------------------------------------------------------------------- exact solve over Q
def solve_particular(rows, rhs):
    """some x with sum_k x[k]*rows[k] = rhs (rows: list of vectors over Q), or None.  Free unknowns := 0."""
    n = len(rows)
    if n == 0:
        return [] if all(v == 0 for v in rhs) else None
    m = len(rhs)
    # equations: for each coordinate c: sum_k x[k]*rows[k][c] = rhs[c]
    M = [[Fraction(rows[k][c]) for k in range(n)] + [Fraction(rhs[c])] for c in range(m)]
    piv = []
    r = 0
    for col in range(n):
        pr = next((i for i in range(r, m) if M[i][col] != 0), None)
        if pr is None: continue
        M[r], M[pr] = M[pr], M[r]
        inv = 1 / M[r][col]
        M[r] = [v * inv for v in M[r]]
        for i in range(m):
            if i != r and M[i][col] != 0:
                f = M[i][col]
                M[i] = [a - f * b for a, b in zip(M[i], M[r])]
        piv.append(col); r += 1
        if r == m: break
    for i in range(r, m):
        if M[i][n] != 0: return None
    x = [Fraction(0)] * n
    for i, col in enumerate(piv):
        x[col] = M[i][n]
    return x

def lcm(a, b): return a * b // gcd(a, b)

def certificate(K, Ns):
    """K: integer rows (r x 21).  Ns: list of 21x21 tables over Z[sqrt3].  Returns (d1, L1, d2, L2) or None."""
    N = [row for tab in Ns for row in tab]                    # stacked, index k = 21*g + a
    A = [[z[0] for z in row] for row in N]
    B = [[z[1] for z in row] for row in N]
    nN = len(N)
    # --- cert 1: K_i = sum_k (p_k + s3 q_k) (A_k + s3 B_k)  <=>  sum p_k A_k + 3 q_k B_k = K_i,  sum p_k B_k + q_k A_k = 0
    src = [A[k] + B[k] for k in range(nN)] + [[3 * v for v in B[k]] + A[k] for k in range(nN)]
    L1, d1 = [], 1
    sols = []
    for Ki in K:
        x = solve_particular(src, list(Ki) + [0] * 21)
        if x is None: return None
        sols.append(x)
        for v in x: d1 = lcm(d1, v.denominator)
    for x in sols:
        ent = []
        for k in range(nN):
            p, q = x[k] * d1, x[nN + k] * d1
            if p != 0 or q != 0: ent.append((k, int(p), int(q)))
        L1.append(ent)
    # --- cert 2: N_k = sum_i (p_i + s3 q_i) K_i  <=>  sum p_i K_i = A_k, sum q_i K_i = B_k
    L2, d2, sols = [], 1, []
    for k in range(nN):
        p = solve_particular(K, A[k]); q = solve_particular(K, B[k])
        if p is None or q is None: return None
        sols.append((p, q))
        for v in p + q: d2 = lcm(d2, v.denominator)
    for p, q in sols:
        ent = []
        for i in range(len(K)):
            a, b = p[i] * d2, q[i] * d2
            if a != 0 or b != 0: ent.append((i, int(a), int(b)))
        L2.append(ent)
    return d1, L1, d2, L2

# ----------------------------------------------------------------------------- Lean output
def lean_int(n): return str(n) if n >= 0 else f"({n})"   # inside tuples/lists a bare -n is fine too; keep parentheses-free below
def fmt_pair(z): return f"({z[0]}, {z[1]})"
def fmt_tab(tab): return "[" + ",\n   ".join("[" + ", ".join(fmt_pair(z) for z in row) + "]" for row in tab) + "]"
def fmt_sparse(L): return "[" + ",\n   ".join("[" + ", ".join(f"({k}, {a}, {b})" for k, a, b in row) + "]" for row in L) + "]"

def write_if_changed(path, text):
    old = open(path).read() if os.path.exists(path) else None
    if old != text:
        os.makedirs(os.path.dirname(path), exist_ok=True)
        with open(path, "w") as fp: fp.write(text)
        return True
    return False

def main():
    import gen_tables
    tabs = {g: defect(g) for g in GEN_ORDER}
    act = ["-- GENERATED by tools/gen_certs.py (UNTRUSTED data; checked by the kernel in Lemmas/LaueCerts.lean) — do not edit",
           "import CijModel.Laue", "namespace Cij.Certs", "open Cij.Laue", ""]
    for g in GEN_ORDER:
        act.append(f"def defect_{g} : List (List (Int × Int)) :=\n  {fmt_tab(tabs[g])}\n")
    fib = [[] for _ in range(21)]
    for p_ in range(3):
        for q in range(3):
            for r in range(3):
                for s_ in range(3):
                    fib[key_index(p_, q, r, s_)].append((p_, q, r, s_))
    act.append("/-- claimed fibres of the canonical key: for each component the index tuples (p,q,r,s) mapped onto it -/")
    act.append("def fiberLit : List (List Idx4) :=\n  [" + ",\n   ".join("[" + ", ".join(str(t) for t in f) + "]" for f in fib) + "]\n")
    act.append("/-- claimed table of `defectZ g` : entry (a, b) as (re, im) -/")
    act.append("def defectLit : Gen → List (List (Int × Int))")
    for g in GEN_ORDER:
        act.append(f"  | .{g} => defect_{g}")
    act.append("\nend Cij.Certs\n")
    changed = []
    if write_if_changed(os.path.join(OUT, "ActData.lean"), "\n".join(act)): changed.append("ActData.lean")

    cdir = os.path.join(gen_tables.REPO, "cij/data/constraints")
    names = sorted(os.listdir(cdir))
    out = ["-- GENERATED by tools/gen_certs.py from the CURRENT cij/data/constraints/* (UNTRUSTED; kernel-checked) — do not edit",
           "namespace Cij.Certs", "",
           "/-- (d1, L1, d2, L2): d1·K_i = Σ L1[i]·N,  d2·N_k = Σ L2[k]·K ; sparse rows of (source index, re, im) -/",
           "structure SysCert where", "  d1 : Int", "  l1 : List (List (Nat × Int × Int))",
           "  d2 : Int", "  l2 : List (List (Nat × Int × Int))", ""]
    status = {}
    for name in names:
        cert = None
        try:
            rows = gen_tables.constraint_rows(os.path.join(cdir, name))
            K = [co for co, rhs, den in rows]
            if name in LAUE and all(rhs == 0 for co, rhs, den in rows):
                cert = certificate(K, [tabs[g] for g in LAUE[name]])
        except Exception as e:           # outside the grammar: the translator reports it; no certificate here
            status[name] = f"error: {e}"
        if cert is None:
            status.setdefault(name, "NO CERTIFICATE (subspaces differ)")
            cert = (1, [], 1, [])
        else:
            status[name] = "ok"
        d1, L1, d2, L2 = cert
        ident = "".join(ch if ch.isalnum() else "_" for ch in name)
        out.append(f"def cert_{ident} : SysCert where\n  d1 := {d1}\n  l1 :=\n  {fmt_sparse(L1)}\n  d2 := {d2}\n  l2 :=\n  {fmt_sparse(L2)}\n")
    out.append("def sysCert : String → SysCert")
    for name in names:
        ident = "".join(ch if ch.isalnum() else "_" for ch in name)
        out.append(f"  | \"{name}\" => cert_{ident}")
    out.append("  | _ => ⟨1, [], 1, []⟩")
    out.append("\nend Cij.Certs\n")
    if write_if_changed(os.path.join(OUT, "SysData.lean"), "\n".join(out)): changed.append("SysData.lean")
    import json
    print(json.dumps({"certs_changed": changed, "status": status}))
    return 0

if __name__ == "__main__":
    sys.exit(main())
