#!/usr/bin/env python3
"""Confirm a seeded change produced by a sub-agent, in a scratch worktree of /repo HEAD (never in /repo):

  tools/seed_verify.py <src_dir_with patch.diff demo.py meta.json> <dest name under /verif/seeded>

 1 patch applies to the current /repo HEAD           2 demo passes (exit 0) on the unchanged tree
 3 with the patch: package imports, the pytest pass set equals the baseline pass set of HEAD
 4 demo fails (exit != 0) with the patch              5 worktree removed
On success copies patch.diff, demo.py, meta.json (+ "confirmed" block) to /verif/seeded/<dest>/.
"""
import json, os, re, shutil, subprocess, sys, tempfile, time

REPO = "/repo"
VERIF = os.path.dirname(os.path.dirname(os.path.abspath(__file__)))
PY = "/venv/bin/python"


def sh(cmd, cwd=None, timeout=1800):
    p = subprocess.run(cmd, cwd=cwd, shell=isinstance(cmd, str), stdout=subprocess.PIPE, stderr=subprocess.STDOUT, timeout=timeout)
    return p.returncode, p.stdout.decode(errors="replace")


def pass_set(wt):
    rc, out = sh(f"{PY} -m pytest -q -p no:cacheprovider --timeout=900 -rA 2>&1", cwd=wt)
    sh("git clean -fdq examples", cwd=wt)
    res = {}
    for m in re.finditer(r"^(PASSED|FAILED|ERROR) (\S+)", out, re.M):
        res[m.group(2)] = m.group(1)
    return res


def main():
    src, dest = sys.argv[1], sys.argv[2]
    head = sh("git rev-parse HEAD", cwd=REPO)[1].strip()
    wt = tempfile.mkdtemp(prefix="seedverify_")
    os.rmdir(wt)
    report = {"repo_head": head, "at": time.strftime("%Y-%m-%dT%H:%M:%S")}
    ok = False
    try:
        rc, out = sh(f"git worktree add -q --detach {wt} HEAD", cwd=REPO)
        assert rc == 0, out
        patch = os.path.abspath(os.path.join(src, "patch.diff"))
        demo = os.path.abspath(os.path.join(src, "demo.py"))
        os.makedirs(os.path.join(wt, "SEEDX"), exist_ok=True)
        shutil.copy(demo, os.path.join(wt, "SEEDX", "demo.py"))
        rc, out = sh(f"git apply --check {patch}", cwd=wt)
        if rc != 0:
            rc, out = sh(f"git apply --check -3 {patch}", cwd=wt)
        report["applies"] = (rc == 0)
        if rc != 0:
            report["apply_error"] = out[-800:]
            print(json.dumps(report, indent=1)); return 1
        cache = f"/tmp/seed_baseline_{head}.json"
        import fcntl
        with open(cache + ".lock", "w") as lk:          # several verifications start together: only one computes the baseline
            fcntl.flock(lk, fcntl.LOCK_EX)
            if os.path.exists(cache):
                base = json.load(open(cache))
            else:
                base = pass_set(wt)
                if sum(1 for v in base.values() if v == "PASSED") < 50:      # a killed / starved pytest run: never cache it
                    report["baseline_error"] = f"baseline run produced only {len(base)} results"
                    print(json.dumps(report, indent=1)); return 1
                json.dump(base, open(cache, "w"))
        report["baseline_passed"] = sum(1 for v in base.values() if v == "PASSED")
        rc0, out0 = sh(f"{PY} SEEDX/demo.py {wt}", cwd=wt, timeout=1200)
        sh("git clean -fdq examples", cwd=wt)
        report["demo_clean_exit"] = rc0
        rc, out = sh(f"git apply {patch}", cwd=wt)
        assert rc == 0, out
        rc, out = sh(f"{PY} -c \"import cij, cij.core.calculator, cij.cli.main, cij.util.fill; print(cij.__file__)\"", cwd=wt)
        report["imports"] = (rc == 0 and wt in out)
        mut = pass_set(wt)
        same = {k for k, v in base.items() if v == "PASSED"} == {k for k, v in mut.items() if v == "PASSED"}
        report["pass_set_identical"] = same
        if not same:
            report["pass_set_diff"] = sorted({k for k, v in base.items() if v == "PASSED"} ^ {k for k, v in mut.items() if v == "PASSED"})[:10]
        rc1, out1 = sh(f"{PY} SEEDX/demo.py {wt}", cwd=wt, timeout=1200)
        report["demo_mutated_exit"] = rc1
        report["demo_mutated_tail"] = out1[-600:]
        ok = report["applies"] and rc0 == 0 and report["imports"] and same and rc1 != 0
        report["confirmed"] = ok
    finally:
        sh(f"git worktree remove --force {wt}", cwd=REPO)
        shutil.rmtree(wt, ignore_errors=True)
    if ok:
        d = os.path.join(VERIF, "seeded", dest)
        os.makedirs(d, exist_ok=True)
        shutil.copy(os.path.join(src, "patch.diff"), d)
        shutil.copy(os.path.join(src, "demo.py"), d)
        meta = json.load(open(os.path.join(src, "meta.json")))
        meta["confirmed"] = {k: report[k] for k in ("repo_head", "at", "baseline_passed", "demo_clean_exit", "pass_set_identical",
                                                    "demo_mutated_exit")}
        meta["confirmed"]["ran"] = ["git worktree add (scratch, /repo HEAD)", "demo.py on clean tree -> exit 0",
                                    "git apply patch.diff", "pytest -rA: pass set identical to HEAD baseline",
                                    "demo.py with patch -> exit != 0", "git worktree remove --force"]
        json.dump(meta, open(os.path.join(d, "meta.json"), "w"), indent=1)
    print(json.dumps(report, indent=1))
    return 0 if ok else 1


if __name__ == "__main__":
    sys.exit(main())
