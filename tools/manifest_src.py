HOOKS = {
    "guard": "CIJ_VERIF",
    "enable": "no hooks are needed: the harness reads public attributes of the real objects in-process; CIJ_VERIF is reserved and unused",
    "baseline_off_cmd": "cd /repo && /venv/bin/python -m pytest -ra -q -p no:cacheprovider --timeout=900 --continue-on-collection-errors",
    "source_commits": [],
    "add_only": True,
}

NOTES = ("Every check: translator (repo data -> lean/Generated) + lake build of the property's theorems + #print axioms audit + "
         "correspondence run (real Python code vs compiled Lean model on the same inputs) + independent oracle of the property statement "
         "on the real code. Exit 1 only with a VIOLATION line; infrastructure errors exit 2. known_findings.json lists genuine defects "
         "that were repaired (fixed:) or recorded (known).")

COMMON_NOTE = ("Trusted: Lean 4.33 kernel, axioms within {propext, Classical.choice, Quot.sound} (audited each run), Mathlib v4.33 "
               "definitions, tools/gen_tables.py, harness + Lean driver. cij's Python is modelled, tied by correspondence "
               "(differential testing), not verified; floating-point rounding and third-party libraries are outside the theorems. ")

NOT_APPLICABLE = {}

CHECKS = {
    "C10": {
        "text": "All clauses proved by kernel evaluation over the complete finite domain and lifted to all integers (range lemmas); "
                "the Voigt table inside the model is re-translated from cij/util/voigt.py on every run; the real c_/e_ are compared "
                "with the model on the entire domain (exhaustive), and the property statement itself is evaluated on the real code.",
        "note": COMMON_NOTE + "Exhaustive: nothing is sampled for this property.",
        "technique": "Lean 4 theorems (decide +kernel over the full domain, omega range lemmas) + exhaustive model/code correspondence",
    },
    "C12": {
        "text": "Proved on the model: the Q1/Q2 expression trees translated from nonshear.py on every run denote the textbook functions over R, "
                "have no zero denominator for Q>0 and are bounded (0<Q1<1, 0<Q2<=1, 1-e^-Q >= Q/(1+Q)); an abstract IEEE-754 special-value "
                "semantics proves that the spelling shipped before fix 9d0159a is NaN whenever exp Q overflows and that the current one is 0 "
                "there; thermal terms tend to 0 as T->0+. PARTIAL: IEEE finiteness between the overflow regimes, rounding, library "
                "exceptions and dtypes are outside any theorem and are covered by a sweep of the real Calculator (interpolators x orders x "
                "systems x temperature grids x component sets) with the property statement as oracle.",
        "note": COMMON_NOTE + "The IEEE class transfer tables of the model are validated against numpy on sampled doubles every run "
                "(a test, not a proof). qha and scipy are external. Known finding: interpolator 'hermite' cannot run.",
        "technique": "Lean 4 theorems on translated expression trees (real analysis + decide over an abstract IEEE domain) + end-to-end sweep oracle",
    },
    "C01": {
        "text": "Model of nonshear.py at R proved equal to A/(5e^2)+P_ph/(3e) and A/(15e_ie_j)+(P-P_static), with P_ph = -dF_ph/dV and "
                "A = V d2F_ph/dV2 - P_ph (Mathlib deriv), for arbitrary lists of q-points, modes and weights, zero-point and thermal parts "
                "separately, all T >= 0. Prefactor denominators are re-translated from nonshear.py every run. The same model at Float is "
                "compared with the real classes on a stub calculator (rel 1e-9); a 40-digit mpmath differentiation of F_ph for analytic "
                "spectra is compared with the real classes (rel 1e-7); unit constants are compared with CODATA (rel 1e-8).",
        "note": COMMON_NOTE + "The oracle covers analytic omega(V) only; arbitrary arrays are covered by theorem plus correspondence. "
                "0 < T < 20 K (exp overflow regime) belongs to C12.",
        "technique": "Lean 4 HasDerivAt calculus + list induction; differential correspondence; mpmath oracle",
    },
    "C02": {
        "text": "Model gap proved equal to T V (dP_ph/dT)^2/(9 e_i e_j C_V) for C_V != 0, with dP_ph/dT the deriv in T of -dF_ph/dV; >= 0 on "
                "the diagonal and exactly 0 at T = 0 for arbitrary arrays; in the calculate-loop model shear keys agree in both result "
                "stores for any task list. Correspondence at rel 1e-9; oracle = mpmath mixed derivative, plus all 21 keys through the real "
                "PhononContributionTaskList with the 15 shear keys compared exactly.",
        "note": COMMON_NOTE + "The task-loop model behind c02_shear_equal is tied to the code by the exact oracle check (and by C04's task-list correspondence).",
        "technique": "Lean 4 HasDerivAt calculus + induction over task lists; differential correspondence; mpmath oracle",
    },
    "C07": {
        "text": "Model of _calculate_compliances + CijVolumeBaseInterface (assembly key by key, attribute lookups, six averages, mass, v_p, v_s) "
                "polymorphic in the scalar; numpy.linalg.inv is a parameter S constrained by C.S=1. Proved over R for every key order / subset "
                "containing the nine orthotropic keys / grid: the assembled 6x6 is the symmetric fill and the Voigt matrix of tensorOf; "
                "K_V=C_iijj/9, G_V=(3C_ijij-C_iijj)/30, K_R=1/S_iijj, G_R=15/(6S_ijij-2S_iijj); S_ijkl with 1,1/2,1/4 factors is the fourth-rank "
                "inverse; Hill=means; 0<K_R<=K_VRH<=K_V and 0<G_R<=G_VRH<=G_V for positive-definite C (Cauchy-Schwarz in the C inner product, "
                "bulk direction and all five deviatoric directions); rho v_s^2=G_VRH, rho v_p^2=K_VRH+4G_VRH/3 with rho=m[g/mol]/1000/(N_A V), "
                "km/s. Real classes run on a stub and compared with the Float model on random SPD fields per crystal system; independent "
                "einsum/CODATA oracle.",
        "note": COMMON_NOTE + "numpy.linalg.inv, pint's Ry factor and scipy's N_A are parameters (|C.S-1| and the constants measured every run). "
                "Regression input of fix 1b22ce6 (s12=0) replayed from corpus/C07.",
        "technique": "Lean 4 theorems over R (Mathlib Matrix, discriminant/Cauchy-Schwarz, decide +kernel key tables) + differential correspondence on a stub calculator + einsum oracle",
    },
    "C15": {
        "text": "Content of every output file proved on the model of ResultsWriter/write_table/qha writers for all scalars, grids, arrays and "
                "component lists: rows = T_MIN+k*DT (last four guard rows dropped, for every NT), columns = requested pressures (GPa) or grid "
                "volumes (A^3), values = unit factor x in-memory; registry = last rule wins; on the rules re-translated from writer_rules.yml "
                "(decide +kernel): every keyword resolves, aliases -> same rule -> identical files, cij/cij_s -> modulus_adiabatic, cij_t -> "
                "modulus_isothermal, documented names/units, all 104 producible file names distinct, one file per component. The real "
                "ResultsWriter is run for every keyword and alias x both bases x random grids/components (stub bases with the real write_table, "
                "and bases of a real Calculator), files re-read and compared with the model (1e-14) and with an independent oracle "
                "(CODATA factors, documented names). Partial: fname override on tensor keywords is a recorded finding; printed precision tested.",
        "note": COMMON_NOTE + "pint factors are model inputs measured on every run; labels are compared at pandas' printed precision (6 decimals).",
        "technique": "Lean 4 theorems (induction over lists, ring identities, decide +kernel on translated rules) + differential correspondence on real files + independent oracle",
    },
    "C19": {
        "text": "Proved on the model of cij/cli/extract.py and geotherm.py over any ordered field: argmin|x-y| returns a nearest index, first on ties; "
                "-T returns that row labelled by pressures, -P that column labelled by temperatures; the printed table has one column per "
                "variable taken from that variable's own file (glob prefix matches exactly one writer-produced name, decide +kernel on the "
                "translated rules); extract-geotherm = geotherm columns unchanged + spline(T-column, P-column) per variable, which at a grid "
                "node is the table entry (T/P not transposed) given the spline's interpolation contract. The real click commands are run on "
                "directories written by the real writer and compared with model and a numpy oracle; between nodes the error against a known "
                "smooth function must shrink under refinement. Partial: spline convergence is monitored, not proved.",
        "note": COMMON_NOTE + "RectBivariateSpline and DataFrame.to_string are external (contract measured at nodes; stdout parsed at display.precision 17).",
        "technique": "Lean 4 theorems (first-minimum invariant, list/dict lemmas, decide +kernel) + differential correspondence through click.testing.CliRunner + independent numpy oracle",
    },
    "C05": {
        "text": "Static part, decomposition and wiring proved on the executable model: the model's Gauss-Jordan solver is proved total and correct "
                "whenever all leading blocks are non-singular, which holds for the normal matrix of >= deg+1 distinct strains (gauss_jordan_total, "
                "polyfit_answers), so the fit exists, satisfies the normal equations, is the least-squares cubic and is exact on cubics (cubic_fit_exact); total = static[v] + phonon[t][v] at every grid "
                "point; the phonon part is independent of the table and the static part of T; strain triples sum to 1 (equal thirds without "
                "a lattice block); GPa->Ry/bohr^3 and numpy.gradient semantics. The model runs over Rat on the arrays the real Calculator had "
                "(synthetic files, all nine crystal systems, +/- lattice) and is compared at 1e-7; an independent reference rebuilt from the "
                "files checks grid, keys, total-static = task-list output, a metamorphic table alteration, strain fractions, static pressure "
                "and the mode-parameter order.",
        "note": COMMON_NOTE + "qha's grid and strains enter as data (the oracle recomputes them); the phonon value itself is C01-C04's subject; "
                "the symmetry filling is C08/C09's; numpy.polyfit optimality is measured per case as a contract.",
        "technique": "Lean 4 theorems over ordered fields with certificate-checked exact least squares; Rat-run model/code correspondence; independent numpy/long-double oracle from files with a metamorphic second run",
    },
    "C06": {
        "text": "Proved: the 4-point Lagrange rule is exact for every cubic in P, so v2p(P_tv)=requested pressures, and returns tabulated values "
                "at nodes; qha's bisection brackets the target (loop invariant), also on the padded row; cij's range check accepts exactly "
                "the grids <= P(T,V_last) for every T, for all P_MIN, DELTA_P, NTV; every pressure-base name routes through the same "
                "(P_tv, p_array); P(T,V(T,P))=P exactly and V decreasing whenever V is a polynomial of degree <= 3 in P along the isotherm (c06_volume_roundtrip_cubic; "
                "P a monotone cubic of V is not enough: c06_roundtrip_inexact_for_cubic_in_V). PARTIAL (monitored, not proved): the size of the interpolation error, P(T,V(T,P))=P and V(T,P) decreasing "
                "for other isotherms, checked against a 6-point local reference within the divided-difference bound.",
        "note": COMMON_NOTE + "P(T,V) and the volume-base arrays are taken from the real run; the bound is widened x10 in the two outermost grid intervals.",
        "technique": "Lean 4 theorems (functional induction on the bisection, field_simp/ring); Float-run correspondence at 1e-10; numpy-only oracle incl. a v2p call counter for 'rejected before any conversion'",
    },
    "C03": {
        "text": "Energy invariance over any commutative ring and exactness of the shear solver for all 15 keys, every symmetric tensor and every "
                "orthogonal diagonalising frame over any field of characteristic 0; no self-dependency, rotated keys non-shear, strain_rotated "
                "= diagonal of the rotated diagonal strain with trace kept and independence of eigenvector sign and order. The real "
                "ShearElasticModulusPhononContribution is run on exact tensors (the 21 basis tensors plus random ones), with numpy's own eigh "
                "output fed to the model. Oracle: the tensor component itself.",
        "note": COMMON_NOTE + "eigh and isclose are parameters with contracts (orthogonality, diagonalisation) measured on every case.",
        "technique": "Lean 4 theorems (Finset sum algebra, Matrix one-sided inverse, decide +kernel tables, linear_combination) + differential correspondence + tensor-component oracle",
    },
    "C04": {
        "text": "Proved about the model: acyclicity by a rank and termination of the LIFO work-list; queue-level closure invariant (every "
                "requested key and every dependency gets a task and an edge, edges raise the rank); calculate over any valid order stores spec "
                "for every task; request independence; the isotropic limit for any orthogonal frames; axis permutation for equivariant frames "
                "and identically zero c14/c25/c36 for axis-containing frames. For an arbitrary basis inside the double eigenspace of c14/c25/c36 the value is given in closed form (c04_degenerate_value) and DOES "
                "depend on the basis: 0 exactly at axis-containing bases, -1/128 in an explicit 45-degree instance (c04_degenerate_basis_dependent), so the "
                "relabelling clause is false in the model for such a basis (c04_axis_permutation_fails_for_rotated_basis) and holds on the real code because "
                "LAPACK returns the coordinate axis (contract DegFrames, measured on every run). The real "
                "PhononContributionTaskList is driven by a stub calculator; oracles: assembly (completeness, DAG, evaluation order, "
                "definition values), independence (incl. near-coincident strain fractions), isotropy, six permutations.",
        "note": COMMON_NOTE + "Task equality is a parameter relation assumed to be an equivalence; its float tolerance is read off the real __eq__ on every run. networkx.topological_sort is a parameter (its output is checked to respect the edges).",
        "technique": "Lean 4 theorems (work-list invariant, induction on fuel and rank, decide +kernel tables) + correspondence modulo task renumbering + metamorphic and definitional oracles",
    },
    "C17": {
        "text": "Record/line-level model of read_energy/write_energy, read_elast_data, _find_modulus_key, apply_symetry_on_elast_data and the "
                "re-emission of `cij fill`; read(write d) proved equal to rounding-to-printed-precision for every well-formed data set and any "
                "lawful number formatter; exact static-table read (any digit-free prefix / 2- or 4-index spelling -> canonical key via the C10 "
                "table); fill output proved to be a table whose parse is the symmetry-filled parse with header lines, counts, volumes and "
                "lattice block preserved, fill_cij being a parameter. The real code is compared token-by-token with the model on exact decimal "
                "arithmetic and with the generating data. PARTIAL: strip/split, regex engine, printf/float(), pandas read_table/to_string are "
                "outside the model (tested through the real functions).",
        "note": COMMON_NOTE + "fill_cij is a parameter with an explicit naturality hypothesis (C08/C09 own it). The formatter law NumFmt.Lawful is proved for the instance the correspondence run executes (rat_parse_fmt: for all k, q, ratParse (ratFmtStr k q) = some (ratRound k q), character level, no guard), so the _rat corollaries carry no formatter hypothesis; that CPython's %.kf / float() agree with that instance is tested, not proved. Known finding: fill_cij recognises only c<i><j> column names.",
        "technique": "Lean 4 theorems by induction over volumes/q-points/modes/rows (abstract Num with parse(fmt x) = round x) + decide +kernel instances over Rat + differential run against the real writer/reader/CLI with the generating data as oracle",
    },
    "C20": {
        "text": "evec_sort's greedy loop proved to recover any planted permutation whose entries are positive and dominate their rows, over any "
                "linear order, with the output a permutation; the hypothesis proved with margin 1-2eps for any orthonormal family (real or "
                "complex), permuted, re-phased and perturbed by eps<1/2 (5% as instance); counter-example without dominance; disp2eig proved to "
                "give unit norm and to restore (c/|c|)e_i and orthonormality for all positive masses; dimension-mismatch rejection "
                "characterised; loader proved at block and column-slice level. PARTIAL: the loader's regexes/float() are parameters of the "
                "theorems (hand-written scanners in the driver, compared with the real loader).",
        "note": COMMON_NOTE + "The model's complex-pair overlap is proved equal to Mathlib's inner product on EuclideanSpace C (Fin n) (first argument conjugated, as conj(base) @ target.T), so the recovery theorem is stated about Evec.evecSort itself over R-pairs (evecSort_recovers, with an explicit n=2 instance); Float rounding is outside (Float run compared with numpy on every case).",
        "technique": "Lean 4 (Finset-indexed loop invariant, Mathlib inner-product spaces, Real.sqrt algebra) + differential run with planted permutation / orthonormality / printed numbers as oracle",
    },
    "C11": {
        "text": "Proved on the model of mode_gamma.py: for any log-log interpolant with derivatives s', s'' the returned triple is (omega, "
                "-dln omega/dln V, V dgamma/dV) of one omega (triple_consistent); numpy polyder/polyval are derivatives; the normal-equation "
                "solution minimises the residual and IS the generating polynomial for ln omega polynomial of degree <= order on >= order+1 "
                "distinct volumes; the lagrange/krogh kernel is THE interpolating polynomial (unique) hence exact for degree < #nodes and for "
                "power laws at every V>0; Gamma-acoustic entries are exactly 0; output at (q,m) depends on the input series of (q,m) only; "
                "thinning keeps at most `order` nodes; plot selection n=0,1,2 -> omega, gamma, V dgamma/dV. Negative result with witness: "
                "hermite always raises TypeError (known finding). PARTIAL: FITPACK/pchip/akima internals are a parameter (contract s'=ds, "
                "s''=ds' measured by finite differences on every library case). Real interpolate_modes / lstsq_polyfit / "
                "Calculator._interpolate_modes / ModePlotter.plot_modes are compared with the model on 7 methods x admissible orders x "
                "{power law, polynomial, smooth}; independent oracle: analytic gamma and V dgamma/dV, finite differences, mpmath reference.",
        "note": COMMON_NOTE + "Totality of the Gaussian elimination is proved (elimination_total: an answer whenever the kernel is trivial; lsq_total: for any data on >= order+1 distinct volumes), so lsq_exact_kernel / lsq_poly_law_exact carry no solver hypothesis; rank-deficient least squares (numpy: minimum-norm) is outside the model. mode_glue_is_source ties the (exp s, -s', -s'') pattern and the node thinning/flips to mode_gamma.py as translated on this run.",
        "technique": "Lean 4 theorems (HasDerivAt chain rule, Mathlib Polynomial root counting, least-squares orthogonality) + differential correspondence with exact-rational kernels + analytic/finite-difference/mpmath oracles",
    },
    "C16": {
        "text": "Merge: for all nested dictionaries and every iteration order of the key set, a complete path-by-path specification of "
                "update_config (user's walk wins; a user dict over a non-dict default is taken whole - regression theorem for fix a3016c4) is "
                "proved, giving user-leaf-kept, default-leaf-filled, no-other-keys, idempotence, order-independence and definedness. "
                "Validation: a model of the jsonschema 2020-12 fragment the packaged schema uses, run by the Lean kernel on the re-translated "
                "schema/default/examples; for each of 18 documented fields: violating value => every configuration rejected, satisfying value "
                "=> any valid configuration stays valid; missing qha/elast rejected; unknown keys in elast.settings and ...symmetry rejected; "
                "default and shipped examples validate. Correspondence with the real update_config/apply_default_config/validate_config/"
                "read_config and with jsonschema on 30 schema variants; independent leaf-path and documented-constraint oracles.",
        "note": COMMON_NOTE + "YAML/JSON parsers are not modelled (spelling equivalence tested through the real read_config only). jsonschema is a modelled third party (Draft 2020-12 choice and $ref-sibling semantics measured each run). No claim about unknown root-level keys.",
        "technique": "Lean 4 theorems (induction on paths / sizeOf over the nested JSON type; fuel-indexed schema evaluator; decide +kernel on translated schema data) + differential correspondence + independent oracles",
    },
    "C08": {
        "text": "For each of the nine systems, for all c : Fin 21 -> R: the relation rows translated from cij/data/constraints/* on this run hold "
                "<=> the full 3^4 tensor is invariant under every generator of the Laue class (standard setting). Proved from kernel-checked "
                "certificates over Z[sqrt 3] (d K = L N, d' N = L' K); the action matrices are computed by the model's rotate and lifted to R. "
                "Generators are proved to be the named proper rotations of the named order; invariance closes under products; inversion acts "
                "trivially. fill_consistent: a consistent, determined table is filled with exactly the invariant tensor, supplied entries "
                "unchanged; vanishing components omitted. All 314 minimal sufficient subsets plus random supersets go through the real "
                "fill_cij and apply_symetry_on_elast_data; oracle: numpy einsum invariance under explicit rotation matrices.",
        "note": COMMON_NOTE + "tools/gen_certs.py is untrusted: it only proposes certificate matrices which the Lean kernel multiplies out (regenerated from the current constraints files on every run; an edited sign or factor makes the certificate theorem false).",
        "technique": "Lean 4 certificate checking (decide +kernel over Z[sqrt 3]) + ring-hom lifting to R + differential correspondence + independent rotation oracle",
    },
    "C09": {
        "text": "Exact model of fill_cij over any ordered field, run over Rat on the same tables: a verified kernel-vector decision gives rank "
                "refusal <=> a non-zero relation-compatible tensor vanishes on all supplied components (no numerical threshold); the written "
                "solution is the exact least-squares solution, unique when determined; acceptance => every supplied value and every relation "
                "is off by <= sqrt(atol) (also under ignore_rank), and by 0 when the data are consistent; residual refusal iff; flags only "
                "disable refusals; lookup independent of Path.exists and a relations file is used; non-modulus columns pass through; "
                "vanishing components dropped; triclinic refuses iff a component is missing; column order and letter case: for a rectangular "
                "table without case-duplicated columns and any rearrangement/re-casing of its columns fill has the same status (also the "
                "model's own solver failure) and returns the same map - surviving input columns in input order and spelling with the same "
                "solved values, then the identical lower-case block of new components - in the determined and in the ignore_rank "
                "(minimum-norm) branch (the model's least squares is proved to depend only on the multiset of equations). dtype and NaN "
                "are outside the model.",
        "note": COMMON_NOTE + "numpy.linalg.lstsq's numerical rank threshold is replaced by exact rank (inputs keep singular values well separated); the model's own solver result is checked; its elimination is proved complete and the system it solves is proved solvable for every rank (lstsq_total, via Mathlib rank_self_mul_transpose), so the model's solver-failure outcome is unreachable (fill_never_solver).",
        "technique": "Lean 4 proofs with a verified kernel-vector decision and checked least-squares certificates + exact-rational correspondence + sympy/Fraction oracle",
    },
    "C13": {
        "text": "Proved on the models the C01/C02/C05/C11/C17 correspondence runs execute: the weighted mode average (and the five per-(T,V) "
                "quantities and value_isothermal/value_adiabatic of both non-shear classes) is invariant under List.Perm of the q-points after Gamma "
                "together with their weights, under permutations of the modes inside a q-point (Gamma: of its non-acoustic modes) and under a common "
                "factor c != 0 on the weights; interpolate_modes is equivariant under any re-indexing of (q,m) that respects the Gamma-acoustic slots; "
                "normal matrix, right-hand side, certificate and hence both least-squares solvers do not see the row order; the least-squares "
                "polynomial is unique and invariant under an affine change of abscissa (what another reference volume does to the Eulerian strain, "
                "proved over R), so fitted static values at corresponding points are unchanged; static column prefix/case/transposed digits give the "
                "same canonical key and a column permutation gives the same parsed map (or both reads fail). The fit_modulus corollaries of the affine/row-order clause are unconditional (fit_modulus_answers, "
                "fit_modulus_affine, static_row_perm: the unpivoted Gauss-Jordan solver is proved total on >= order+2 distinct strains). The equivariance theorem is total for bijective re-indexings (interp_perm_equivariant_total: one presentation returns iff the other does; which exception is raised is not presentation-independent, interp_perm_error_may_differ). PARTIAL: "
                " volume-block order: proved on the translated read_input since round 4 (see the source ties below); what qha/scipy compute AFTER read_input stays outside. Metamorphic end-to-end runs of the real Calculator on 12 "
                "re-presentations per data set (incl. combined column shuffle+respelling, normalised weights, extreme weight factors, composed phonon "
                "re-presentation) with 'identical to 1e-8 of scale' (volume order: identical or rejected) as oracle.",
        "note": COMMON_NOTE + "Theorems are over R / ordered fields; 'unchanged to rounding' is measured, not proved. qha and scipy are external.",
        "technique": "Lean 4 theorems (List.Perm induction, Mathlib Polynomial uniqueness, decide +kernel instances) + metamorphic end-to-end oracle on the real Calculator",
    },
    "C18": {
        "text": "Model of cli/static.py (CijModel/Static.lean) statement by statement, polymorphic in the scalar: input columns, linspace grid, "
                "fit_modulus (qha least squares = C05's exact normal-equation fit, degree 2 in Eulerian strain), -gradient/gradient, the three "
                "mode branches (v2p1d = C06's v2p on the reversed arrays), density, per-key modulus fit on input02's own volumes, fill (C08/C09 "
                "model as a parameter), --cellmass, the private VRH block, unit factors, velocities, sampling. Proved over R for all inputs: the "
                "table factors through these stages; printed V,F,P,density are the mode columns times _to_ang3/_to_ev/_to_gpa/_to_gcm3, each "
                "converted once (fill contract proved for the fill model); mode none F=input energies; mode volume V=grid, F=the least-squares "
                "quadratic (minimal residual, exact on quadratic data), P=central/one-sided difference quotients (exact derivative for quadratic-"
                "in-V data on a uniform grid and for affine data); mode pressure P=P_MIN+j*DELTA_P exactly, V and F by the same rule and the same "
                "pressures, exact at node pressures and for data cubic in P; every c_ij column is the fit of input02's own (volume,value) pairs "
                "at the row volume; VRH formulas equal C07's, are evaluated on the filled table, symmetric 6x6, 0<Reuss<=Hill<=Voigt for SPD, "
                "Reuss = tensor contractions; rho v^2 = K+4G/3, G, K; sqrt(GPa/(g/cm3)) = km/s; g/cm3 factor; --cellmass overrides the header; "
                "-s without a table is ignored; sampled rows are the multiples of round(DELTA_P_SAMPLE/DELTA_P). PARTIAL: numpy.gradient as a "
                "derivative, the spline of mode none and the Lagrange interpolation error of mode pressure are numerics outside the theorems: the "
                "oracle bounds them (C*h^2, C*h at the ends, own 4-point emulation). The real command (click CliRunner, stdout parsed) is compared "
                "column by column with the model (Float, fit over Rat) on synthetic data: three modes, grids 11-401, own-volume static tables in "
                "any row order, all nine systems, --cellmass, --delta-p-sample, --v-ratio, plus an out-of-quantifier stream; independent numpy "
                "oracle: own polyfit in own strains, analytic -dF/dV, CODATA units, own per-row modulus fits, einsum VRH, prefilled-table run "
                "for -s (Laue-rotation basis), header-mass run for --cellmass, default 6-decimal print.",
        "note": COMMON_NOTE + "qha's Eulerian strain, numpy.sqrt/linalg.inv, scipy's InterpolatedUnivariateSpline and Python round are parameters "
                "of the model (run as libm pow, Float.sqrt, Gauss-Jordan, a not-a-knot spline compared with scipy each run, ties-to-even); "
                "the six unit factors come from an independent pint registry and are compared with typed CODATA-2018 each run; pandas' "
                "display.precision is raised to 17 in-process to read the table exactly (default print checked separately). Defect found and "
                "repaired in /repo 34736c8: -s SYSTEM without INPUT02 raised IndexError (site cli/static.py:main:fill_cij-called-without-input02, "
                "replayed on every run).",
        "technique": "Lean 4 theorems over R on a scalar-polymorphic model reusing the C05/C06/C07/C09 models and theorems + differential correspondence through the real CLI + independent numpy/einsum/CODATA oracle",
    },
    "C14": {
        "text": "Proved on the model: lazy_property caches are read-through memo tables; for ANY list of reads (repeated, calculate/"
                "write_output twice, any order) on an acyclic graph every value equals the unique pure denotation "
                "(c14_cache_history_free, c14_spec_exists_unique); a value read twice is equal with no hypothesis on the bodies; any "
                "interleaving on several objects returns per object what it returns alone (historyMulti); instantiated on the "
                "(name,isLazy,reads) tables of the three phonon-contribution classes re-translated from nonshear.py/shear.py every run "
                "(rank certificate by decide +kernel). Set iteration = arbitrary permutation: update_config (C16), 6x6 assembly (C07), "
                "writer registry (C15) order-free. fill.fill=fill for every ordered field/relations file/rectangular table without "
                "case-duplicate columns when the first result satisfies the relations and the surviving columns still determine the "
                "tensor; kernel-evaluated instance and counter-example (identically-zero independent component -> second call refuses "
                "for rank). For a packaged system name the whole working directory (exists, files, also a file named like the system) "
                "is irrelevant (fix 6f0d09b, regression witness). Correspondence: cache state of real objects (vars(obj)) after every "
                "read of random single/multi-object histories vs Memo.history/historyMulti. Oracle: values vs fresh objects/first "
                "read/closed forms of Q,Q1,Q2, inputs untouched; cij run / cij fill in subprocesses under PYTHONHASHSEED 0,1,random "
                "and junk working directories, two calculations in one process in both orders (kept/released), random base reads, "
                "calculate()/write_output() repeated: byte comparison of all output files; fill_cij twice on all nine systems.",
        "note": COMMON_NOTE + "PARTIAL: hash randomisation, file system, BLAS threads, numba cache and third-party module state are runtime: "
                "only their abstraction (arbitrary order / arbitrary environment / separate memo tables) is in a theorem; they are sampled "
                "by the subprocess runs.",
        "technique": "Lean 4 (free-monad memoisation model, induction over read histories, rank certificates by decide +kernel on translated tables, permutation lemmas, least-squares uniqueness for the fill fixed point) + cache-state correspondence on real objects + subprocess/in-process byte-identity oracle",
    },
}

# ------------------------------------------------------------------------------------------------------------------
# Round 3 (source ties over the glue code): appended to the claims above.  `text` is added to level_claimed.text,
# `technique` to the technique field.
TIE_NOTE = (" Source ties (tools/gens/*.py -> lean/Generated/*Spec.lean / *Src.lean, re-generated from the working tree on every run; "
            "a construct outside a generator's grammar is a broken tie, reported, never skipped): ")
ADDENDA = {
    "C01": {"text": "the glue of mode_gamma.py the statement rests on (which member of the returned triple is gamma / V dgamma/dV, signs) is restated from the translated pattern (c01_mode_glue_is_source); nonshear.py is now translated completely (tools/gens/nonshear_src.py: averaging as a reduction tree, Gamma clearing, weights, full prefactor expressions, Q, T = 0 masks by value, accessors, units, hierarchy; 23 functions, none pinned): c01_glue_is_source_* and the headline identities restated for the value assembled only from translated pieces (c01_longitudinal_source, c01_offdiagonal_source, c01_parts_source).",
            "technique": "translator tie for the whole of nonshear.py (reduction tree / mask / prefactor evaluators = model)"},
    "C03": {"text": "every def and lambda of shear.py is translated as data (tools/gens/shear_src.py): cells of fictitious_strain, eigh call sites, the strain_rotated pipeline (einsum diagonal write, product order, diagonal extraction), non-zero test and ordered-pair enumeration, key construction, skip test, which (strain, resolver, target) each energy/key method uses, resolver dicts, value properties, no post-processing of the result; c03_glue_is_source_* (fict for all 15 keys and symmetric; strainRotated = diag(T^T diag(s) T) for every T; loops = all ordered pairs of non-zero cells; three non-zero eigenvalues give all nine c'_aabb, each cross key twice; wiring; value unprocessed), inventory complete (18 defs); c03_exact restated on the translated pieces.",
            "technique": "translator tie for the whole of shear.py (evaluators of the translated statements = model)"},
    "C09": {"text": "fill.py and cli/fill.py translated (tools/gens/fill_src.py): keyword defaults, symbol order (comprehension evaluated), regexes, refusal tests and residual definition as trees, lookup precedence, equation rule applied to every packaged relations file part by part, stacking order, lstsq rcond, write-back key rule, drop rule, click option -> kwarg -> default, call sites; fill_model_is_source_* prove the model's symbols, refusals (for all parameters, residuals, ranks), residuals, lookup, equations, columns, defaults and CLI wiring are the meaning of that data.",
            "technique": "translator tie for fill_cij and cij fill (expression-tree evaluators = model)"},
    "C10": {"text": "cij/util/voigt.py is re-translated AS A WHOLE on every run into a PyLite module (deep embedding of the pure-Python subset, fuelled evaluator, CijModel/PyLite.lean); kernel evaluation proves translated source = hand model on the complete finite domain (2095 spellings) and on all views of the 21 keys (voigt_model_is_source*); every clause is restated about the translated source (voigt_source_*); rejection and canonical value for ALL integers (continuation extraction around `sorted`, split on i <= j); one-argument integers for all n < 10^1900 via str(int) = digits and induction over the generator expression; model = source for every one/two/four-integer spelling (voigt_model_is_source_ints); the PyLite evaluator is tested against CPython on the domain + a malformed stream every run (tested, not proved).",
            "technique": "ast -> PyLite translator, decide +kernel / kernel_rfl on the translated AST, differential test PyLite vs CPython"},
    "C18": {"text": "cli/static.py::main is translated into 17 guarded blocks of statements (tools/gens/static_src.py) with helpers fit_modulus / v2p1d, the six VRH formulas as expression trees, click names/types/choices/defaults and units.py helpers as pint expressions; static_model_is_source*: runWith = the interpretation of the translated blocks, block by block and as a whole, for every scalar type, with NO hypothesis on the filling: fill_cij := the fill model Fill.fill, whose output is proved duplicate-free and to keep V, F, P, density unchanged (fill_keeps_frame); for the driver's Float run the two values the correspondence compares are proved equal (static_model_is_source_driver); block order facts (table density -> fill -> --cellmass -> VRH -> units -> velocities -> sampling) read off the translated order; defaults and unit helpers as translated.",
            "technique": "translator tie for run-static (interpreter of the translated blocks = model)"},
    "C02": {"text": "qha_adapter.py and units.py translated completely (tools/gens/qha_src.py: 38 + 10 defs as data): object-graph proof that v_array / t_array / heat_capacity / pressures are finer_volumes_bohr3 / temperature_array / cv_tv_au / p_tv_au of ONE qha calculator; read_input rejects non-decreasing volumes for every ordered scalar; convert_unit value and curried forms; the nine unit helpers preserve dimension and the to/from pairs are inverse; dimensional analysis over exponent vectors: the translated gap tree and T V (dP/dT)^2 / C_V carry exactly Ry/bohr^3, Q = hbar omega / k_B T is dimensionless with omega in cm^-1, unit-covariance of the gap (c02_glue_is_source_*); shear target formula and task identity/equality/store wiring restated from the translated shear.py / tasks.py (c02_shear_target_is_source, c02_tasks_are_source).",
            "technique": "translator tie for qha_adapter.py/units.py with dimensional analysis of the translated expression trees"},
    "C04": {"text": "shear target, non-shear value bodies and full_modulus defaults restated from the translations of shear.py / nonshear.py / full_modulus.py (c04_*_is_source)."},
    "C05": {"text": "full_modulus.py and _calculate_pressure_static translated at data level (tools/gens/fullmodulus_src.py: 11 defs as statement lists over expression trees, nothing compared as text): interpreter = model for fit_modulus (every order), get_static_modulus, get_axial_strains (edge replication, centred / one-sided ratios, row normalisation), modulus_adiabatic / modulus_isothermal, calculate_phonon_contribution wiring; the static fit reads only the table's own volume column and the grid (syntactic and semantic theorem); full_modulus's fit = run-static's translated fit applied to V c with order + 1, divided by V (c05_glue_*); task identity, mode-gamma glue and the qha adapter (field tables, read_input, pressure guard) restated from the translations of tasks.py / mode_gamma.py / qha_adapter.py (c05_*_is_source).",
            "technique": "translator tie for full_modulus.py (interpreter of translated statements = model)"},
    "C06": {"text": "the pressure-range guard is translated from QHACalculator.desired_pressure_status into an expression value (field, column, reduction, comparison, exception) and the model's range check is proved equal to its meaning for every table and grid (pressure_guard_is_source; accept <=> in range restated for the translated guard); loading sequence read_input -> refine_grid -> guard translated (adapter_load_order_is_source).",
            "technique": "translator tie for the range guard (GuardExpr evaluator = model)"},
    "C07": {"text": "the glue of Calculator / CijVolumeBaseInterface is translated as data (tools/gens/calc_src.py): assembly indices, compliance labelling, REGEX_CIJ and the __getattr__ dispatch, __init__ order, class-level state, in-place operations; assembly / labelling / name lookup models are proved to be the evaluation of that data for all key lists and names (calc_glue_is_source_*), label (i,j) is the (i,j) entry of the inverse whatever the key order, no shared state and no in-place writes hence read-order freedom on the generated read graph; Python's attribute lookup order modelled (getattrOf) and the precondition of __getattr__ discharged: no name of the REGEX_CIJ language is defined on either interface, so getattr(volume_base, name) IS the translated dispatch (calc_glue_getattr_*; hypothesis: names contributed by `object` are dunder names, checked on the real objects).",
            "technique": "translator tie for the calculator glue + order-freedom via the memo-history theorems"},
    "C11": {"text": "pchip and akima are no longer a contract parameter: scipy's PchipInterpolator/Akima1DInterpolator slope rules and PPoly evaluation are modelled (CijModel/PPoly.lean, constants read from the installed scipy source); proved: node values, nu=1 is the derivative of nu=0 everywhere and nu=2 of nu=1 off interior nodes, C1 at nodes, PCHIP slope box and Fritsch-Carlson monotonicity, power-law exactness, (exp s, -s', -s'') consistency without contract; bit-for-bit correspondence with scipy; dispatch/constructor/extrapolate wiring of interpolate_mode_ppoly translated (ppoly_glue_is_source). every function of mode_gamma.py re-translated as statements/expression trees (tools/gens/modegamma_src.py): interpolateMode for every method and interpolateModes = interpretation of the translated code for all inputs, any exp/log pair, any kernels (mode_glue_src_*: one independent fit per mode from that mode's series only; vander in decreasing powers with order+1 columns; spline on the grid in the order given with k=order and no s/w); inventory complete; mode/loop theorems hold for every input (no-volume ValueError and missing-frequency IndexError modelled as the code raises them), kernel-length contract proved for all modelled kernels; the diagnostic plot and the `cij modes` command translated (plot_select_is_source, plot_command_wiring_is_source). PARTIAL now only: FITPACK spline.",
            "technique": "piecewise-cubic Hermite model of scipy's pchip/akima with HasDerivAt proofs; bit-for-bit scipy correspondence"},
    "C12": {"text": "'inside the computed range' is the translated guard of qha_adapter.py: an in-range non-empty grid is never refused, an overshooting one always (c12_in_range_grid_not_refused, c12_out_of_range_grid_refused); non-shear value bodies, shear target and mode glue restated from their translations."},
    "C13": {"text": "volume-block clause PROVED on QHACalculator.read_input as re-translated every run (tools/gens/volorder_src.py: statement list, guard, exception, position; comparison operator read from the installed qha): for a file listed by strictly decreasing volume EVERY permutation of the blocks is the identity or is rejected with RuntimeError (vol_relisting_rejected_or_identical); accepted re-listings share the volume list; witness that equal-volume blocks may be exchanged (outside the quantifier, recorded); presentation clauses restated on Generated.NonShearGlue / ModeGammaSpec / Readers; full_modulus defaults/bodies, qha adapter tables and guard, non-shear bodies restated from their translations (c13_*_is_source)."},
    "C14": {"text": "inventory of process-wide state translated from EVERY module under cij/ (tools/gens/state_src.py): module/class-level mutable bindings are exactly four constant tables, no function writes to anything outliving the call, no mutable default, no caching decorator, no id()-keyed table, import-time statements only in the three entry modules (c14_shared_objects_known, c14_no_shared_writes, c14_import_time_statements_known, c14_no_hidden_state); task and full_modulus ties restated. Harness: a same-named twin data set (same file names/settings, other frequencies) computed after A in one process.",
            "technique": "package-wide state inventory translated from the source and pinned by kernel-checked theorems"},
    "C15": {"text": "the code of results_writer.py / qha_output.py / write_table / write_variables / write_output is translated (tools/gens/writer_src.py) and each model function is proved equal to the interpreter of the translated statements (writer_model_is_source_*: create, format_ij, write_variable, write_ij_variable, convert order, dispatch, registry, write, write_table wiring, write_variables, write_output). Harness: two bases / Calculators writing alternately, 3-decimal pressure grids with independently parsed headers, arrays bit-identical before/after writing.",
            "technique": "translator tie for the writer code (interpreter of translated statements = model)"},
    "C16": {"text": "update_config, apply_default_config, read_config and validate_config are printed from the source AST into Lean definitions (tools/gens/config_src.py -> Generated/ConfigSrc.lean); update_config_is_source proves the printed merge equals the model for all values and all iteration orders, so every merge clause is a theorem about the function as written; parser table total on documented suffixes; validation applied to the file's own content with the plain jsonschema.validate; config modules stateless.",
            "technique": "AST -> Lean shallow embedding of update_config plus an equality proof by well-founded induction"},
    "C17": {"text": "readers/writers tied to qha_input.py / elast_dat.py (tools/gens/readers_src.py): regex literals are re-parsed and matched by a backtracking matcher in Lean and proved equal to the model's recognisers; field positions, conversions, loop counts, sentinels, write_energy formats, apply_symetry wiring and package re-exports as data consumed by readers_model_is_source_*; the round-trip theorems are restated for the formats the file specifies now.",
            "technique": "translator tie for the readers (regex matcher in Lean = recogniser; formats as data)"},
    "C19": {"text": "extract.py / geotherm.py translated (tools/gens/extract_src.py): nearest-index expression tree, branches, transposition, labels, glob/read_table arguments, click options and registration, spline call wiring, statelessness; model = interpreter of the spec (extract_model_is_source_*). The 4x4 bicubic case is modelled exactly (bicubic44 interpolates, reproduces bicubics, unique); any spline meeting the contract reproduces bicubic tables along every geotherm. PARTIAL: FITPACK not-a-knot B-splines for more than 4 nodes per axis stay a contract parameter (measured: bicubic exactness to 1e-9, error ratio >= 8 on refinement).",
            "technique": "translator tie for the extract commands + tensor-product Lagrange model of the 4x4 spline"},
    "C20": {"text": "evec_sort / evec_disp2eig / evec_load translated into a description (tools/gens/evec_src.py) whose interpreter is proved equal to the model for all inputs (evec_model_is_source_*: dimension test, overlap orientation and conjugation, greedy loop, disp2eig body and exact rejection K != 3N, regex matcher = scanners, fixed-column slices used once each, loader); evecSort_recovers restated for the interpreted source.",
            "technique": "translator tie for the eigenvector tools (interpreter of the extracted description = model)"},
}
for _pid, _a in ADDENDA.items():
    if _pid in CHECKS:
        CHECKS[_pid]["text"] += TIE_NOTE + _a["text"]
        if "technique" in _a:
            CHECKS[_pid]["technique"] += " + " + _a["technique"]
