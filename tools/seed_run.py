#!/usr/bin/env python3
"""Run checks against a confirmed seeded change without touching /repo:

  tools/seed_run.py <name under /verif/seeded> [Cxx ...]      (default: the property named in meta.json)

A scratch worktree of /repo HEAD gets the patch; the checks run with CIJ_REPO pointing at it (the translator and the
harness then read that tree); the worktree is removed afterwards.  Appends the outcome to seeded/<name>/runs.json.
(The brief's own recipe — git -C /repo apply; run; git -C /repo checkout -- . — gives the same result; this variant is
used while other work is reading /repo.)
"""
import json, os, re, shutil, subprocess, sys, tempfile, time

REPO = "/repo"
VERIF = os.path.dirname(os.path.dirname(os.path.abspath(__file__)))


def sh(cmd, cwd=None, env=None, timeout=3600):
    p = subprocess.run(cmd, cwd=cwd, shell=True, stdout=subprocess.PIPE, stderr=subprocess.STDOUT, timeout=timeout, env=env)
    return p.returncode, p.stdout.decode(errors="replace")


def main():
    name = sys.argv[1]
    d = os.path.join(VERIF, "seeded", name)
    meta = json.load(open(os.path.join(d, "meta.json")))
    pids = sys.argv[2:] or [meta.get("property")]
    wt = tempfile.mkdtemp(prefix="seedrun_"); os.rmdir(wt)
    out_all = []
    try:
        rc, out = sh(f"git worktree add -q --detach {wt} HEAD", cwd=REPO); assert rc == 0, out
        rc, out = sh(f"git apply {os.path.join(d, 'patch.diff')}", cwd=wt)
        if rc != 0:
            print("patch does not apply to current HEAD:", out[-500:]); return 2
        evd = tempfile.mkdtemp(prefix="seedrun_ev_")
        env = dict(os.environ, CIJ_REPO=wt, VERIF_EVIDENCE_DIR=evd)
        for pid in pids:
            t = time.time()
            rc, out = sh(f"./check {pid} --tier quick", cwd=VERIF, env=env)
            viol = [l for l in out.splitlines() if l.startswith("VIOLATION") or l.startswith("KNOWN-FINDING")]
            summary = [l for l in out.splitlines() if l.startswith(f"[{pid}]")]
            rec = {"check": pid, "exit": rc, "lines": viol[:6], "summary": summary[-1:] , "wall_s": round(time.time() - t, 1),
                   "repo_head": sh("git rev-parse --short HEAD", cwd=REPO)[1].strip(), "verif_head": sh("git rev-parse --short HEAD", cwd=VERIF)[1].strip()}
            # keep the first replay file's essentials for the record
            m = re.search(r"replay=(\S+)", "\n".join(viol))
            if m and os.path.exists(os.path.join(VERIF, m.group(1))):
                try:
                    rp = json.load(open(os.path.join(VERIF, m.group(1))))
                    rec["replay_excerpt"] = {k: rp.get(k) for k in ("kind", "what", "site", "observed", "expected") if k in rp}
                except Exception:
                    pass
            out_all.append(rec)
            print(json.dumps(rec, indent=1, default=str))
    finally:
        sh(f"git worktree remove --force {wt}", cwd=REPO)
        shutil.rmtree(wt, ignore_errors=True)
        shutil.rmtree(locals().get("evd", "/nonexistent"), ignore_errors=True)
        # restore lean/Generated to the real tree
        sh("/venv/bin/python tools/gen_tables.py", cwd=VERIF)
    runs_p = os.path.join(d, "runs.json")
    runs = json.load(open(runs_p)) if os.path.exists(runs_p) else []
    runs += out_all
    json.dump(runs, open(runs_p, "w"), indent=1, default=str)
    return 0


if __name__ == "__main__":
    sys.exit(main())
