#!/bin/bash
# tools/integrate.sh <agent copy dir (…/verif)> : copy NEW (untracked) files of a builder copy into /verif (never overwrites tracked files)
src="$1"
cd "$src" || exit 1
git status --short | grep '^??' | awk '{print $2}' | while read f; do
  case "$f" in evidence/*|lean/scratch/*|*.pyc|*__pycache__*) continue;; esac
  if [ -d "$f" ]; then mkdir -p "/verif/$f"; cp -rn "$f"/. "/verif/$f"/; echo "dir  $f"; else mkdir -p "/verif/$(dirname $f)"; cp -n "$f" "/verif/$f" && echo "file $f"; fi
done
echo "--- modified tracked files in the copy (merge by hand):"
git status --short | grep -v '^??'
