#!/usr/bin/env python3
"""tools/add_handler.py <OpsModule e.g. C01> [CijModel modules ...] : register a driver handler + model modules (idempotent)"""
import sys, re
ops = sys.argv[1]; mods = sys.argv[2:]
p='/verif/lean/Driver.lean'; s=open(p).read()
imp=f"import CijModel.Ops.{ops}\n"
if imp not in s:
    last=[m for m in re.finditer(r"^import CijModel\.Ops\.\w+\n", s, re.M)][-1]
    s=s[:last.end()]+imp+s[last.end():]
h=f"  Cij.Ops.{ops}.handle"
if h not in s:
    m=re.search(r"def handlers : List Handler := \[\n(.*?)\n\]", s, re.S)
    body=m.group(1).rstrip()
    s=s[:m.start(1)]+body+",\n"+h+s[m.end(1):]
open(p,'w').write(s)
p='/verif/lean/CijModel.lean'; s=open(p).read()
for m in mods+[f"Ops.{ops}"]:
    line=f"import CijModel.{m}\n"
    if line not in s: s+=line
open(p,'w').write(s)
print(open('/verif/lean/Driver.lean').read()[:900])
