"""C03 — shear components by strain-energy rotation are exact tensor algebra.

Every case drives the REAL `ShearElasticModulusPhononContribution(strain, key)`:
  * `modulus` / `modulus_rotated` are filled from an exact symmetric 4th-rank tensor (harness-own index map and
    numpy.einsum; rotated frame built with the class's own `transformation_matrix`),
  * each dict value is a vector of CELLS: the 21 basis tensors followed by random tensors, so the whole 21-dimensional
    space is covered for every (key, strain, frame) and the point-wise array semantics is exercised,
  * ORACLE: `get_target_elastic_modulus()` must equal the tensor component itself, the requested keys must not contain
    the target, rotated keys must be longitudinal/off-diagonal, `strain_rotated` must be diag(Tᵀ diag(e) T) (trace kept),
    and the result must not change when another valid eigenbasis (sign-flipped / column-permuted, injected through a
    subclass) is used,
  * CORRESPONDENCE: the same inputs (including numpy's own eigen-decomposition) go to the Lean model
    (`c03.keys`, `c03.target`, `c03.strain_rotated`, `c03.rotate`).
Streams added with the translator tie of the glue (tools/gens/shear_src.py) for what that tie showed to be untested:
  * `stiff`: stiff tensors with small couplings (C11 = 320 next to C14 = 2e-3, couplings log-uniform over 1e-6 … 1e-2), as a Python
    float, a vector and a (T,V)-shaped array per dictionary entry — a clean-up of the result with a RELATIVE threshold
    (`numpy.isclose(E_rot, E_known)`) zeroes exactly these; the oracle tolerance stays relative to the tensor scale (1e-10·320),
  * `cross13`: tensors whose ONLY non-zero rotated component is the cross modulus c'(1′1′3′3′) of the frame of the key (built from
    the harness's own eigh of the harness's own unit strain) — a rotated energy that drops that pair returns 0 instead of the component,
  * `unequal`: strongly unequal strain fractions on every key, so that diag(Tᵀ·diag(e)·T) ≠ diag(T·diag(e)·Tᵀ) whenever T∘T is not symmetric,
  with counts of the discriminating cases in `res.distribution` (`stiff_small_target`, `cross13_three_nonzero`, `sr_discriminating`, shapes).
"""
from __future__ import annotations

import itertools

import numpy

from harness.common import Ctx, Result, Disagreement, OracleFailure, enc, dec_arr, family_close, jsonable

ASSUMPTIONS = [
    "numpy.linalg.eigh returns an orthogonal, diagonalising basis (measured on every case: max |TᵀT-1|, |TᵀeT-diag λ| <= 1e-12; "
    "a frame that fails it is reported as a violation of the property's 'frame that diagonalises' clause)",
    "numpy.isclose(x, 0) classifies the computed eigenvalue 0 (|λ| ~ 1e-17) as zero; the theorems use x = 0",
    "array arithmetic of the shear path is point-wise (exercised: every dict value is a vector of 25-29 tensors)",
]
TRUSTED_EXTRA = ["numpy.einsum / the harness-own Voigt index map used to build the exact tensors (oracle side of C03)"]

STD = {1: (1, 1), 2: (2, 2), 3: (3, 3), 4: (2, 3), 5: (1, 3), 6: (1, 2)}      # oracle's own copy of the Voigt map
VOIGT = {}
for _v, (_i, _j) in STD.items():
    VOIGT[(_i, _j)] = _v
    VOIGT[(_j, _i)] = _v
KEYS21 = [(a, b) for a in range(1, 7) for b in range(a, 7)]
KIDX = {k: n for n, k in enumerate(KEYS21)}
SHEAR15 = [k for k in KEYS21 if k[1] >= 4]
ORACLE_TOL = 1e-10
CORR_TOL = 1e-11
CONTRACT_TOL = 1e-12
STATS = {"max_oracle_err_rel": 0.0, "max_corr_err_rel": 0.0, "max_contract_dev": 0.0, "max_strain_rotated_err_rel": 0.0}


def canon(i, j, k, l):
    a, b = VOIGT[(i, j)], VOIGT[(k, l)]
    return (a, b) if a <= b else (b, a)


def full_tensor(c21: numpy.ndarray) -> numpy.ndarray:
    """c21: (21, ncells) -> C: (3,3,3,3,ncells) with all index symmetries."""
    C = numpy.zeros((3, 3, 3, 3, c21.shape[1]))
    for i, j, k, l in itertools.product(range(3), repeat=4):
        C[i, j, k, l] = c21[KIDX[canon(i + 1, j + 1, k + 1, l + 1)]]
    return C


def rotate(T: numpy.ndarray, C: numpy.ndarray) -> numpy.ndarray:
    return numpy.einsum("ia,jb,kc,ld,ijkln->abcdn", T, T, T, T, C)


def _cls():
    from cij.core.phonon_contribution.shear import ShearElasticModulusPhononContribution
    from cij.util import c_
    return ShearElasticModulusPhononContribution, c_


def make_instance(strain, key, variant):
    """the real class, or a subclass that only replaces the eigen-decomposition by another valid one"""
    S, c_ = _cls()
    k = c_(*key)
    base = S(numpy.array(strain, dtype=float), k)
    if variant["kind"] == "own":
        return base, k
    T0 = numpy.array(base.transformation_matrix, dtype=float)
    L0 = numpy.diag(numpy.array(base.fictitious_strain_rotated, dtype=float)).copy()
    perm = list(variant.get("perm", [0, 1, 2]))
    signs = numpy.array(variant.get("signs", [1, 1, 1]), dtype=float)
    T1 = T0[:, perm] * signs[None, :]
    L1 = L0[perm]

    class Injected(S):
        transformation_matrix = property(lambda self: T1)
        fictitious_strain_rotated = property(lambda self: numpy.diag(L1))

    return Injected(numpy.array(strain, dtype=float), k), k


def vkey(k):
    return [int(k.v[0]), int(k.v[1])]


def run_impl(payload):
    """Run the real class on one case; returns a dict with everything observed (numpy arrays)."""
    key = tuple(payload["key"])
    strain = numpy.array(payload["strain"], dtype=float)
    c21 = numpy.array(payload["c21"], dtype=float).T            # (21, ncells)
    s, k = make_instance(strain, key, payload["variant"])
    e = numpy.array(s.fictitious_strain, dtype=float)
    T = numpy.array(s.transformation_matrix, dtype=float)
    L = numpy.diag(numpy.array(s.fictitious_strain_rotated, dtype=float)).copy()
    C = full_tensor(c21)
    Cr = rotate(T, C)
    mk = list(s.get_modulus_keys())
    mkr = list(s.get_modulus_keys_rotated())
    drop = payload.get("drop")
    shape = payload.get("shape")                       # None: vector of cells; "scalar": Python floats; [nT, nV]: (T,V)-shaped arrays
    def shaped(a):
        if shape == "scalar": return float(a[0])
        if isinstance(shape, list): return a.reshape(shape).copy()
        return a.copy()
    s.modulus = {q: shaped(C[q.s[0] - 1, q.s[1] - 1, q.s[2] - 1, q.s[3] - 1]) for q in mk}
    s.modulus_rotated = {q: shaped(Cr[q.s[0] - 1, q.s[1] - 1, q.s[2] - 1, q.s[3] - 1]) for q in mkr}
    if drop == "orig" and s.modulus:
        s.modulus.pop(next(iter(s.modulus)))
    if drop == "rot" and s.modulus_rotated:
        s.modulus_rotated.pop(next(iter(s.modulus_rotated)))
    try:
        raw = numpy.asarray(s.get_target_elastic_modulus(), dtype=float)
        val = numpy.broadcast_to(raw.reshape(-1) if raw.ndim > 1 else raw, (c21.shape[1],)).copy()
        err = None
    except Exception as ex:   # KeyError for a dropped entry
        val, err = None, type(ex).__name__
    try:
        flat = lambda a: a.reshape(-1) if a.ndim > 1 else a
        e_orig = numpy.broadcast_to(flat(numpy.asarray(s.fictitious_strain_energy, dtype=float)), (c21.shape[1],)).copy()
        e_rot = numpy.broadcast_to(flat(numpy.asarray(s.fictitious_strain_energy_rotated, dtype=float)), (c21.shape[1],)).copy()
    except Exception:
        e_orig = e_rot = None
    values = None
    if err is None and not drop:
        try:
            flat2 = lambda a: numpy.broadcast_to(a.reshape(-1) if a.ndim > 1 else a, (c21.shape[1],)).copy()
            values = {"value_isothermal": flat2(numpy.asarray(s.value_isothermal, dtype=float)),
                      "value_adiabatic": flat2(numpy.asarray(s.value_adiabatic, dtype=float))}
        except Exception:
            values = {"value_isothermal": None, "value_adiabatic": None}
    return {"obj": s, "k": k, "e": e, "T": T, "L": L, "C": C, "Cr": Cr, "mk": mk, "mkr": mkr, "val": val, "err": err, "values": values,
            "e_orig": e_orig, "e_rot": e_rot, "sr": numpy.array(s.strain_rotated, dtype=float),
            "modulus": s.modulus, "modulus_rotated": s.modulus_rotated, "mult": int(k.multiplicity)}


def oracle(payload, impl=None):
    """The property statement evaluated on the real code.  Returns a list of (what, observed, expected, site)."""
    out = []
    key = tuple(payload["key"])
    if impl is None:
        impl = run_impl(payload)
    if payload.get("drop"):
        return out                                   # malformed stream: only correspondence (error vs error)
    vname = payload["variant"]["kind"]
    site = f"c{key[0]}{key[1]}:{vname}"
    e, T, L = impl["e"], impl["T"], impl["L"]
    c21 = numpy.array(payload["c21"], dtype=float).T
    strain = numpy.array(payload["strain"], dtype=float)
    scale = max(1.0, float(numpy.max(numpy.abs(c21))))
    # fictitious strain is the unit strain of the component: e_ij = 1 exactly on the (symmetrised) index pairs of the key
    exp_e = numpy.zeros((3, 3))
    for (i, j) in (STD[key[0]], STD[key[1]]):
        exp_e[i - 1, j - 1] = 1; exp_e[j - 1, i - 1] = 1
    if not numpy.array_equal(e, exp_e):
        out.append(("fictitious strain is not the unit strain of the key", e.tolist(), exp_e.tolist(), site + ":fict"))
    # the frame diagonalises the fictitious strain
    d1 = float(numpy.max(numpy.abs(T.T @ T - numpy.eye(3))))
    d2 = float(numpy.max(numpy.abs(T.T @ e @ T - numpy.diag(L))))
    STATS["max_contract_dev"] = max(STATS["max_contract_dev"], d1, d2)
    if not (d1 <= CONTRACT_TOL and d2 <= CONTRACT_TOL):
        out.append(("rotated frame does not diagonalise the fictitious strain (TᵀT=1, TᵀeT=diag λ)",
                    {"orth": d1, "diag": d2}, {"tol": CONTRACT_TOL}, site + ":frame"))
    # requested keys: never the target; rotated ones longitudinal / off-diagonal only
    mk = [tuple(vkey(q)) for q in impl["mk"]]
    mkr = [tuple(vkey(q)) for q in impl["mkr"]]
    if key in mk:
        out.append(("requested original-frame keys contain the target", mk, f"without {key}", site + ":self-dep"))
    if any(b >= 4 for (_, b) in mkr):
        out.append(("rotated-frame keys contain a shear key", mkr, "only 11,22,33,12,13,23", site + ":rot-keys"))
    # exactness: the value is the tensor component itself
    i, j = STD[key[0]]; k, l = STD[key[1]]
    expected = impl["C"][i - 1, j - 1, k - 1, l - 1]
    if impl["val"] is None:
        out.append(("shear solver raised", impl["err"], "a value", site + ":raise"))
    else:
        err = numpy.abs(impl["val"] - expected)
        if numpy.all(numpy.isfinite(err)):
            STATS["max_oracle_err_rel"] = max(STATS["max_oracle_err_rel"], float(numpy.max(err)) / scale)
        if not numpy.all(numpy.isfinite(impl["val"])) or float(numpy.max(err)) > ORACLE_TOL * scale:
            cell = int(numpy.nanargmax(numpy.where(numpy.isfinite(err), err, numpy.inf)))
            out.append(("shear solver does not return the tensor component",
                        {"cell": cell, "value": float(impl["val"][cell]), "max_abs_err": float(numpy.max(err))},
                        {"component": float(expected[cell]), "tol": ORACLE_TOL * scale}, site + ":exact"))
    # value_isothermal / value_adiabatic: the same component, nothing applied on the way
    if impl.get("values") is not None:
        for name, v in impl["values"].items():
            if v is None or not numpy.all(numpy.isfinite(v)) or float(numpy.max(numpy.abs(v - expected))) > ORACLE_TOL * scale:
                out.append((f"{name} is not the tensor component", None if v is None else v.tolist(), expected.tolist(), site + ":value-props"))
                break
    # strain_rotated = diag(Tᵀ diag(e) T) per row, trace preserved
    direct = numpy.einsum("ia,vi,ia->va", T, strain, T)
    sr = impl["sr"]
    sscale = max(1e-300, float(numpy.max(numpy.abs(strain))))
    if sr.shape == direct.shape:
        STATS["max_strain_rotated_err_rel"] = max(STATS["max_strain_rotated_err_rel"], float(numpy.max(numpy.abs(sr - direct))) / sscale)
    if sr.shape != direct.shape or float(numpy.max(numpy.abs(sr - direct))) > 1e-13 * sscale:
        out.append(("strain_rotated is not diag(Tᵀ diag(e) T)", sr.tolist(), direct.tolist(), site + ":strain-rotated"))
    elif float(numpy.max(numpy.abs(sr.sum(axis=1) - strain.sum(axis=1)))) > 1e-13 * sscale:
        out.append(("strain_rotated does not preserve the trace", sr.sum(axis=1).tolist(), strain.sum(axis=1).tolist(),
                    site + ":trace"))
    # sign / order independence: against the class's own frame
    if vname != "own":
        ref = run_impl({**payload, "variant": {"kind": "own"}})
        perm = list(payload["variant"].get("perm", [0, 1, 2]))
        if ref["val"] is not None and impl["val"] is not None:
            if float(numpy.max(numpy.abs(ref["val"] - impl["val"]))) > ORACLE_TOL * scale:
                out.append(("result depends on sign/order of the eigenvectors", impl["val"].tolist(), ref["val"].tolist(),
                            site + ":basis-dependence"))
        if float(numpy.max(numpy.abs(ref["sr"][:, perm] - sr))) > 1e-13 * sscale:
            out.append(("strain_rotated is not permuted with the columns / changes with their sign",
                        sr.tolist(), ref["sr"][:, perm].tolist(), site + ":sr-basis"))
    return out


def dict_wire(d):
    return [[int(q.v[0]), int(q.v[1]), enc(numpy.asarray(v, dtype=float).reshape(-1))] for q, v in d.items()]


def model_ops(payload, impl):
    key = list(payload["key"])
    ncell = len(payload["c21"])
    return [
        {"op": "c03.keys", "key": key, "lam": enc(impl["L"])},
        {"op": "c03.target", "key": key, "lam": enc(impl["L"]), "cells": ncell,
         "modulus": dict_wire(impl["modulus"]), "modulus_rotated": dict_wire(impl["modulus_rotated"])},
        {"op": "c03.strain_rotated", "T": enc(impl["T"]), "strain": enc(numpy.array(payload["strain"], dtype=float))},
        {"op": "c03.rotate", "T": enc(impl["T"]), "c": enc(numpy.array(payload["c21"], dtype=float)[-1])},
    ]


def compare(payload, impl, answers, res: Result):
    """correspondence of one case; appends Disagreements; returns number of agreeing traces"""
    ok = 0
    keys_m, tgt_m, sr_m, rot_m = answers
    c21 = numpy.array(payload["c21"], dtype=float)
    scale = max(1.0, float(numpy.max(numpy.abs(c21))))
    short = {"key": payload["key"], "variant": payload["variant"], "strain": payload["strain"], "drop": payload.get("drop"),
             "shape": payload.get("shape"), "stream": payload.get("stream")}
    # keys (ordered), fictitious strain, multiplicity
    impl_keys = {"fict": impl["e"].tolist(), "orig": [vkey(q) for q in impl["mk"]], "rot": [vkey(q) for q in impl["mkr"]],
                 "mult": impl["mult"]}
    mod_keys = {"fict": dec_arr(keys_m["fict"]).tolist(), "orig": keys_m["orig"], "rot": keys_m["rot"], "mult": keys_m["mult"]}
    if impl_keys != mod_keys:
        res.disagreements.append(Disagreement("c03.keys", short, impl_keys, mod_keys))
    else:
        ok += 1
    # target value and the two energies
    if impl["val"] is None or tgt_m == "error":
        if (impl["val"] is None) != (tgt_m == "error"):
            res.disagreements.append(Disagreement("c03.target", short, impl["err"] or "value", tgt_m if tgt_m == "error" else "value"))
        else:
            ok += 1
    else:
        good = True
        for name, a in (("value", impl["val"]), ("e_orig", impl["e_orig"]), ("e_rot", impl["e_rot"])):
            b = dec_arr(tgt_m[name])
            g, err, _ = family_close(a, b, rtol=CORR_TOL, scale=scale)
            if numpy.isfinite(err): STATS["max_corr_err_rel"] = max(STATS["max_corr_err_rel"], err)
            if not g:
                good = False
                res.disagreements.append(Disagreement("c03.target", {**short, "field": name, "c21": payload["c21"]},
                                                      numpy.asarray(a).tolist(), b.tolist(), f"relerr={err:.3g}"))
                break
        ok += good
    # strain_rotated
    b = dec_arr(sr_m)
    g, err, _ = family_close(impl["sr"], b, rtol=1e-13, scale=max(1e-300, float(numpy.max(numpy.abs(impl["sr"])))))
    if not g:
        res.disagreements.append(Disagreement("c03.strain_rotated", short, impl["sr"].tolist(), b.tolist(), f"relerr={err:.3g}"))
    else:
        ok += 1
    # the rotated tensor the harness feeds, recomputed by the model's `rotate` (ties the theorem's C' to the einsum)
    n = len(payload["c21"]) - 1
    mine = numpy.array([impl["Cr"][i - 1, j - 1, k - 1, l - 1, n]
                        for (i, j), (k, l) in ((STD[a], STD[b_]) for (a, b_) in KEYS21 if b_ <= 3)])
    b = dec_arr(rot_m)
    g, err, _ = family_close(mine, b, rtol=1e-12, scale=scale)
    if not g:
        res.disagreements.append(Disagreement("c03.rotate", short, mine.tolist(), b.tolist(), f"relerr={err:.3g}"))
    else:
        ok += 1
    return ok


# ----------------------------------------------------------------------------- generators
def gen_strain(rng, nrows):
    kind = rng.integers(0, 4)
    if kind == 0:
        s = rng.dirichlet([6.0, 6.0, 6.0], size=nrows)                   # normalised fractions
    elif kind == 1:
        s = rng.uniform(0.05, 3.0, size=(nrows, 3))                      # positive, not normalised
    elif kind == 2:
        s = numpy.tile(rng.uniform(0.1, 2.0, size=(1, 3)), (nrows, 1))   # constant over the volumes
    else:
        s = 10.0 ** rng.uniform(-3, 3, size=(nrows, 3))                  # wide dynamic range
    return s


def gen_cells(rng, nrand):
    basis = numpy.eye(21)
    mags = 10.0 ** rng.uniform(-2, 3, size=(nrand, 1))
    rand = rng.standard_normal((nrand, 21)) * mags
    return numpy.vstack([basis, rand])                                   # (ncells, 21)


def own_frame(key):
    """harness-own eigh of the harness-own unit strain of the key (NOT the class's attributes)"""
    e = numpy.zeros((3, 3))
    for (i, j) in (STD[key[0]], STD[key[1]]):
        e[i - 1, j - 1] = 1; e[j - 1, i - 1] = 1
    lam, T = numpy.linalg.eigh(e)
    return e, lam, T


def c21_of(C4):
    """canonical 21 values of a (3,3,3,3) tensor that has the minor and major symmetries"""
    return numpy.array([C4[STD[a][0] - 1, STD[a][1] - 1, STD[b][0] - 1, STD[b][1] - 1] for (a, b) in KEYS21])


def gen_stiff_cells(rng, n, literal=True):
    """stiff diagonal / off-diagonal block, SMALL shear-axial and shear-shear couplings"""
    out = []
    for m in range(n):
        c = numpy.zeros(21)
        for (a, b) in KEYS21:
            if a == b and a <= 3: v = rng.uniform(250.0, 400.0)
            elif a == b: v = rng.uniform(80.0, 150.0)
            elif b <= 3: v = rng.uniform(80.0, 150.0)
            else: v = float(rng.choice([-1.0, 1.0])) * 10.0 ** rng.uniform(-6.0, -2.0)
            c[KIDX[(a, b)]] = v
        if literal and m == 0:
            c[KIDX[(1, 1)]] = 320.0
            for d in (4, 5, 6): c[KIDX[(d, d)]] = 150.0
            for (a, b) in KEYS21:
                if b >= 4 and a != b: c[KIDX[(a, b)]] = 2e-3
        out.append(c)
    return numpy.array(out)


def gen_cross13_cells(key, rng, n):
    """tensors whose rotated components in the frame of `key` vanish except c'(1'1'3'3') (= g/2): C = g·sym(t1 t1ᵀ ⊗ t3 t3ᵀ)"""
    _, _, T = own_frame(key)
    A, B = numpy.outer(T[:, 0], T[:, 0]), numpy.outer(T[:, 2], T[:, 2])
    C4 = 0.5 * (numpy.einsum("ij,kl->ijkl", A, B) + numpy.einsum("ij,kl->ijkl", B, A))
    g = numpy.concatenate([[1.0], 10.0 ** rng.uniform(-2, 3, size=n - 1) * rng.choice([-1.0, 1.0], size=n - 1)])
    return g[:, None] * c21_of(C4)[None, :]


UNEQUAL_ROWS = [[0.7, 0.2, 0.1], [0.1, 0.2, 0.7], [0.05, 0.9, 0.05]]


def gen_variant(rng, which):
    if which == 0:
        return {"kind": "own"}
    if which == 1:
        signs = [int(x) for x in rng.choice([-1, 1], size=3)]
        if signs == [1, 1, 1]: signs = [-1, 1, -1]
        return {"kind": "flip", "signs": signs}
    perms = [p for p in itertools.permutations(range(3)) if p != (0, 1, 2)]
    p = perms[int(rng.integers(0, len(perms)))]
    return {"kind": "perm", "perm": list(p), "signs": [int(x) for x in rng.choice([-1, 1], size=3)]}


def gen_cases(ctx: Ctx, per_key: int):
    rng = ctx.rng
    cases = []
    for key in SHEAR15:
        for n in range(per_key):
            nrows = int(rng.integers(1, 5))
            strain = gen_strain(rng, nrows)
            cells = gen_cells(rng, int(rng.integers(2, 6)))
            for which in ((0, 1, 2) if n < 2 else (int(rng.integers(0, 3)),)):
                cases.append({"key": list(key), "strain": strain.tolist(), "c21": cells.tolist(),
                              "variant": gen_variant(rng, which)})
    # stiff tensors with small couplings, in the three shapes a dictionary entry can have
    reps = max(1, per_key // 15)
    for key in SHEAR15 * reps:
        for shape in ("scalar", None, [2, 3]):
            ncell = 1 if shape == "scalar" else 6
            cases.append({"key": list(key), "strain": gen_strain(rng, 2).tolist(),
                          "c21": gen_stiff_cells(rng, ncell).tolist(),
                          "variant": {"kind": "own"}, "shape": shape, "stream": "stiff"})
    # only the (1',3') cross modulus of the rotated frame is non-zero
    for key in SHEAR15 * reps:
        cases.append({"key": list(key), "strain": gen_strain(rng, 1).tolist(), "c21": gen_cross13_cells(key, rng, 3).tolist(),
                      "variant": gen_variant(rng, int(rng.integers(0, 3))), "stream": "cross13"})
    # strongly unequal strain fractions on every key
    for key in SHEAR15 * reps:
        cases.append({"key": list(key), "strain": UNEQUAL_ROWS, "c21": gen_cells(rng, 2).tolist(),
                      "variant": {"kind": "own"}, "stream": "unequal"})
    # two exactly equal strain fractions (tetragonal / hexagonal cells: e1 = e2 ≠ e3 and the two other pairings): Tᵀ·diag(e)·T is
    # then itself diagonal for the keys shearing the isotropic plane — a permutation of the input, not the input (seed C03-15)
    for key in SHEAR15 * reps:
        for odd in (0, 1, 2):                                              # the position of the fraction that differs
            rows = []
            for _ in range(2):
                a, b = (float(x) for x in rng.uniform(0.1, 0.6, size=2))
                if abs(a - b) < 0.05: b = a + 0.1
                r = [a, a, a]; r[odd] = b
                rows.append(r)
            cases.append({"key": list(key), "strain": rows, "c21": gen_cells(rng, 2).tolist(),
                          "variant": {"kind": "own"}, "stream": "planar-iso"})
    # malformed stream: a needed dictionary entry is missing (KeyError in the code, "error" in the model)
    for key in SHEAR15:
        for drop in ("orig", "rot"):
            if drop == "orig" and key in ((4, 4), (5, 5), (6, 6)):
                continue
            cases.append({"key": list(key), "strain": gen_strain(rng, 2).tolist(), "c21": gen_cells(rng, 1).tolist(),
                          "variant": {"kind": "own"}, "drop": drop})
    return cases


def count_discriminating(p, impl, dist):
    """how many evaluated cases can tell the mutants the glue tie is about from the real code (measured, per run)"""
    if p.get("drop"):
        return
    def bump(k, n=1): dist[k] = dist.get(k, 0) + n
    bump("stream:" + (p.get("stream") or "base"))
    sh = p.get("shape")
    bump("shape:" + ("vector" if sh is None else "scalar" if sh == "scalar" else "TV"))
    c21 = numpy.array(p["c21"], dtype=float)
    scale = max(1.0, float(numpy.max(numpy.abs(c21))))
    i, j = STD[p["key"][0]]; k, l = STD[p["key"][1]]
    tgt = numpy.abs(impl["C"][i - 1, j - 1, k - 1, l - 1])
    # a relative clean-up (rtol 1e-5 of the known energy) would zero the difference, the oracle would see it
    if impl["e_orig"] is not None and impl["val"] is not None:
        diff = numpy.abs(impl["e_rot"] - impl["e_orig"])
        bite = (diff <= 1e-8 + 1e-5 * numpy.abs(impl["e_orig"])) & (tgt > 10 * ORACLE_TOL * scale)
        if bool(numpy.any(bite)): bump("stiff_small_target")
    # three non-zero eigenvalues and a non-zero (1',3') cross contribution to the rotated energy
    L, Cr = impl["L"], impl["Cr"]
    if bool(numpy.all(numpy.abs(L) > 1e-8)) and float(numpy.max(numpy.abs(Cr[0, 0, 2, 2] * L[0] * L[2]))) > 1e-6 * scale:
        bump("cross13_three_nonzero")
    # diag(Tᵀ D T) differs from diag(T D Tᵀ) for this strain
    T, strain = impl["T"], numpy.array(p["strain"], dtype=float)
    a = numpy.einsum("ia,vi,ia->va", T, strain, T); b = numpy.einsum("ai,vi,ai->va", T, strain, T)
    if float(numpy.max(numpy.abs(a - b))) > 1e-3 * float(numpy.max(numpy.abs(strain))):
        bump("sr_discriminating")
    if float(numpy.max(numpy.abs(T * T - (T * T).T))) > 1e-6:
        bump("T2_not_symmetric")


def evaluate(ctx: Ctx, cases, res: Result, with_model=True):
    impls, ops = [], []
    for p in cases:
        impl = run_impl(p)
        impls.append(impl)
        if with_model:
            ops.extend(model_ops(p, impl))
    answers = ctx.driver.ask(ops) if with_model else []
    seen = set()
    for n, (p, impl) in enumerate(zip(cases, impls)):
        res.evaluations += 1
        kind = "malformed:" + p["drop"] if p.get("drop") else p["variant"]["kind"]
        res.distribution["variants"][kind] = res.distribution["variants"].get(kind, 0) + 1
        res.distribution["rows"][str(len(p["strain"]))] = res.distribution["rows"].get(str(len(p["strain"])), 0) + 1
        res.distribution["cells"] += len(p["c21"])
        count_discriminating(p, impl, res.distribution)
        if with_model:
            res.traces_validated += compare(p, impl, answers[4 * n: 4 * n + 4], res)
        for what, obs, exp, site in oracle(p, impl):
            res.oracle_failures.append(OracleFailure(what, p, obs, exp, site))
        sig = (tuple(p["key"]), kind, tuple(map(tuple, numpy.round(numpy.array(p["strain"]), 12).tolist())))
        i, j = STD[p["key"][0]]; k, l = STD[p["key"][1]]
        nontrivial = not p.get("drop") and bool(numpy.any(impl["C"][i - 1, j - 1, k - 1, l - 1] != 0)) \
            and bool(numpy.any(numpy.abs(impl["e_rot"]) > 0) if impl["e_rot"] is not None else False)
        if nontrivial and sig not in seen:
            seen.add(sig)
    res.distinct_nontrivial += len(seen)
    return impls



# ----------------------------------------------------------------------------- through the pipeline (tasks.py wiring)
def pipeline_case(par):
    """The statement observed THROUGH the real task list.  The tensor family
        C = a·E⊗E + b/2·(E⊗I + I⊗E) + c·I⊗I + d·(δδ+δδ),   E = diag(e)  (the applied axial strain fractions)
    has, in ANY orthogonal frame, longitudinal / off-diagonal components that depend on the frame only through the diagonal of the
    rotated strain tensor: C'_iiii = a e'_i² + b e'_i + c + 2d, C'_iijj = a e'_i e'_j + b(e'_i+e'_j)/2 + c.  The two non-shear classes
    are replaced by stubs returning exactly these (they receive the strain fractions the pipeline hands them), the REAL shear class
    and the REAL resolve/calculate do the rest; every one of the 21 results must be the component of C in the crystal frame:
    c_ii = a e_i²+b e_i+c+2d, c_ij = a e_i e_j + b(e_i+e_j)/2 + c, c44=c55=c66 = d, every other component 0.
    Returns [(what, observed, expected, site)]."""
    import cij.core.tasks as tasks
    from cij.util import c_
    a, b, c, d = par["abcd"]
    e = numpy.array(par["strain"], dtype=float)

    class Long:
        def __init__(self, calculator, params):
            x, _ = params
            self.value_isothermal = self.value_adiabatic = a * x * x + b * x + c + 2 * d
    class Off:
        def __init__(self, calculator, params):
            x, y = params
            self.value_isothermal = self.value_adiabatic = a * x * y + b * (x + y) / 2 + c
    keys = [c_(i, j) for (i, j) in par["keys"]]
    saved = tasks.LongitudinalElasticModulusPhononContribution, tasks.OffDiagonalElasticModulusPhononContribution
    tasks.LongitudinalElasticModulusPhononContribution, tasks.OffDiagonalElasticModulusPhononContribution = Long, Off
    try:
        with numpy.errstate(all="ignore"):
            tl = tasks.PhononContributionTaskList(None)
            tl.resolve(e, keys)
            tl.calculate()
            got = tl.get_isothermal_results()
    except Exception as ex:
        return [("pipeline raised on a valid request", type(ex).__name__, "21 components", "C03:pipeline:raises")]
    finally:
        tasks.LongitudinalElasticModulusPhononContribution, tasks.OffDiagonalElasticModulusPhononContribution = saved
    en = e / e.sum(axis=1, keepdims=True)
    scale = float(max(abs(a) * float(numpy.max(en)) ** 2, abs(b), abs(c), abs(d), 1e-300))
    out = []
    for (i, j), k in zip(par["keys"], keys):
        if i <= 3 and j <= 3:
            exp = a * en[:, i - 1] * en[:, j - 1] + b * (en[:, i - 1] + en[:, j - 1]) / 2 + c + (2 * d if i == j else 0.0)
        elif i == j:
            exp = numpy.full(len(e), d)
        else:
            exp = numpy.zeros(len(e))
        val = numpy.asarray(got[k], dtype=float)
        if val.shape != exp.shape or not numpy.all(numpy.isfinite(val)) or float(numpy.max(numpy.abs(val - exp))) > 1e-9 * scale:
            out.append((f"c{i}{j} assembled by the real task list from exact rotated components is not the tensor component",
                        val.tolist(), exp.tolist(), f"C03:pipeline:{'shear' if (i > 3 or j > 3) else 'axial'}"))
    return out


def gen_pipeline(rng):
    ntv = int(rng.integers(1, 4))
    kind = rng.random()
    if kind < 0.2:
        e = numpy.full((ntv, 3), 1.0 / 3.0)
    else:
        e = rng.uniform(0.15, 1.0, size=(ntv, 3)); e = e / e.sum(axis=1, keepdims=True)
    allk = [(i, j) for i in range(1, 7) for j in range(i, 7)]
    if rng.random() < 0.5:
        keys = allk
    else:
        keys = [allk[i] for i in rng.permutation(21)[:int(rng.integers(3, 21))]]
        if not any(j > 3 for _, j in keys): keys.append((1, 5))
    return {"pipeline": True, "abcd": [float(x) for x in rng.uniform(-2.0, 2.0, size=4)], "strain": e.tolist(), "keys": keys}


def run(ctx: Ctx) -> Result:
    res = Result()
    res.distribution = {"variants": {}, "rows": {}, "cells": 0, "keys": 15}
    res.rule = ("case = (shear key, strain field of 1-4 positive rows, eigenbasis variant own/sign-flipped/column-permuted, vector of "
                "tensors = 21 basis tensors + 2-5 random tensors) run through the real class; all 15 keys in every run; distinct = "
                "distinct (key, variant, strain); non-trivial = the target component is non-zero in some cell and the rotated energy "
                "is non-zero; malformed stream (a missing dictionary entry) counted separately; added streams: stiff tensors with "
                "small couplings as float / vector / (T,V) array, tensors with only the (1',3') rotated cross modulus, strongly unequal "
                "strain fractions (the numbers of cases that discriminate a relative clean-up, a dropped (1',3') pair and a transposed "
                "strain_rotated are measured into the distribution)")
    for p in ctx.corpus():
        evaluate(ctx, [p["input"] if "input" in p else p], res)
    per_key = 120 if ctx.thorough() else 5
    cases = gen_cases(ctx, per_key)
    impls = evaluate(ctx, cases, res)
    for p, impl in list(zip(cases, impls))[:3]:
        res.samples.append({"key": p["key"], "variant": p["variant"], "strain": p["strain"], "cells": len(p["c21"]),
                            "lam": impl["L"].tolist(), "T": impl["T"].tolist(),
                            "requested": [vkey(q) for q in impl["mk"]], "requested_rotated": [vkey(q) for q in impl["mkr"]],
                            "value_last_cell": None if impl["val"] is None else float(impl["val"][-1]),
                            "component_last_cell": float(full_tensor(numpy.array(p["c21"]).T)[
                                STD[p["key"][0]][0] - 1, STD[p["key"][0]][1] - 1, STD[p["key"][1]][0] - 1, STD[p["key"][1]][1] - 1, -1])})
    npipe = 60 if ctx.thorough() else 12
    for _ in range(npipe):
        par = gen_pipeline(ctx.rng)
        bad = pipeline_case(par)
        res.evaluations += len(par["keys"])
        if not bad: res.traces_validated += len(par["keys"])
        for what, obs, exp, site in bad[:2]:
            res.oracle_failures.append(OracleFailure(what, par, obs, exp, site))
    res.distribution["pipeline_cases"] = npipe
    res.extra["observed_noise"] = dict(STATS)
    res.extra["tolerances"] = {"oracle_rel_to_tensor_scale": ORACLE_TOL, "correspondence_rel_to_tensor_scale": CORR_TOL,
                               "contract_abs": CONTRACT_TOL}
    seen, keep = set(), []
    for f in res.oracle_failures:                      # one report per kind of failure and key is enough
        kind = f.site.split(":", 2)[-1]
        if kind not in seen and len(keep) < 8:
            seen.add(kind); keep.append(f)
    res.extra["oracle_failures_before_cap"] = len(res.oracle_failures)
    res.oracle_failures = keep
    res.notes.append("every (key, strain, frame) is evaluated on the 21 basis tensors, i.e. on a basis of the whole space of symmetric "
                     "4th-rank tensors (the map is linear)")
    return res


def search(ctx: Ctx, res: Result):
    """tie broken and no oracle failure yet: more cases (no model needed), around the disagreeing inputs first"""
    extra = Result()
    extra.distribution = {"variants": {}, "rows": {}, "cells": 0, "keys": 15}
    cases = []
    for d in res.disagreements[:20]:
        inp = d.input if isinstance(d.input, dict) else {}
        if "key" in inp and "strain" in inp:
            for which in (0, 1, 2):
                cases.append({"key": inp["key"], "strain": inp["strain"], "c21": gen_cells(ctx.rng, 4).tolist(),
                              "variant": gen_variant(ctx.rng, which)})
    cases.extend(c for c in gen_cases(ctx, 12) if not c.get("drop"))
    evaluate(ctx, cases, extra, with_model=False)
    seen, keep = set(), []
    for f in extra.oracle_failures:
        kind = f.site.split(":", 2)[-1]
        if kind not in seen and len(keep) < 8:
            seen.add(kind); keep.append(f)
    return keep


def replay(ctx: Ctx, payload):
    if payload.get("pipeline"):
        return [OracleFailure(what, payload, obs, exp, site) for what, obs, exp, site in pipeline_case(payload)]
    return [OracleFailure(what, payload, obs, exp, site) for what, obs, exp, site in oracle(payload)]
