"""C01 — thermal c11..c33, c12, c13, c23 are strain derivatives of the QHA free energy.

Three independent things are compared on every case:

* IMPL   the real `LongitudinalElasticModulusPhononContribution` / `OffDiagonalElasticModulusPhononContribution`
         of cij, driven in-process by a duck-typed calculator (only the attributes the classes read);
* MODEL  the Lean model `CijModel/NonShear.lean` at `Float` (ops "c01.long" / "c01.off" / "c01.avg"), fed the same
         arrays bit for bit and the unit constants the real module uses (correspondence, rel 1e-9 of family scale);
* ORACLE the property statement itself: for spectra with analytic volume dependence
             w_qm(V) = w0_qm (V/V0)^(-g0_qm) exp(c_qm ln^2(V/V0))     (so gamma = g0 - 2 c x,  V dgamma/dV = -2 c)
         F_ph(T,V) = sum_q w_q/sum(w) sum_m [h w/2 + k T ln(1 - exp(-h w / k T))]   (Gamma acoustic modes excluded)
         is written down in mpmath (40 digits), differentiated *numerically* by mpmath.diff (no closed form of the
         derivative is used); A/(5 e^2) + P_ph/(3 e), A/(15 e_i e_j) + (P - P_st) are then compared with what the real
         classes return (rel 1e-7 of family scale).  Unit constants: h [Ry cm], k [Ry/K], h/k [cm K] of the module are
         compared with CODATA-derived values typed in below (rel 1e-8); the oracle then evaluates F_ph with the validated
         numbers (CODATA ones if the validation fails) — see `oracle_constants`.

The oracle neither imports cij nor uses the Lean model.  Temperatures 0 < T < 20 K (exp overflow) belong to C12.
"""
from __future__ import annotations

import math
import time
from typing import Any, Dict, List, Optional, Tuple

import numpy

from harness.common import Ctx, Result, Disagreement, OracleFailure, enc, dec_arr, family_close, jsonable

ASSUMPTIONS = [
    "inputs as in the property's quantifier: 1-8 q-points (and, beyond it, 63/64/65/128/129 and other counts > 64 on the stub calculator: "
    "the statement itself is for any spectrum), 3N modes for N = 1..10, frequencies 30-1500 cm^-1 "
    "(Gamma acoustic entries 0 / slightly negative / NaN-gamma as the real calculator produces them), gamma in [-1,4], "
    "V dgamma/dV in [-3,3], positive weights (integer multiplicities, normalised, arbitrary, sums just off a whole number or near a "
    "half-integer), T grids with T = 0 first / elsewhere / repeated / absent / -0.0 and T >= 20 K otherwise, total pressure above and "
    "below the static pressure, strain fractions in "
    "(0.05,0.9) summing to 1",
    "the oracle's spectra are analytic in V (power law times exp(c ln^2)); arbitrary arrays are covered by the theorem + "
    "correspondence, not by the oracle",
    "np == 3*na and sum(weights) != 0 (hypotheses of the theorems; true for every QHA input file)",
    "numpy elementwise arithmetic / exp agree with C double / libm to a few ulp (rounding is outside the theorems)",
]
TRUSTED_EXTRA = [
    "CODATA 2018/2022 values typed into harness/c01.py (exact SI h, c, k_B, N_A, e; R_inf = 10973731.568157 1/m), compared with the "
    "module constants _h, _k, h_div_k and their pint conversions (rel 1e-8); the oracle evaluates F_ph with the validated module "
    "numbers (they differ from CODATA 2022 by 4.7e-10), with the CODATA ones if validation fails",
    "mpmath (40 digits) numerical differentiation",
]

RTOL_MODEL = 1e-9      # impl vs Lean Float model, relative to the family scale
RTOL_ORACLE = 1e-7     # impl vs mpmath oracle (module constants differ from CODATA 2022 by < 1e-9)
RTOL_CONST = 1e-8
STATS = {"max_rel_err_model": 0.0, "max_rel_err_oracle": 0.0}      # measured noise (reported in the evidence)

# --------------------------------------------------------------------------------------------- constants
# exact SI (2019 redefinition) + CODATA Rydberg constant; nothing here is read from cij / scipy / pint
SI_H = "6.62607015e-34"        # J s
SI_C = "299792458"             # m / s
SI_KB = "1.380649e-23"         # J / K
SI_E = "1.602176634e-19"       # C  (J per eV)
SI_NA = "6.02214076e23"        # 1 / mol
R_INF = "10973731.568157"      # 1 / m   (CODATA 2022; 2018: ...160, rel. difference 3e-13)


def codata():
    """(h [Ry cm], k [Ry/K], h/k [cm K], _h [J m], _k [eV/K]) as mpmath numbers."""
    import mpmath as mp
    with mp.workdps(50):
        h, c, kb, e, na, rinf = (mp.mpf(x) for x in (SI_H, SI_C, SI_KB, SI_E, SI_NA, R_INF))
        ry = h * c * rinf                    # J
        h_ry_cm = h * c / ry * 100           # (J m)/(J/Ry) -> Ry m -> Ry cm
        k_ry_k = kb / ry
        hdk = h * c / kb * 100               # m K -> cm K
        return {"h": h_ry_cm, "k": k_ry_k, "hdk": hdk, "_h": h * c, "_k": kb / e}


def module_constants():
    """The numbers the real module uses: `_h`, `_k`, `h_div_k` and the two pint conversions written inside the methods."""
    from cij.core.phonon_contribution import nonshear as ns
    from cij.util import units
    h = units.Quantity(ns._h, units.J * units.m).to(units.rydberg * units.cm).magnitude
    k = units.Quantity(ns._k, units.eV / units.K).to(units.rydberg / units.K).magnitude
    return {"h": float(h), "k": float(k), "hdk": float(ns.h_div_k), "_h": float(ns._h), "_k": float(ns._k)}


def check_constants() -> List[Tuple[str, float, float, float]]:
    """[(name, module value, CODATA value, relative difference)]"""
    mc, cd = module_constants(), codata()
    out = []
    for name in ("h", "k", "hdk", "_h", "_k"):
        ref = float(cd[name])
        out.append((name, mc[name], ref, abs(mc[name] - ref) / abs(ref)))
    # internal consistency of the module: h_div_k == h / k
    out.append(("hdk_vs_h_over_k", mc["hdk"], mc["h"] / mc["k"], abs(mc["hdk"] - mc["h"] / mc["k"]) / mc["hdk"]))
    return out


def oracle_constants():
    """h [Ry cm], k [Ry/K] for the oracle, as mpmath numbers.  The module's own numbers are used *only after* they have
    been validated against the CODATA values above to 1e-8 (they differ by 4.7e-10: older CODATA inside scipy/pint); that keeps
    the formula comparison sharp at 1e-7 even where d ln(result)/d ln(h/k) ~ Q ~ 100 (T = 20 K).  If the validation fails
    (e.g. a mutated constant) the oracle falls back to CODATA, so the numbers disagree as well."""
    import mpmath as mp
    cd = codata()
    try:
        tab = check_constants()
        if all(r <= RTOL_CONST for _, _, _, r in tab):
            mc = module_constants()
            return {"h": mp.mpf(mc["h"]), "k": mp.mpf(mc["k"]), "source": "module (validated against CODATA to 1e-8)"}
    except Exception:
        pass
    return {"h": cd["h"], "k": cd["k"], "source": "CODATA"}


# --------------------------------------------------------------------------------------------- stub calculator
class _NS:
    pass


def make_stub(case: Dict[str, Any]):
    """Only the attributes the contribution classes (and the task list) read."""
    calc = _NS()
    calc.nv, calc.np, calc.nq, calc.na = case["nv"], case["np"], case["nq"], case["na"]
    calc.v_array = numpy.array(case["v"], dtype=float)
    calc.t_array = numpy.array(case["t"], dtype=float)
    calc.freq_array = numpy.array(case["freq"], dtype=float)
    calc.mode_gamma = [numpy.array(case["mg0"], dtype=float), numpy.array(case["mg1"], dtype=float),
                       numpy.array(case["mg2"], dtype=float)]
    calc.qha_input = _NS()
    calc.qha_input.weights = [((0.0, 0.0, float(i)), float(w)) for i, w in enumerate(case["w"])]
    calc.qha_calculator = _NS()
    vb = _NS()
    vb.pressures = numpy.array(case["P"], dtype=float)
    vb.heat_capacity = numpy.array(case["cv"], dtype=float)
    vb.v_array, vb.t_array = calc.v_array, calc.t_array
    calc.qha_calculator.volume_base = vb
    calc.qha_calculator.v_array, calc.qha_calculator.t_array = calc.v_array, calc.t_array
    calc.static_p_array = numpy.array(case["pst"], dtype=float)
    return calc


FIELDS = ("zp", "th", "iso", "gap", "adia")


def run_impl(case, kind: str, ij: Tuple[int, int], calc=None) -> Dict[str, numpy.ndarray]:
    """The real class for component (i, j) (0-based axes) -> the five observed arrays."""
    from cij.core.phonon_contribution.nonshear import (LongitudinalElasticModulusPhononContribution,
                                                       OffDiagonalElasticModulusPhononContribution)
    calc = calc if calc is not None else (_STUB_FACTORY(case) if _STUB_FACTORY else make_stub(case))
    e = numpy.array(case["e"], dtype=float)
    cls = LongitudinalElasticModulusPhononContribution if kind == "long" else OffDiagonalElasticModulusPhononContribution
    with numpy.errstate(all="ignore"):
        obj = cls(calc, (e[:, ij[0]].copy(), e[:, ij[1]].copy()))
        out = {"zp": obj.zero_point_contribution, "th": obj.thermal_contribution, "iso": obj.value_isothermal,
               "gap": obj.isothermal_to_adiabatic, "adia": obj.value_adiabatic}
    return {k: numpy.array(v, dtype=float) for k, v in out.items()}


def model_op(case, kind: str, ij, consts) -> dict:
    e = numpy.array(case["e"], dtype=float)
    return {"op": "c01." + kind, "h": enc(consts["h"]), "k": enc(consts["k"]), "hdk": enc(consts["hdk"]),
            "na": int(case["na"]), "w": enc(case["w"]), "t": enc(case["t"]), "v": enc(case["v"]),
            "e0": enc(e[:, ij[0]]), "e1": enc(e[:, ij[1]]), "pst": enc(case["pst"]),
            "freq": enc(case["freq"]), "mg0": enc(case["mg0"]), "mg1": enc(case["mg1"]), "mg2": enc(case["mg2"]),
            "P": enc(case["P"]), "cv": enc(case["cv"])}


# --------------------------------------------------------------------------------------------- generators
def gen_strain(rng, nv: int) -> numpy.ndarray:
    """(nv, 3) strain fractions in (0.05, 0.9), rows summing to 1."""
    out = numpy.zeros((nv, 3))
    for r in range(nv):
        while True:
            style = rng.integers(0, 4)
            if style == 0:
                e = numpy.array([1 / 3, 1 / 3, 1 / 3])
            elif style == 1:
                e = rng.dirichlet([6.0, 6.0, 6.0])
            elif style == 2:
                e = rng.dirichlet([1.0, 1.0, 1.0])
            else:
                a = rng.uniform(0.051, 0.2)
                b = rng.uniform(0.051, 0.899 - a)
                e = numpy.array([a, b, 1.0 - a - b])[rng.permutation(3)]
            if e.min() > 0.05 and e.max() < 0.9:
                break
        out[r] = e / e.sum()
    return out


T_STYLES = ["first0", "first0", "first0", "first0", "absent", "absent", "not_first", "not_first", "repeated", "repeated",
            "negzero", "shuffled"]


def gen_grids(rng, thorough: bool, t_style: Optional[str] = None):
    """(nv, nt, v0, v[nv] descending, t[nt]).  Temperature grids: T = 0 first (the usual T_MIN = 0 grid), absent (T_MIN > 0),
    not in the first row, repeated, -0.0, or a shuffled grid; the masks of the code must address rows BY VALUE."""
    nv = int(rng.integers(1, 6 if thorough else 4))
    nt = int(rng.integers(1, 6 if thorough else 4))
    v0 = float(rng.uniform(60.0, 1500.0))
    v = v0 * numpy.sort(rng.uniform(0.82, 1.08, size=nv))[::-1]
    style = t_style or str(rng.choice(T_STYLES))
    if style in ("not_first", "repeated", "shuffled") and nt < 2:
        nt = int(rng.integers(2, 5))
    t = numpy.sort(rng.uniform(20.0, 3000.0, size=nt))
    if nt > 1 and rng.random() < 0.3:
        t[-1 if style == "not_first" else 1] = 20.0
    if style == "first0":
        t[0] = 0.0
    elif style == "negzero":
        t[0] = -0.0
    elif style == "not_first":
        t[int(rng.integers(1, nt))] = 0.0
    elif style == "repeated":
        idx = rng.permutation(nt)[:int(rng.integers(2, nt + 1))]
        t[idx] = 0.0
    elif style == "shuffled":
        t[0] = 0.0
        t = t[rng.permutation(nt)]
    return nv, nt, v0, v.copy(), t.copy()


def t_style_of(t) -> str:
    """classification of a temperature grid by where its zeros are (for the evidence)"""
    z = [i for i, x in enumerate(t) if float(x) == 0.0]
    if not z: return "T0_absent"
    if len(z) > 1: return "T0_repeated"
    return "T0_first_row" if z == [0] else "T0_not_first_row"


W_TARGET_SUMS = [1.0 - 1e-4, 2.0 - 2e-7, 0.9999, 1.0001, 0.5, 1.4999, 2.5, 63.5, 64.4999]


def gen_weights(rng, nq: int) -> numpy.ndarray:
    """positive weights: integer multiplicities, normalised to 1, arbitrary, or scaled to a sum that is NOT a whole number
    (just below / above 1 or 2, half-integers): numpy.average must divide by the exact sum"""
    w = rng.integers(1, 13, size=nq).astype(float)
    s = rng.integers(0, 5)
    if s == 1:
        w = w / w.sum()
    elif s == 2:
        w = rng.uniform(0.01, 5.0, size=nq)
    elif s >= 3:
        w = rng.uniform(0.05, 1.0, size=nq)
        w = w * (float(rng.choice(W_TARGET_SUMS)) / w.sum())
    return w


def w_style_of(w) -> str:
    w = numpy.asarray(w, dtype=float)
    tot = float(w.sum())
    if numpy.all(w == numpy.round(w)): return "integer_multiplicities"
    if abs(tot - 1.0) < 1e-12: return "sum_1"
    if abs(tot - round(tot)) < 2e-4: return "sum_near_whole_number"
    if abs(abs(tot - round(tot)) - 0.5) < 2e-4: return "sum_near_half_integer"
    return "generic"


BIG_NQ = [63, 64, 65, 128, 129]


def gamma_fill(rng, arr: numpy.ndarray, what: str):
    """Gamma-point acoustic entries [.., 0, 0:3] as the real calculator leaves them."""
    if what == "zero":
        arr[..., 0, :3] = 0.0
    elif what == "neg":
        arr[..., 0, :3] = -rng.uniform(0.0, 0.3, size=arr[..., 0, :3].shape)
    elif what == "nan":
        arr[..., 0, :3] = numpy.nan
    elif what == "big":
        arr[..., 0, :3] = rng.uniform(-1e3, 1e3, size=arr[..., 0, :3].shape)


def analytic_params(rng, thorough: bool, size: str = "any") -> Dict[str, Any]:
    """Parameters of an analytic spectrum + grids; everything else is derived deterministically (`build_case`)."""
    if size == "small":
        nq, na = int(rng.integers(1, 3)), int(rng.integers(1, 3))
    elif isinstance(size, tuple):           # ("bigq", nq): many q-points, few atoms (the stub needs no qha run)
        nq, na = int(size[1]), int(rng.integers(1, 3))
    elif size == "large":
        nq, na = int(rng.integers(5, 9)), int(rng.integers(6, 11))
    else:
        nq, na = int(rng.integers(1, 9)), int(rng.integers(1, 11))
    np_ = 3 * na
    nv, nt, v0, v, t = gen_grids(rng, thorough)
    if size == "large" or isinstance(size, tuple):
        nv, nt = min(nv, 2), min(nt, 2)
        v, t = v[:nv], t[:nt]
    w0 = rng.uniform(30.0, 1500.0, size=(nq, np_))
    # gamma(V) = g0 - 2 c ln(V/V0) must stay in [-1, 4] on the grid; V dgamma/dV = -2c in [-3, 3]
    c = rng.uniform(-1.5, 1.5, size=(nq, np_))
    if rng.random() < 0.15:
        c[:] = 0.0                                # pure power law
    xmax = max(abs(math.log(0.82)), abs(math.log(1.08)))
    g0 = rng.uniform(-1.0 + 3.0 * xmax, 4.0 - 3.0 * xmax, size=(nq, np_))
    # keep frequencies inside [30, 1500] on the grid
    lo, hi = numpy.log(v.min() / v0), numpy.log(v.max() / v0)
    for x in (lo, hi):
        f = w0 * numpy.exp(-g0 * x + c * x * x)
        w0 = numpy.where(f > 1500.0, w0 * 1500.0 / f * 0.999, w0)
        f = w0 * numpy.exp(-g0 * x + c * x * x)
        w0 = numpy.where(f < 30.0, w0 * 30.0 / f * 1.001, w0)
    weights = gen_weights(rng, nq)
    e = gen_strain(rng, nv)
    k_ry = 6.3336e-6
    # magnitudes comparable to the phonon terms so that no part hides behind another in the family scale
    scale = 3 * na * k_ry * 1000.0 / v0
    pst = rng.uniform(-1.0, 3.0, size=nv) * scale
    if rng.random() < 0.25:                   # total pressure below the static pressure at every grid point
        P = pst[None, :] - rng.uniform(0.05, 3.0, size=(nt, nv)) * scale
    else:
        P = rng.uniform(-1.0, 3.0, size=(nt, nv)) * scale
    # "all positive heat-capacity fields": log-uniform over 9 decades (C_V is tiny at low T), not just O(3 N k_B)
    cv = 3 * na * k_ry * 10.0 ** rng.uniform(-9.0, 0.5, size=(nt, nv))
    return {"kind": "analytic", "nq": nq, "na": na, "v0": v0, "v": v.tolist(), "t": t.tolist(),
            "w0": w0.tolist(), "g0": g0.tolist(), "c": c.tolist(), "w": weights.tolist(), "e": e.tolist(),
            "P": P.tolist(), "pst": pst.tolist(), "cv": cv.tolist(),
            "gamma_freq": str(rng.choice(["zero", "neg"])), "gamma_mg": str(rng.choice(["keep", "nan", "zero", "big"])),
            "fill_seed": int(rng.integers(0, 2**31))}


def build_case(par: Dict[str, Any]) -> Dict[str, Any]:
    """Arrays handed to the stub calculator for an analytic spectrum (float64 evaluation of the closed forms)."""
    nq, na = par["nq"], par["na"]
    v = numpy.array(par["v"], dtype=float)
    w0, g0, c = (numpy.array(par[k], dtype=float) for k in ("w0", "g0", "c"))
    x = numpy.log(v / par["v0"])[:, None, None]
    freq = w0[None] * numpy.exp(-g0[None] * x + c[None] * x * x)
    gamma = g0[None] - 2.0 * c[None] * x
    vdr = numpy.broadcast_to(-2.0 * c[None], gamma.shape).copy()
    frng = numpy.random.Generator(numpy.random.PCG64(par["fill_seed"]))
    gamma_fill(frng, freq, par["gamma_freq"])
    if par["gamma_mg"] != "keep":
        gamma_fill(frng, gamma, par["gamma_mg"])
        gamma_fill(frng, vdr, par["gamma_mg"])
    return {"nv": len(v), "np": 3 * na, "nq": nq, "na": na, "v": v, "t": numpy.array(par["t"], dtype=float),
            "freq": freq, "mg0": vdr, "mg1": gamma, "mg2": gamma ** 2, "w": numpy.array(par["w"], dtype=float),
            "e": numpy.array(par["e"], dtype=float), "P": numpy.array(par["P"], dtype=float),
            "pst": numpy.array(par["pst"], dtype=float), "cv": numpy.array(par["cv"], dtype=float)}


def free_case(rng, thorough: bool, nq: Optional[int] = None) -> Dict[str, Any]:
    """Arbitrary arrays (no functional relation between volumes): correspondence stream only."""
    if nq is None:
        nq, na = int(rng.integers(1, 9)), int(rng.integers(1, 11))
    else:
        nq, na = int(nq), int(rng.integers(1, 4))
    np_ = 3 * na
    nv, nt, v0, v, t = gen_grids(rng, thorough)
    freq = rng.uniform(30.0, 1500.0, size=(nv, nq, np_))
    gamma = rng.uniform(-1.0, 4.0, size=(nv, nq, np_))
    vdr = rng.uniform(-3.0, 3.0, size=(nv, nq, np_))
    g2 = gamma ** 2 if rng.random() < 0.6 else rng.uniform(0.0, 16.0, size=(nv, nq, np_))
    gamma_fill(rng, freq, str(rng.choice(["zero", "neg"])))
    fill = str(rng.choice(["keep", "nan", "zero", "big"]))
    if fill != "keep":
        for a in (gamma, vdr, g2):
            gamma_fill(rng, a, fill)
    k_ry = 6.3336e-6
    scale = 3 * na * k_ry * 1000.0 / v0
    pst = rng.uniform(-1.0, 3.0, size=nv) * scale
    P = rng.uniform(-1.0, 3.0, size=(nt, nv)) * scale
    if rng.random() < 0.25:
        P = pst[None, :] - rng.uniform(0.05, 3.0, size=(nt, nv)) * scale
    return {"nv": nv, "np": np_, "nq": nq, "na": na, "v": v, "t": t, "freq": freq, "mg0": vdr, "mg1": gamma, "mg2": g2,
            "w": gen_weights(rng, nq), "e": gen_strain(rng, nv), "P": P,
            "pst": pst, "cv": 3 * na * k_ry * 10.0 ** rng.uniform(-9.0, 0.5, size=(nt, nv))}


COMPONENTS = [("long", (0, 0)), ("long", (1, 1)), ("long", (2, 2)), ("off", (0, 1)), ("off", (0, 2)), ("off", (1, 2)),
              ("off", (1, 0))]


# --------------------------------------------------------------------------------------------- oracle (mpmath)
def oracle_derivs(par: Dict[str, Any], dps: int = 40) -> Dict[str, numpy.ndarray]:
    """P_zp, A_zp [v];  P_th, A_th, dPdT [t][v]   by numerical differentiation of F_ph written in mpmath.
    P = -dF/dV, A = V d2F/dV2 - P, dPdT = -d2F/dTdV."""
    import mpmath as mp
    cd = oracle_constants()
    with mp.workdps(dps):
        h, k = +cd["h"], +cd["k"]
        nq, np_ = par["nq"], 3 * par["na"]
        v0 = mp.mpf(par["v0"])
        wts = [mp.mpf(x) for x in par["w"]]
        wsum = mp.fsum(wts)
        modes = []      # (normalised weight, w0, g0, c), Gamma acoustic modes excluded
        for q in range(nq):
            for m in range(np_):
                if q == 0 and m < 3:
                    continue
                modes.append((wts[q] / wsum, mp.mpf(par["w0"][q][m]), mp.mpf(par["g0"][q][m]), mp.mpf(par["c"][q][m])))

        def omegas(V):
            x = mp.log(V / v0)
            return [(wq, w0 * mp.exp(-g0 * x + c * x * x)) for wq, w0, g0, c in modes]

        def f_zp(V):
            return mp.fsum(wq * h * om / 2 for wq, om in omegas(V))

        def f_th(T, V):
            return mp.fsum(wq * k * T * mp.log(1 - mp.exp(-h * om / (k * T))) for wq, om in omegas(V))

        vs = [mp.mpf(x) for x in par["v"]]
        ts = [mp.mpf(x) for x in par["t"]]
        nv, nt = len(vs), len(ts)
        out = {n: numpy.zeros((nt, nv)) for n in ("P_th", "A_th", "dPdT")}
        out["P_zp"], out["A_zp"] = numpy.zeros(nv), numpy.zeros(nv)
        for vi, V in enumerate(vs):
            p = -mp.diff(f_zp, V)
            out["P_zp"][vi] = float(p)
            out["A_zp"][vi] = float(V * mp.diff(f_zp, V, 2) - p)
            for ti, T in enumerate(ts):
                if T == 0:
                    continue                     # F_th(0, V) = 0 identically: all derivatives vanish
                p = -mp.diff(lambda u: f_th(T, u), V)
                out["P_th"][ti, vi] = float(p)
                out["A_th"][ti, vi] = float(V * mp.diff(lambda u: f_th(T, u), V, 2) - p)
                out["dPdT"][ti, vi] = float(-mp.diff(f_th, (T, V), (1, 1)))
        return out


def oracle_expected(par, kind: str, ij, d: Dict[str, numpy.ndarray]) -> Dict[str, numpy.ndarray]:
    """The property's claimed values from the oracle's derivatives (no cij, no model)."""
    e = numpy.array(par["e"], dtype=float)
    ei, ej = e[:, ij[0]], e[:, ij[1]]
    P, pst, cv = (numpy.array(par[k], dtype=float) for k in ("P", "pst", "cv"))
    t = numpy.array(par["t"], dtype=float)
    v = numpy.array(par["v"], dtype=float)
    if kind == "long":
        zp = d["A_zp"] / (5 * ei * ei) + d["P_zp"] / (3 * ei)
        th = d["A_th"] / (5 * ei * ei)[None] + d["P_th"] / (3 * ei)[None]
        iso = zp[None] + th
        press = numpy.zeros_like(th)
    else:
        zp = d["A_zp"] / (15 * ei * ej)
        th = d["A_th"] / (15 * ei * ej)[None]
        press = P - pst[None]
        iso = zp[None] + th + press
    gap = t[:, None] * v[None] * d["dPdT"] ** 2 / (9 * (ei * ej)[None] * cv)
    return {"zp": zp, "th": th, "iso": iso, "press": press, "gap": gap, "adia": iso + gap}


def oracle_check(par, which=("zp", "th", "iso", "press"), comps=COMPONENTS, derivs=None):
    """Evaluate the property statement on the real code for one analytic spectrum.
    Returns list of (kind, ij, field, observed, expected, relerr)."""
    case = build_case(par)
    d = derivs if derivs is not None else oracle_derivs(par)
    bad = []
    for kind, ij in comps:
        try:
            impl = run_impl(case, kind, ij)
        except Exception as ex:                  # the real classes must not raise on an input of the quantifier
            exp = oracle_expected(par, kind, ij, d)
            f0 = which[0] if which and which[0] in exp else "iso"
            bad.append((kind, list(ij), f0, f"raises {type(ex).__name__}: {ex}"[:300], exp[f0], float("inf")))
            continue
        impl["press"] = impl["iso"] - impl["zp"][None] - impl["th"]
        impl["gapdiff"] = impl["adia"] - impl["iso"]
        exp = oracle_expected(par, kind, ij, d)
        exp["gapdiff"] = exp["gap"]
        # scale of the family = everything this component is made of
        sc_ph = float(max(numpy.max(numpy.abs(exp["zp"])), numpy.max(numpy.abs(exp["th"])), 1e-300))
        sc_all = float(max(sc_ph, numpy.max(numpy.abs(exp["iso"])), numpy.max(numpy.abs(numpy.array(par["P"]))),
                           numpy.max(numpy.abs(numpy.array(par["pst"])))))
        sc_gap = float(max(numpy.max(numpy.abs(exp["gap"])), 1e-300))
        for f in which:
            if f in ("zp", "th"):
                ok, err, _ = family_close(impl[f], exp[f], rtol=RTOL_ORACLE, scale=sc_ph)
            elif f == "gap":
                ok, err, _ = family_close(impl[f], exp[f], rtol=RTOL_ORACLE, scale=sc_gap)
            elif f == "gapdiff":
                ok, err, _ = family_close(impl[f], exp[f], rtol=RTOL_ORACLE, atol=1e-12 * sc_all, scale=sc_gap)
            elif f == "press":
                # exactly the supplied pressures: only the rounding of (zp+th+x)-zp-th is allowed
                ok, err, _ = family_close(impl[f], exp[f], rtol=1e-12, scale=sc_all)
            else:
                ok, err, _ = family_close(impl[f], exp[f], rtol=RTOL_ORACLE, scale=sc_all)
            if not ok:
                bad.append((kind, list(ij), f, impl[f], exp[f], err))
            elif f not in ("press", "gapdiff") and numpy.isfinite(err):     # (gapdiff carries the cancellation noise of adia - iso)
                if err > STATS["max_rel_err_oracle"]:
                    STATS["max_rel_err_oracle"] = err
                    STATS["max_rel_err_oracle_field"] = f
    return bad



class Steer:
    """Stub calculators that, whenever the allocator allows, live at the address of the previous (just released) one.
    CPython hands a freed block to the next allocation of that size; that is how a long-running process meets 'a new
    calculator with an old id()' (and identical grid shape).  The previous stub is kept alive until immediately before
    the next one is made."""
    def __init__(self):
        self.last_id, self.last_obj, self.same = None, None, 0

    def __call__(self, case):
        prev_id = self.last_id
        self.last_obj = None
        calc = make_stub(case)
        hold = []
        for _ in range(32):
            if prev_id is None or id(calc) == prev_id: break
            hold.append(calc)
            calc = make_stub(case)
        if prev_id is not None and id(calc) == prev_id:
            self.same += 1
        self.last_id, self.last_obj = id(calc), calc
        del hold
        return calc


def history_variants(par, rng, steps: int = 3):
    """same grid SHAPES, different temperatures and spectra (all still analytic, so the mpmath oracle applies)"""
    import copy
    out = []
    for _ in range(steps):
        q = copy.deepcopy(par)
        f = float(rng.uniform(0.6, 1.7))
        q["t"] = [x * f for x in par["t"]]
        w0 = numpy.array(par["w0"], dtype=float) * rng.uniform(0.85, 1.15, size=numpy.array(par["w0"]).shape)
        # keep frequencies inside [30, 1500] on the grid
        v = numpy.array(par["v"], dtype=float); g0 = numpy.array(par["g0"]); c = numpy.array(par["c"])
        for x in (numpy.log(v.min() / par["v0"]), numpy.log(v.max() / par["v0"])):
            fr = w0 * numpy.exp(-g0 * x + c * x * x)
            w0 = numpy.where(fr > 1500.0, w0 * 1500.0 / fr * 0.999, w0)
            fr = w0 * numpy.exp(-g0 * x + c * x * x)
            w0 = numpy.where(fr < 30.0, w0 * 30.0 / fr * 1.001, w0)
        q["w0"] = w0.tolist()
        out.append(q)
    return out


def oracle_history(pars, which, comps, steer=None):
    """Evaluate calculators for pars[0], pars[1], ... one after another in this process (each released before the next,
    address-steered) and apply the oracle to every step.  Returns (step, bad-tuple) of the first failure or None."""
    global _STUB_FACTORY
    steer = steer or Steer()
    old = _STUB_FACTORY
    _STUB_FACTORY = steer
    try:
        for k, par in enumerate(pars):
            bad = oracle_check(par, which=which, comps=comps)
            if bad:
                return k, bad[0], steer
    finally:
        _STUB_FACTORY = old
        steer.last_obj = None
    return None, None, steer


_STUB_FACTORY = None

def failure_from(par, b, pid="C01") -> OracleFailure:
    kind, ij, f, obs, exp, err = b
    name = {"zp": "zero_point_contribution", "th": "thermal_contribution", "iso": "value_isothermal",
            "press": "value_isothermal - zero_point - thermal (pressure term)", "gap": "isothermal_to_adiabatic",
            "gapdiff": "value_adiabatic - value_isothermal", "adia": "value_adiabatic"}[f]
    comp = f"c{ij[0] + 1}{ij[1] + 1}"
    return OracleFailure(
        what=f"{name} of {comp} ({kind}) differs from the free-energy derivative formula (rel {err:.3g})",
        input={"par": par, "kind": kind, "ij": ij, "field": f},
        observed=numpy.asarray(obs).tolist(), expected=numpy.asarray(exp).tolist(),
        site=f"{pid}:{kind}:{f}")


def shrink(par, b, which):
    """Smaller replay input that still fails: fewer grid points, then fewer q-points."""
    kind, ij, f = b[0], tuple(b[1]), b[2]

    def fails(p):
        r = oracle_check(p, which=(f,), comps=[(kind, ij)])
        return r[0] if r else None

    cur, curb = par, b
    # one (t, v) point: choose the worst one
    if isinstance(b[3], str):
        return par, b
    obs, exp = numpy.asarray(b[3]), numpy.asarray(b[4])
    diff = numpy.abs(numpy.nan_to_num(obs - exp, nan=numpy.inf))
    if diff.ndim == 2:
        ti, vi = numpy.unravel_index(int(numpy.argmax(diff)), diff.shape)
    else:
        ti, vi = 0, int(numpy.argmax(diff))
    cand = dict(cur)
    cand["t"] = [cur["t"][ti]]; cand["v"] = [cur["v"][vi]]; cand["e"] = [cur["e"][vi]]
    cand["P"] = [[cur["P"][ti][vi]]]; cand["cv"] = [[cur["cv"][ti][vi]]]; cand["pst"] = [cur["pst"][vi]]
    r = fails(cand)
    if r:
        cur, curb = cand, r
    while cur["nq"] > 1:
        cand = dict(cur)
        cand["nq"] = cur["nq"] - 1
        for key in ("w0", "g0", "c", "w"):
            cand[key] = cur[key][:-1]
        r = fails(cand)
        if not r:
            break
        cur, curb = cand, r
    return cur, curb


# --------------------------------------------------------------------------------------------- run
def _compare_model(res: Result, case, consts, comps, ctx: Ctx, tag: str, fields=FIELDS, stub_factory=None):
    ops = [model_op(case, kind, ij, consts) for kind, ij in comps]
    outs = ctx.driver.ask(ops)
    n_ok = 0
    for (kind, ij), out in zip(comps, outs):
        res.evaluations += 1
        try:
            impl = run_impl(case, kind, ij, calc=(stub_factory(case) if stub_factory else None))
        except Exception as ex:
            res.disagreements.append(Disagreement("c01." + kind, {"tag": tag, "ij": list(ij), "case": _case_json(case)},
                                                  f"raises {type(ex).__name__}: {ex}"[:300], "arrays"))
            continue
        if isinstance(out, str):
            res.disagreements.append(Disagreement("c01." + kind, {"tag": tag, "ij": list(ij)}, "arrays", out))
            continue
        model = {f: dec_arr(out[f]) for f in FIELDS}
        fam = [impl[f] for f in ("zp", "th", "iso")] + [numpy.asarray(case["P"]), numpy.asarray(case["pst"])]
        sc = float(max(numpy.max(numpy.abs(a[numpy.isfinite(a)]), initial=0.0) for a in fam)) or 1.0
        sc_gap = float(numpy.max(numpy.abs(impl["gap"][numpy.isfinite(impl["gap"])]), initial=0.0)) or 1.0
        good = True
        for f in fields:
            s = sc_gap if f == "gap" else (max(sc, sc_gap) if f == "adia" else sc)
            ok, err, _ = family_close(impl[f], model[f], rtol=RTOL_MODEL, scale=s)
            if ok and numpy.isfinite(err):
                STATS["max_rel_err_model"] = max(STATS["max_rel_err_model"], err)
            if not ok:
                good = False
                res.disagreements.append(Disagreement(
                    "c01." + kind, {"tag": tag, "ij": list(ij), "field": f, "case": _case_json(case)},
                    impl[f].tolist(), model[f].tolist(), note=f"rel err {err:.3g} of scale {s:.3g}"))
                break
        if good:
            n_ok += 1
            res.traces_validated += 1
    return n_ok


def _case_json(case):
    return {k: (jsonable(v) if not isinstance(v, numpy.ndarray) else
                [repr(float(x)) for x in v.ravel()] if v.size <= 64 else f"array{v.shape}") for k, v in case.items()}


def _avg_oracle(x, w):
    """the statement about the mode average, evaluated on the real function with an independent formula:
    mean over ALL 3N slots of a q-point (the three Γ-acoustic slots counted as zeros), weighted mean over q-points.
    Returns None or (what, observed, expected)."""
    from cij.core.phonon_contribution.nonshear import average_over_modes
    x = numpy.array(x, dtype=float); w = numpy.array(w, dtype=float)
    xx = x.copy(); xx[0, :3] = 0.0
    exp = float(sum(w[q] * (sum(xx[q]) / xx.shape[1]) for q in range(xx.shape[0])) / sum(w))
    try:
        obs = float(average_over_modes(x.copy(), w))
    except Exception as e:
        return (f"raises: average_over_modes raised {type(e).__name__}", f"{type(e).__name__}: {e}", exp)
    if math.isnan(exp) and math.isnan(obs): return None
    if not abs(obs - exp) <= 1e-11 * max(abs(exp), abs(obs), 1e-300):
        return ("value: average_over_modes differs from the weighted mean over all 3N slots with Gamma-acoustic slots zeroed", obs, exp)
    return None


def _avg_shape(rng):
    """(nq, np): 1-8 q-points as in the quantifier, and — cheap on the bare function — 63, 64, 65, 128, 129 and other counts > 64"""
    r = rng.random()
    if r < 0.25:
        nq = int(rng.choice(BIG_NQ))
    elif r < 0.4:
        nq = int(rng.integers(66, 300))
    else:
        nq = int(rng.integers(1, 9))
    return nq, int(rng.choice([1, 2, 3, 4, 6, 9, 30]))


def _avg_stream(res: Result, ctx: Ctx, n: int, dist: Optional[dict] = None):
    """average_over_modes alone: the real function vs the model ("c01.avg"), vs the evaluation of the TRANSLATED method / module
    function / reduction tree ("c01.avgsrc") and vs the independent formula of `_avg_oracle`; shapes [q][m] include np < 3,
    nq in {63, 64, 65, 128, 129} and other nq > 64; weights include sums just off a whole number."""
    from cij.core.phonon_contribution.nonshear import average_over_modes
    rng = ctx.rng
    dist = dist if dist is not None else {}
    dist.setdefault("avg_nq", {}); dist.setdefault("avg_weights", {}); dist.setdefault("avg_cases", 0)
    ops, impls = [], []
    for _ in range(n):
        nq, np_ = _avg_shape(rng)
        x = rng.normal(size=(nq, np_)) * 10.0 ** rng.integers(-3, 4)
        if rng.random() < 0.3:
            x[0, :3] = numpy.nan
        w = gen_weights(rng, nq)
        key = str(nq) if nq in BIG_NQ else ("1-8" if nq <= 8 else "66-299")
        dist["avg_nq"][key] = dist["avg_nq"].get(key, 0) + 1
        dist["avg_weights"][w_style_of(w)] = dist["avg_weights"].get(w_style_of(w), 0) + 1
        dist["avg_cases"] += 1
        xc = x.copy()
        bad = _avg_oracle(x, w)
        if bad is not None:
            res.oracle_failures.append(OracleFailure(bad[0], {"avg": {"x": [[repr(float(v)) for v in r] for r in xc], "w": [repr(float(v)) for v in w]}},
                                                     observed=bad[1], expected=bad[2], site="C01:avg:" + bad[0].split(":")[0]))
        try:
            impls.append(float(average_over_modes(x, w)))
        except Exception as e:          # already reported by _avg_oracle; keep the stream going
            impls.append(None)
        if not numpy.array_equal(x, xc, equal_nan=True):
            res.oracle_failures.append(OracleFailure("average_over_modes modified its argument", {"x": x.tolist()}, site="C01:avg:inplace"))
        ops.append({"op": "c01.avg", "x": enc(xc), "w": enc(w)})
        ops.append({"op": "c01.avgsrc", "x": enc(xc), "w": enc(w)})
        if len(res.oracle_failures) >= 3:
            break
    outs = ctx.driver.ask(ops)
    from harness.common import b2f
    for k, (op, out) in enumerate(zip(ops, outs)):
        imp = impls[k // 2]
        res.evaluations += 1
        if isinstance(out, str) and out.startswith("error"):
            res.disagreements.append(Disagreement(op["op"], {"x": "array", "w": "array"}, imp, out)); continue
        m = b2f(out)
        if imp is None:
            res.disagreements.append(Disagreement(op["op"], op, "error", m)); continue
        if not (abs(imp - m) <= 1e-12 * max(abs(imp), abs(m), 1e-300) + 1e-300 or (math.isnan(imp) and math.isnan(m))):
            res.disagreements.append(Disagreement(op["op"], op, imp, m))
        else:
            res.traces_validated += 1


def _mask_stream(res: Result, ctx: Ctx, n: int, dist: Optional[dict] = None):
    """the translated `ret[numpy.where(self.t_array == 0), :] = 0` statements ("c01.masksrc": `NSGlue.applyMasks` on the generated
    masks of thermal_contribution) against numpy executing that very statement, on temperature grids with T = 0 first, elsewhere,
    repeated, absent, -0.0 — validates the evaluator's reading of the statement (a contract measurement, not a property oracle)"""
    rng = ctx.rng
    ops, exps = [], []
    for _ in range(n):
        nv, nt, v0, v, t = gen_grids(rng, True)
        x = rng.normal(size=(nt, nv))
        ret = x.copy()
        ret[numpy.where(t == 0), :] = 0
        ops.append({"op": "c01.masksrc", "t": enc(t), "x": enc(x)}); exps.append(ret)
        if dist is not None:
            dist.setdefault("mask_grids", {})
            dist["mask_grids"][t_style_of(t)] = dist["mask_grids"].get(t_style_of(t), 0) + 1
    outs = ctx.driver.ask(ops)
    for op, exp, out in zip(ops, exps, outs):
        res.evaluations += 1
        if isinstance(out, str):
            res.disagreements.append(Disagreement("c01.masksrc", op, exp.tolist(), out)); continue
        ok = all(numpy.array_equal(dec_arr(out[k]).reshape(exp.shape), exp) for k in ("long", "off"))
        if ok:
            res.traces_validated += 1
        else:
            res.disagreements.append(Disagreement("c01.masksrc", op, exp.tolist(), {k: dec_arr(out[k]).tolist() for k in ("long", "off")}))


WHICH = ("zp", "th", "iso", "press")
PID = "C01"


def run(ctx: Ctx, which=WHICH, pid=PID, fields=("zp", "th", "iso")) -> Result:
    res = Result()
    rng = ctx.rng
    thorough = ctx.thorough()
    t_start = time.time()
    # ---- unit constants: module vs CODATA
    consts_tab = check_constants()
    consts = module_constants()
    res.extra["unit_constants"] = [{"name": n, "module": a, "codata": b, "rel": r} for n, a, b, r in consts_tab]
    for n, a, b, r in consts_tab:
        res.evaluations += 1
        if not (r <= RTOL_CONST):
            res.oracle_failures.append(OracleFailure(
                what=f"unit constant {n} differs from CODATA (rel {r:.3g})", input={"constant": n},
                observed=a, expected=b, site=f"{pid}:const:{n}"))
    # ---- corpus first
    for item in ctx.corpus():
        if "par" in item:
            for b in oracle_check(item["par"], which=which):
                res.oracle_failures.append(failure_from(item["par"], b, pid))
    # ---- average_over_modes alone
    dist = {"nq": {}, "na": {}, "nt": {}, "nv": {}, "has_T0": 0, "weights_normalised": 0, "pure_power_law": 0,
            "gamma_fill": {}, "analytic_cases": 0, "free_cases": 0, "grid_points_oracle": 0, "components": 0,
            "t_grid": {}, "weights": {}, "nq_big": {}, "grid_points_pressure_term_negative": 0,
            "cases_pressure_term_negative_everywhere": 0, "cases_nv_ge2_distinct_strain_rows": 0}

    def count_case(case_like, t, w, P, pst, e, nq):
        dist["t_grid"][t_style_of(t)] = dist["t_grid"].get(t_style_of(t), 0) + 1
        dist["weights"][w_style_of(w)] = dist["weights"].get(w_style_of(w), 0) + 1
        if nq > 8:
            dist["nq_big"][str(nq)] = dist["nq_big"].get(str(nq), 0) + 1
        d = numpy.asarray(P, dtype=float) - numpy.asarray(pst, dtype=float)[None, :]
        dist["grid_points_pressure_term_negative"] += int((d < 0).sum())
        dist["cases_pressure_term_negative_everywhere"] += int(bool((d < 0).all()))
        e = numpy.asarray(e, dtype=float)
        dist["cases_nv_ge2_distinct_strain_rows"] += int(e.shape[0] >= 2 and not numpy.allclose(e, e[0][None, :]))

    if pid == "C01":
        _avg_stream(res, ctx, 300 if thorough else 80, dist)
        _mask_stream(res, ctx, 120 if thorough else 30, dist)
    # ---- analytic spectra: correspondence + oracle
    n_analytic = (140 if thorough else 22)
    big = [("bigq", int(q_)) for q_ in (BIG_NQ if thorough else [int(rng.choice(BIG_NQ[:2])), int(rng.choice(BIG_NQ[2:]))])]
    sizes = ["small"] * 3 + big + ["any"] * (n_analytic - 5 - len(big)) + ["large"] * 2
    seen = set()
    prev_pars = []
    budget = 420.0 if thorough else 45.0
    for idx, size in enumerate(sizes):
        if time.time() - t_start > budget and idx >= 8:
            res.notes.append(f"analytic stream stopped after {idx} cases (time budget)")
            break
        par = analytic_params(rng, thorough, size)
        case = build_case(par)
        dist["analytic_cases"] += 1
        for key, val in (("nq", par["nq"]), ("na", par["na"]), ("nt", len(par["t"])), ("nv", len(par["v"]))):
            dist[key][str(val)] = dist[key].get(str(val), 0) + 1
        dist["has_T0"] += int(0.0 in par["t"])
        count_case(par, par["t"], par["w"], par["P"], par["pst"], par["e"], par["nq"])
        dist["weights_normalised"] += int(abs(sum(par["w"]) - 1.0) < 1e-12)
        dist["pure_power_law"] += int(not numpy.any(numpy.array(par["c"])))
        dist["gamma_fill"][par["gamma_mg"]] = dist["gamma_fill"].get(par["gamma_mg"], 0) + 1
        dist["grid_points_oracle"] += len(par["t"]) * len(par["v"])
        comps = [COMPONENTS[i] for i in rng.permutation(len(COMPONENTS))[:3]]
        if not any(k == "long" for k, _ in comps): comps[0] = COMPONENTS[int(rng.integers(0, 3))]
        if not any(k == "off" for k, _ in comps): comps[1] = COMPONENTS[int(rng.integers(3, 7))]
        dist["components"] += len(comps)
        _compare_model(res, case, consts, comps, ctx, f"analytic#{idx}", fields=fields)
        d = oracle_derivs(par)
        bad = oracle_check(par, which=which, comps=comps, derivs=d)
        res.evaluations += len(comps)
        seen.add((par["nq"], par["na"], len(par["t"]), len(par["v"]), par["fill_seed"]))
        if bad:
            b = bad[0]
            one = [(b[0], tuple(b[1]))]
            hist = None
            if not oracle_check(par, which=(b[2],), comps=one, derivs=d) and prev_pars:
                # not reproducible on its own: the outcome depended on what was computed before in this process
                k, hb, st = oracle_history(prev_pars[-2:] + [par], (b[2],), one)
                if hb is not None:
                    hist = failure_from(par, hb, pid)
                    hist.input = {"history": (prev_pars[-2:] + [par])[:k + 1], "kind": hb[0], "ij": hb[1], "field": hb[2]}
                    hist.what = f"after {k} earlier calculation(s) in this process: " + hist.what
                    hist.site = f"{pid}:history:{hb[0]}:{hb[2]}"
            if hist is not None:
                res.oracle_failures.append(hist)
            else:
                try:
                    spar, sb = shrink(par, b, which)
                except Exception:
                    spar, sb = par, b
                res.oracle_failures.append(failure_from(spar, sb, pid))
            if len(res.oracle_failures) >= 3:
                break
        prev_pars.append(par)
        if len(res.samples) < 3 and not bad:
            impl = run_impl(case, comps[0][0], comps[0][1])
            exp = oracle_expected(par, comps[0][0], comps[0][1], d)
            res.samples.append({"nq": par["nq"], "na": par["na"], "t": par["t"], "v": par["v"], "w": par["w"],
                                "e": par["e"], "component": [comps[0][0], list(comps[0][1])],
                                "impl_value_isothermal": impl["iso"].tolist(), "oracle_value_isothermal": exp["iso"].tolist(),
                                "impl_gap": impl["gap"].tolist(), "oracle_gap": exp["gap"].tolist()})
    # ---- free arrays: correspondence only
    n_free = 400 if thorough else 60
    for idx in range(n_free):
        if time.time() - t_start > budget + (100.0 if thorough else 20.0):
            res.notes.append(f"free stream stopped after {idx} cases (time budget)")
            break
        # every 6th free case has 63 / 64 / 65 / 128 / 129 q-points (cheap: the stub needs no qha run)
        case = free_case(rng, thorough, nq=(BIG_NQ[(idx // 6) % len(BIG_NQ)] if idx % 6 == 5 else None))
        dist["free_cases"] += 1
        count_case(case, case["t"], case["w"], case["P"], case["pst"], case["e"], case["nq"])
        comps = [COMPONENTS[i] for i in rng.permutation(len(COMPONENTS))[:2]]
        _compare_model(res, case, consts, comps, ctx, f"free#{idx}", fields=fields)
        seen.add((case["nq"], case["na"], len(case["t"]), len(case["v"]), float(case["freq"].ravel()[-1])))
    # ---- same-shape histories: calculators with an identical grid shape but different temperatures and spectra are
    # evaluated one after another in this process, each released before the next is built (a result must be a
    # function of the inputs, not of what was computed before on an object of the same shape / address)
    import gc
    n_hist = 10 if thorough else 3
    dist["history_steps"] = 0
    dist["history_same_address"] = 0
    last_id = [None]
    last_obj = [None]

    def steered_stub(case):
        """a fresh stub calculator that, whenever the allocator allows, lives at the address of the previous (just released)
        one: CPython hands a freed block to the next allocation of that size, which is how a long-running process meets
        'a new calculator with an old id()'.  The previous stub is kept alive until immediately before the new one is made."""
        prev_id = last_id[0]
        last_obj[0] = None                      # release the previous stub ...
        calc = make_stub(case)                  # ... and allocate the next one at once
        hold = []
        for _ in range(32):
            if prev_id is None or id(calc) == prev_id: break
            hold.append(calc)
            calc = make_stub(case)
        if prev_id is not None and id(calc) == prev_id:
            dist["history_same_address"] += 1
        last_id[0] = id(calc)
        last_obj[0] = calc
        del hold
        return calc
    for hidx in range(n_hist):
        base = free_case(rng, thorough)
        comps = [COMPONENTS[int(rng.integers(0, 3))], COMPONENTS[int(rng.integers(3, 7))]]
        for step in range(3):
            case = dict(base)
            t = numpy.array(base["t"], dtype=float) * float(rng.uniform(0.6, 1.7))
            case["t"] = t
            f = numpy.array(base["freq"], dtype=float)
            fac = rng.uniform(0.7, 1.3, size=f.shape)
            fnew = numpy.clip(f * fac, 30.0, 1500.0)
            fnew[..., 0, :3] = f[..., 0, :3]
            case["freq"] = fnew
            _compare_model(res, case, consts, comps[:1] if step % 2 else comps[1:], ctx, f"history#{hidx}.{step}", fields=fields,
                           stub_factory=steered_stub)
            dist["history_steps"] += 1
            gc.collect()
    # analytic histories: the oracle itself is applied to every step of a same-shape sequence
    dist["analytic_history_steps"] = 0
    for hidx in range(6 if thorough else 2):
        base_par = analytic_params(rng, thorough, "small")
        pars = [base_par] + history_variants(base_par, rng, 2)
        comps_h = [COMPONENTS[int(rng.integers(0, 3))], COMPONENTS[int(rng.integers(3, 7))]]
        k, b, st = oracle_history(pars, which, comps_h)
        dist["analytic_history_steps"] += len(pars)
        dist["history_same_address"] += st.same
        res.evaluations += len(pars)
        if b is not None:
            f = failure_from(pars[k], b, pid)
            f.input = {"history": pars[:k + 1], "kind": b[0], "ij": b[1], "field": b[2]}
            f.what = f"after {k} earlier calculation(s) of the same grid shape in this process: " + f.what
            f.site = f"{pid}:history:{b[0]}:{b[2]}"
            res.oracle_failures.append(f)
            break
    res.distinct_nontrivial = len(seen)
    res.extra["tolerances"] = {"model_vs_impl_rtol_of_family_scale": RTOL_MODEL, "oracle_vs_impl_rtol_of_family_scale": RTOL_ORACLE,
                               "unit_constants_rtol": RTOL_CONST, **STATS}
    res.rule = ("a case = one generated spectrum + grids (+ the 2-3 components evaluated on it); distinct by (nq, na, nt, nv, "
                "fill seed / last frequency); every case is non-trivial: >= 1 q-point with >= 3 non-acoustic-Gamma modes unless "
                "nq = na = 1 (then the phonon part is exactly 0, which is itself checked); evaluations additionally count the unit "
                "constants and the average_over_modes stream")
    res.distribution = dist
    return res


def search(ctx: Ctx, res: Result, which=WHICH, pid=PID) -> List[OracleFailure]:
    """Proof or correspondence broken and run() saw no oracle failure: more analytic spectra, small first."""
    out = []
    t0 = time.time()
    n = 0
    # the bare averaging function on many shapes (cheap), then whole spectra with many q-points
    for _ in range(400):
        nq, np_ = _avg_shape(ctx.rng)
        x = ctx.rng.normal(size=(nq, np_)); w = gen_weights(ctx.rng, nq)
        bad = _avg_oracle(x, w)
        if bad is not None:
            out.append(OracleFailure(bad[0], {"avg": {"x": [[repr(float(v)) for v in r] for r in x], "w": [repr(float(v)) for v in w]}},
                                     observed=bad[1], expected=bad[2], site=f"{pid}:avg:" + bad[0].split(":")[0]))
            res.notes.append("search: failing input found on average_over_modes alone")
            return out
    for nq in BIG_NQ:
        par = analytic_params(ctx.rng, False, ("bigq", nq))
        bad = oracle_check(par, which=which, comps=COMPONENTS[:1] + COMPONENTS[3:4])
        n += 1
        if bad:
            out.append(failure_from(par, bad[0], pid))
            return out
    while time.time() - t0 < (240.0 if ctx.thorough() else 60.0) and n < 400:
        par = analytic_params(ctx.rng, ctx.thorough(), "small" if n < 40 else "any")
        bad = oracle_check(par, which=which)
        n += 1
        if bad:
            try:
                spar, sb = shrink(par, bad[0], which)
            except Exception:
                spar, sb = par, bad[0]
            out.append(failure_from(spar, sb, pid))
            break
    if not out:
        for hidx in range(20):
            if time.time() - t0 > (300.0 if ctx.thorough() else 90.0): break
            base_par = analytic_params(ctx.rng, ctx.thorough(), "small")
            pars = [base_par] + history_variants(base_par, ctx.rng, 3)
            k, b, st = oracle_history(pars, which, COMPONENTS[:1] + COMPONENTS[3:4])
            if b is not None:
                f = failure_from(pars[k], b, pid)
                f.input = {"history": pars[:k + 1], "kind": b[0], "ij": b[1], "field": b[2]}
                f.what = f"after {k} earlier calculation(s) of the same grid shape in this process: " + f.what
                f.site = f"{pid}:history:{b[0]}:{b[2]}"
                out.append(f)
                break
    res.notes.append(f"search: {n} further analytic spectra evaluated with the oracle (+ same-shape histories)")
    return out


def replay(ctx: Ctx, payload, which=WHICH, pid=PID) -> List[OracleFailure]:
    if "constant" in payload:
        return [OracleFailure(f"unit constant {n} differs from CODATA", payload, a, b)
                for n, a, b, r in check_constants() if n == payload["constant"] and not r <= RTOL_CONST]
    if "avg" in payload:
        x = [[float(v) for v in r] for r in payload["avg"]["x"]]; w = [float(v) for v in payload["avg"]["w"]]
        bad = _avg_oracle(x, w)
        return [] if bad is None else [OracleFailure(bad[0], payload, bad[1], bad[2])]
    if "x" in payload:
        from cij.core.phonon_contribution.nonshear import average_over_modes
        x = numpy.array(payload["x"], dtype=float); xc = x.copy()
        average_over_modes(x, numpy.ones(x.shape[0]))
        return [] if numpy.array_equal(x, xc, equal_nan=True) else [OracleFailure("average_over_modes modified its argument", payload)]
    if "history" in payload:
        comps = [(payload["kind"], tuple(payload["ij"]))]
        for _ in range(5):       # address reuse is up to the allocator: a few attempts
            k, b, st = oracle_history(payload["history"], (payload["field"],), comps)
            if b is not None:
                return [failure_from(payload["history"][k], b, pid)]
        return []
    par = payload["par"]
    comps = [(payload["kind"], tuple(payload["ij"]))] if "kind" in payload else COMPONENTS
    fields = (payload["field"],) if "field" in payload else which
    return [failure_from(par, b, pid) for b in oracle_check(par, which=fields, comps=comps)]
