"""C02 — adiabatic − isothermal gap = T V (dP_ph/dT)^2 / (9 e_i e_j C_V); zero for shear and at T = 0.

Shares the stub calculator, the generators and the mpmath free-energy oracle with `harness/c01.py`:

* IMPL    `isothermal_to_adiabatic`, `value_adiabatic - value_isothermal` of the real non-shear classes, and all 21
          components through the real `PhononContributionTaskList` (resolve + calculate) on a duck-typed calculator;
* MODEL   `isoToAdia…`, `valueAdiabatic…` of `CijModel/NonShear.lean` at Float (ops "c01.long"/"c01.off", fields
          gap/adia), rel 1e-9 of the family scale;
* ORACLE  dP_ph/dT = -d2F_ph/dTdV by mpmath numerical differentiation (40 digits) of the free energy of an analytic
          spectrum, CODATA constants of its own; the claimed gap with the *supplied* random positive C_V; sign on the
          diagonal; exact zero in T = 0 rows; exact equality adiabatic == isothermal for every key with a Voigt index 4-6.

Glue of `cij/core/qha_adapter.py` / `cij/util/units.py` (translated by tools/gens/qha_src.py; theorems `c02_glue_is_source_*`):

* MODEL   driver ops `c02.volcheck` (translated `read_input` on a list of volumes), `c02.chain` (object graph: which attribute of the
          qha calculator a chain of reads on the adapter returns), `c02.helpers` (unit monomials of every `_to_*`/`_from_*`),
          `c02.convert` (translated `convert_unit`), `c02.unitdims` (dimension table) — each compared with the real code / pint;
* ORACLE  (value-level, only what the statement uses) the real adapter built on a synthetic data set against the qha package run
          directly (own settings merge; DT_SAMPLE = 2 DT so that sample and full temperature grids differ): `v_array`, `t_array` (adapter
          and volume interface), `volume_base.heat_capacity`, `ntv`; `Calculator.v_array` / `.t_array` (through `__getattr__`) against
          the same; `_to_gpa` / `_from_gpa` (value form incl. 0.0 and arrays) against CODATA numbers typed in below at 1e-9.
* CORRESPONDENCE-ONLY (a difference exits 1 as a broken tie, not as a failing input of C02): the other seven unit helpers against
          the typed CODATA table; sample temperatures, pressures, free energy, pressure grid of the adapter against qha; identity of
          `volume_base` / `pressure_base` and of the handed arrays across reads, one shared qha calculator, `v2p()` empty;
          qha's unit twins (`p_tv_gpa`/`p_tv_au`, `_ang3`/`_bohr3`, `f_tv_ev`/`f_tv_ry`) as a contract of the external package.
"""
from __future__ import annotations

import time
from typing import Any, Dict, List

import numpy

from harness import c01
from harness.common import Ctx, Result, Disagreement, OracleFailure, family_close, enc, dec

ASSUMPTIONS = c01.ASSUMPTIONS + [
    "C_V is an arbitrary positive field supplied by the QHA layer (generated: 3 N k_B x U(0.2, 3)); the relation of qha's "
    "C_V to the spectrum is not part of C02",
    "shear components are evaluated through the real PhononContributionTaskList with numpy.linalg.eigh rotations "
    "(contract of C03); here only adiabatic == isothermal is checked for them",
]
TRUSTED_EXTRA = c01.TRUSTED_EXTRA

PID = "C02"
WHICH = ("gap", "gapdiff")


# --------------------------------------------------------------------------------------------- task list on a stub
def tasklist_results(par) -> Dict[str, Any]:
    """All 21 keys through the real task list; returns {key: (isothermal, adiabatic)} as arrays."""
    from cij.util import c_
    from cij.core.tasks import PhononContributionTaskList
    case = c01.build_case(par)
    calc = c01.make_stub(case)
    keys = [c_(i, j) for i in range(1, 7) for j in range(i, 7)]
    strain = numpy.array(par["e"], dtype=float)
    with numpy.errstate(all="ignore"):
        tl = PhononContributionTaskList(calc)
        tl.resolve(strain, keys)
        tl.calculate()
        iso = tl.get_isothermal_results()
        adia = tl.get_adiabatic_results()
    return {"".join(map(str, k.v)): (numpy.array(iso[k], dtype=float), numpy.array(adia[k], dtype=float)) for k in keys}


def check_tasklist(par, derivs=None) -> List[tuple]:
    """Property clauses on the task-list outputs: shear keys equal exactly; non-shear keys carry the gap formula."""
    out = tasklist_results(par)
    d = derivs if derivs is not None else c01.oracle_derivs(par)
    bad = []
    for key, (iso, adia) in out.items():
        i, j = int(key[0]), int(key[1])
        if j >= 4 or i >= 4:
            if not numpy.array_equal(iso, adia, equal_nan=True):
                bad.append(("shear", key, "adia==iso", adia - iso, numpy.zeros_like(iso),
                            float(numpy.nanmax(numpy.abs(adia - iso)))))
            continue
        kind = "long" if i == j else "off"
        exp = c01.oracle_expected(par, kind, (i - 1, j - 1), d)
        sc_gap = float(max(numpy.max(numpy.abs(exp["gap"])), 1e-300))
        sc_all = float(max(numpy.max(numpy.abs(exp["iso"])), numpy.max(numpy.abs(numpy.array(par["P"]))),
                           numpy.max(numpy.abs(numpy.array(par["pst"]))), 1e-300))
        ok, err, _ = family_close(adia - iso, exp["gap"], rtol=c01.RTOL_ORACLE, atol=1e-12 * sc_all, scale=sc_gap)
        if not ok:
            bad.append((kind, key, "tasklist adia-iso", adia - iso, exp["gap"], err))
        ok, err, _ = family_close(iso, exp["iso"], rtol=c01.RTOL_ORACLE, scale=sc_all)
        if not ok:
            bad.append((kind, key, "tasklist iso", iso, exp["iso"], err))
    return bad


def extra_clauses(par, derivs) -> List[tuple]:
    """sign on the diagonal and exact zeros in T = 0 rows, on the real classes."""
    case = c01.build_case(par)
    bad = []
    t = numpy.array(par["t"], dtype=float)
    for kind, ij in c01.COMPONENTS:
        impl = c01.run_impl(case, kind, ij)
        z = (t == 0)
        if z.any():
            if numpy.any(impl["gap"][z] != 0) or not numpy.array_equal(impl["adia"][z], impl["iso"][z]):
                bad.append((kind, list(ij), "gap", impl["gap"], numpy.where(z[:, None], 0.0, impl["gap"]), float("inf")))
        if kind == "long" and numpy.any(impl["gap"] < 0):
            bad.append((kind, list(ij), "gap", impl["gap"], numpy.abs(impl["gap"]), float("inf")))
    return bad


def _failure(par, b) -> OracleFailure:
    kind, key, what, obs, exp, err = b
    if kind == "shear":
        return OracleFailure(what=f"c{key}: adiabatic != isothermal for a component with a Voigt index 4-6 (max diff {err:.3g})",
                             input={"par": par, "tasklist": True, "key": key}, observed=numpy.asarray(obs).tolist(),
                             expected=numpy.asarray(exp).tolist(), site=f"C02:shear:{key}")
    if isinstance(what, str) and what.startswith("tasklist"):
        return OracleFailure(what=f"c{key} through PhononContributionTaskList: {what} differs from the formula (rel {err:.3g})",
                             input={"par": par, "tasklist": True, "key": key}, observed=numpy.asarray(obs).tolist(),
                             expected=numpy.asarray(exp).tolist(), site=f"C02:tasklist:{kind}:{what.split()[-1]}")
    return c01.failure_from(par, b, PID)



# --------------------------------------------------------------------------------------------- end to end: the QHA layer's C_V
def adapter_oracle(files) -> List[dict]:
    """`Calculator.modulus_adiabatic[key] − Calculator.modulus_isothermal[key]` (second observation point of the statement) on the
    real Calculator for a synthetic data set, against T·V·(∂P_ph/∂T)²/(9 e_i e_j C_V) with
      * C_V(T,V) from the qha package run directly on the phonon file (tvdata.qha_direct: "the heat capacity handed over by the
        QHA layer" — no cij adapter code in between),
      * ∂P_ph/∂T = (1/V) Σ_q ŵ_q Σ_m γ_qm k_B x² eˣ/(eˣ−1)², x = hcω̃/k_BT, from the harness' own per-mode fit of the files
        (c05.reference_from_files) and scipy's CODATA constants; Γ-acoustic slots skipped,
      * e_i: equal thirds without a lattice block, else the fractions the run used (C05 checks those against the lattice columns).
    Also: the C_V array the adapter hands over IS qha's (T,V) field."""
    from harness import tvdata, c05
    import scipy.constants as sc
    fails: List[dict] = []
    run = tvdata.Run(files)
    if run.error is not None:
        REFUSED.append(type(run.error).__name__)
        return fails                                   # a data set the Calculator refuses is C05/C12's subject
    calc = run.calc
    ref = c05.reference_from_files(files)
    if ref["modes"] is None:
        return fails
    qd = tvdata.qha_direct(files)
    with tvdata.quiet():
        cv_handed = numpy.array(calc.qha_calculator.volume_base.heat_capacity)
        keys = {tuple(k.v): k for k in calc.modulus_keys}
        gaps = {kv: numpy.array(calc.modulus_adiabatic[k]) - numpy.array(calc.modulus_isothermal[k]) for kv, k in keys.items()}
        ax_used = numpy.array(calc._full_modulus.get_axial_strains(), dtype=float)
    # `Calculator.v_array` / `.t_array` do not exist on the class: `__getattr__` hands them to the adapter, which returns the qha
    # calculator's own arrays — the grid of the fields above
    with tvdata.quiet():
        qc = calc.qha_calculator.calculator
        for nm, attr in (("v_array", "finer_volumes_bohr3"), ("t_array", "temperature_array")):
            try:
                got = getattr(calc, nm)
                if numpy.shape(got) != qd[nm].shape or not numpy.array_equal(numpy.asarray(got), qd[nm]):
                    fails.append({"check": "delegated_" + nm, "key": None, "observed": numpy.ravel(numpy.asarray(got))[:4].tolist(),
                                  "expected": numpy.ravel(qd[nm])[:4].tolist()})
                elif got is not getattr(qc, attr):
                    fails.append({"check": "delegated_" + nm, "key": None, "identity": True, "observed": "an equal copy", "expected": "the qha calculator's own array"})
            except Exception as e:
                fails.append({"check": "delegated_" + nm, "key": None, "observed": type(e).__name__, "expected": numpy.ravel(qd[nm])[:4].tolist()})
        if calc.qha_calculator.volume_base.heat_capacity is not qc.cv_tv_au:
            fails.append({"check": "heat_capacity_identity", "key": None, "identity": True, "observed": "another object", "expected": "qha calculator's cv_tv_au"})
    if cv_handed.shape != qd["cv_tv_au"].shape or not family_close(cv_handed, qd["cv_tv_au"], rtol=1e-10)[0]:
        fails.append({"check": "heat_capacity", "key": None, "observed": cv_handed[min(1, len(cv_handed) - 1), :4].tolist(),
                      "expected": qd["cv_tv_au"][min(1, len(cv_handed) - 1), :4].tolist()})
    ry_j, _ = tvdata.codata()
    kb = sc.k / ry_j                                    # Ry / K
    inp = tvdata.parse_input01(files[ref["settings"]["input"]])
    wq = numpy.asarray(inp["weights"], dtype=float); wq = wq / wq.sum()
    t = ref["t_array"]; va = ref["v_array"]
    w = ref["modes"]["freq"]; g = ref["modes"]["gamma"]             # (ntv, nq, np)
    mask = numpy.ones(w.shape[1:], dtype=bool); mask[0, :3] = False
    dpdt = numpy.zeros((len(t), len(va)))
    for it, tt in enumerate(t):
        if tt == 0: continue
        x = sc.h * sc.c * 100.0 * w / (sc.k * tt)
        with numpy.errstate(all="ignore"):
            cvm = numpy.where(mask[None], kb * x * x * numpy.exp(-x) / numpy.expm1(-x) ** 2, 0.0)
        cvm = numpy.nan_to_num(cvm)
        dpdt[it] = numpy.einsum("q,vqm->v", wq, g * cvm) / va
    # strain fractions: equal thirds without a lattice block; with one, the fractions the run used (their relation to the lattice
    # columns is C05's clause, checked there at the discretisation tolerance of numpy.gradient)
    axial = ax_used / ax_used.sum(axis=1, keepdims=True) if ref["axial"] is not None else numpy.full((len(va), 3), 1.0 / 3.0)
    cv = qd["cv_tv_au"]
    for (i, j), gap in gaps.items():
        if i > 3 or j > 3:
            if numpy.any(gap != 0):
                fails.append({"check": "shear_gap", "key": f"{i}{j}", "observed": float(numpy.max(numpy.abs(gap))), "expected": 0.0})
            continue
        with numpy.errstate(all="ignore"):
            exp = t[:, None] * va[None] * dpdt ** 2 / (9.0 * axial[None, :, i - 1] * axial[None, :, j - 1] * cv)
        exp[t == 0] = 0.0
        # quantifier: positive heat-capacity fields.  Points where the QHA layer's C_V is not positive (T = 0 aside) — e.g. a data set
        # with one q-point and one atom, whose only modes are the Γ-acoustic ones — are outside it and are not compared.
        inq = (cv > 0) | (t == 0)[:, None]
        if gap.shape != exp.shape:
            fails.append({"check": "gap_e2e", "key": f"{i}{j}", "observed": list(gap.shape), "expected": list(exp.shape)}); continue
        if not inq.any(): continue
        g_in, e_in = numpy.where(inq, gap, 0.0), numpy.where(inq, exp, 0.0)
        sc_ = float(numpy.max(numpy.abs(e_in))) or 1.0
        ok, err, _ = family_close(g_in, e_in, rtol=1e-5, scale=sc_)
        if not ok:
            fails.append({"check": "gap_e2e", "key": f"{i}{j}", "observed": gap[min(2, len(t) - 1), :4].tolist(),
                          "expected": exp[min(2, len(t) - 1), :4].tolist(), "rel": err})
        if numpy.any(gap[t == 0] != 0):
            fails.append({"check": "gap_T0", "key": f"{i}{j}", "observed": gap[t == 0][0, :4].tolist(), "expected": 0.0})
    return fails


REFUSED: List[str] = []


def adapter_cases(ctx: Ctx, res: Result, n: int):
    from harness import tvdata
    from harness.common import make_rng
    done = 0
    del REFUSED[:]
    for i in range(n):
        rng = make_rng(ctx.seed, f"C02/adapter/{i}")
        # alternately with and without a lattice-parameter block (without one the strain fractions are equal thirds: "e_i" of the formula)
        ds, desc = tvdata.draw_case(rng, small=True, force={"NT": int(rng.integers(2, 5)), "lattice": bool((i + ctx.seed) % 2)})
        files = tvdata.case_files(ds)
        fs_all = adapter_oracle(files)
        done += 1
        res.evaluations += 1
        for f in [f for f in fs_all if f.get("identity")][:3]:
            res.disagreements.append(Disagreement(op="c02.chain", input={"check": f["check"], "desc": jsonable_desc(desc)}, impl=f["observed"], model=f["expected"],
                                                  note="Calculator.__getattr__ -> adapter -> the qha calculator's own object (translated object graph)"))
        fs = [f for f in fs_all if not f.get("identity")]
        for f in fs[:3]:
            res.oracle_failures.append(OracleFailure(
                what=f"end to end: {f['check']} of c{f['key']} differs from T V (dP/dT)^2/(9 e_i e_j C_V) with the QHA layer's C_V"
                     if f["key"] is not None else ("the heat capacity handed over by the adapter is not the QHA layer's C_V(T,V)" if f["check"].startswith("heat_capacity")
                                                   else f"{f['check']}: Calculator.{f['check'].split('_', 1)[1]} is not the qha calculator's own grid array"),
                input={"adapter_files": files, "desc": jsonable_desc(desc)}, observed=f["observed"], expected=f["expected"],
                site=f"C02:adapter:{f['check']}"))
    res.distribution["adapter_e2e_cases"] = done
    res.distribution["adapter_e2e_refused_by_calculator"] = {k: REFUSED.count(k) for k in sorted(set(REFUSED))}
    if done and len(REFUSED) == done:
        res.notes.append("every end-to-end data set was refused by the Calculator (" + ", ".join(sorted(set(REFUSED))) + "); the adapter-object "
                         "stream compares the adapter with qha directly on such data")


def jsonable_desc(d):
    from harness.common import jsonable
    return jsonable(d)


# --------------------------------------------------------------------------------------------- glue: qha_adapter.py / units.py
# CODATA numbers typed in (never read from cij / pint / scipy).  pint 0.26 carries the 2022 adjustment, older releases the 2018 one:
# the helpers must match ONE edition throughout at 1e-9.
CODATA = {"2022": {"bohr": 5.29177210544e-11, "rydberg": 2.1798723611030e-18},
          "2018": {"bohr": 5.29177210903e-11, "rydberg": 2.1798723611035e-18}}
EV_J = 1.602176634e-19          # exact (SI 2019)
N_A = 6.02214076e23             # exact
RTOL_UNITS = 1e-9
PRESSURE_HELPERS = ("_to_gpa", "_from_gpa")
HELPERS = ["_to_gpa", "_from_gpa", "_to_ang3", "_from_ang3", "_to_ev", "_from_ev", "_from_gcm3", "_to_gcm3", "_to_kms"]
GLUE_CHAINS = ([["calculator"], ["v_array"], ["t_array"], ["t_sample_array"], ["ntv"], ["v2p"], ["volume_base"], ["pressure_base"], ["nonexistent"]]
               + [["volume_base", n] for n in ("v_array", "t_array", "t_sample_array", "gibbs_free_energies", "helmholtz_free_energies",
                                               "enthalpies", "entropies", "pressures", "thermal_expansivities", "bulk_modulus",
                                               "bulk_modulus_isothermal", "heat_capacity", "p_array")]
               + [["pressure_base", n] for n in ("p_array", "t_array", "t_sample_array", "gibbs_free_energies", "helmholtz_free_energies",
                                                 "enthalpies", "entropies", "volumes", "thermal_expansivities", "bulk_modulus",
                                                 "bulk_modulus_isothermal", "heat_capacity", "v_array")])


def _units_module():
    """the MODULE cij/util/units.py (the package attribute `cij.util.units` is the pint registry it exports)"""
    import importlib
    return importlib.import_module("cij.util.units")


def typed_factors(edition: str) -> Dict[str, float]:
    """one source unit in target units, from the typed constants (own statement of what each helper is documented to convert)"""
    a0, ry = CODATA[edition]["bohr"], CODATA[edition]["rydberg"]
    gpa = ry / a0 ** 3 / 1e9
    ang3 = (a0 * 1e10) ** 3
    ev = ry / EV_J
    gcm3 = 1.0 / (N_A * (a0 * 100.0) ** 3)
    return {"_to_gpa": gpa, "_from_gpa": 1.0 / gpa, "_to_ang3": ang3, "_from_ang3": 1.0 / ang3, "_to_ev": ev, "_from_ev": 1.0 / ev,
            "_to_gcm3": gcm3, "_from_gcm3": 1.0 / gcm3, "_to_kms": 1.0}


def unit_values(edition: str) -> Dict[str, float]:
    """SI value of one unit of each name (amount of substance counted in mol)"""
    a0, ry = CODATA[edition]["bohr"], CODATA[edition]["rydberg"]
    return {"bohr": a0, "angstrom": 1e-10, "cm": 1e-2, "km": 1e3, "m": 1.0, "g": 1e-3, "kg": 1.0, "s": 1.0, "K": 1.0, "mol": 1.0,
            "particle": 1.0 / N_A, "rydberg": ry, "hartree": 2.0 * ry, "eV": EV_J, "J": 1.0, "GPa": 1e9, "Pa": 1.0}


def mono_value(mono, vals) -> float:
    out = 1.0
    for u, e2 in mono:
        out *= vals[u] ** (e2 / 2.0)
    return out


def helper_outputs(name: str):
    """the real helper on 1.0, 0.0, a negative number and an array; and the two forms of convert_unit for the same units"""
    U = _units_module()
    f = getattr(U, name)
    arr = numpy.array([0.5, -3.0, 2.0e3])
    with numpy.errstate(all="ignore"):
        return {"one": float(f(1.0)), "zero": f(0.0), "neg": float(f(-2.5)), "arr": numpy.asarray(f(arr), dtype=float), "arr_in": arr}


def units_oracle(names=None) -> List[OracleFailure]:
    """every helper against the typed CODATA factor (one edition throughout), value form incl. 0.0 and arrays"""
    fails: List[OracleFailure] = []
    U = _units_module()
    names = list(names or HELPERS)
    outs = {}
    for n in names:
        if not callable(getattr(U, n, None)):
            fails.append(OracleFailure(what=f"cij.util.units.{n} is missing", input={"glue": "units", "helper": n}, observed=None,
                                       expected="callable", site=f"C02:units:{n}"))
            continue
        try:
            outs[n] = helper_outputs(n)
        except Exception as e:
            fails.append(OracleFailure(what=f"cij.util.units.{n} raises {type(e).__name__}", input={"glue": "units", "helper": n},
                                       observed=repr(e)[:200], expected="a converted number", site=f"C02:units:{n}"))

    def bad_for(ed):
        tf = typed_factors(ed)
        bad = []
        for n, o in outs.items():
            k = tf[n]
            if isinstance(o["zero"], (int, float, numpy.floating)) and float(o["zero"]) == 0.0:
                pass
            else:
                bad.append((n, "0.0", repr(o["zero"])[:80], 0.0)); continue
            if not (abs(o["one"] / k - 1.0) <= RTOL_UNITS): bad.append((n, "1.0", o["one"], k)); continue
            if not (abs(o["neg"] / (-2.5 * k) - 1.0) <= RTOL_UNITS): bad.append((n, "-2.5", o["neg"], -2.5 * k)); continue
            if o["arr"].shape != o["arr_in"].shape or not family_close(o["arr"], o["arr_in"] * k, rtol=RTOL_UNITS)[0]:
                bad.append((n, "array", o["arr"].tolist(), (o["arr_in"] * k).tolist()))
        return bad
    per = {ed: bad_for(ed) for ed in CODATA}
    best = min(per, key=lambda ed: len(per[ed]))
    for n, x, obs, exp in per[best]:
        fails.append(OracleFailure(what=f"unit helper {n}({x}) differs from the CODATA-{best} factor at {RTOL_UNITS:g}",
                                   input={"glue": "units", "helper": n}, observed=obs, expected=exp, site=f"C02:units:{n}"))
    return fails


def units_stream(ctx: Ctx, res: Result):
    """units.py: oracle (typed CODATA) + correspondence of the translated unit expressions / convert_unit / dimension table"""
    U = _units_module()
    dist = res.distribution
    fails = units_oracle()
    res.evaluations += 4 * len(HELPERS)
    # the pressure pair carries the moduli (and so the gap) to the reported GPa: a wrong factor there is a failing input of C02;
    # the other helpers are not used by the statement — a wrong factor is reported as a disagreement with the typed table
    res.oracle_failures.extend([f for f in fails if f.input.get("helper") in PRESSURE_HELPERS][:3])
    for f in [f for f in fails if f.input.get("helper") not in PRESSURE_HELPERS][:4]:
        res.disagreements.append(Disagreement(op="c02.helpers", input=f.input, impl=f.observed, model=f.expected, note=f.what))
    dist["unit_helpers_vs_codata"] = len(HELPERS)
    # the helpers the module defines are the ones the oracle knows (a new helper is not silently untested)
    defined = sorted(n for n in vars(U) if (n.startswith("_to_") or n.startswith("_from_")) and callable(getattr(U, n)))
    if defined != sorted(HELPERS):
        res.disagreements.append(Disagreement(op="c02.helpers", input="names", impl=defined, model=sorted(HELPERS),
                                              note="cij.util.units defines other helpers than the harness has typed factors for"))
    # ---- translated monomials valued with the typed constants vs the real helper
    ans = ctx.driver.ask([{"op": "c02.helpers"}])[0]
    ok_ed = None
    if not isinstance(ans, list):
        res.disagreements.append(Disagreement(op="c02.helpers", input=None, impl=defined, model=ans, note="driver answer"))
    else:
        model_names = [h["name"] for h in ans]
        if sorted(model_names) != defined:
            res.disagreements.append(Disagreement(op="c02.helpers", input="names", impl=defined, model=model_names))
        for ed in CODATA:
            vals = unit_values(ed)
            good = True
            for h in ans:
                if h["src"] is None or h["dst"] is None or not callable(getattr(U, h["name"], None)): good = False; break
                k = mono_value(h["src"], vals) / mono_value(h["dst"], vals)
                try:
                    real = float(getattr(U, h["name"])(1.0))
                except Exception:
                    good = False; break
                if not (abs(real / k - 1.0) <= RTOL_UNITS): good = False; break
            if good: ok_ed = ed; break
        if ok_ed is None:
            vals = unit_values("2022")
            rows = [(h["name"], None if h["src"] is None or h["dst"] is None else mono_value(h["src"], vals) / mono_value(h["dst"], vals)) for h in ans]
            real = {}
            for n in defined:
                try: real[n] = float(getattr(U, n)(1.0))
                except Exception as e: real[n] = type(e).__name__
            res.disagreements.append(Disagreement(op="c02.helpers", input="factors", impl=real, model=rows,
                                                  note="translated unit expression valued with typed CODATA constants != real helper(1.0)"))
        else:
            res.traces_validated += len(ans)
        res.evaluations += len(ans)
    dist["unit_helpers_translated_vs_real"] = 0 if not isinstance(ans, list) else len(ans)
    dist["codata_edition_matched"] = ok_ed
    # ---- convert_unit: value form, curried form, 0.0 — real pint units against the translated definition (units valued in SI)
    vals = unit_values(ok_ed or "2022")
    pairs = [("rydberg", "eV"), ("eV", "rydberg"), ("bohr", "angstrom"), ("GPa", "Pa"), ("cm", "km"), ("J", "rydberg")]
    n_conv = 0
    for a, b in pairs:
        for v in (1.0, 0.0, -7.25, None):
            probe = float(ctx.rng.uniform(0.5, 3.0))
            op = {"op": "c02.convert", "from": enc(vals[a]), "to": enc(vals[b]), "probe": enc(probe)}
            if v is not None: op["value"] = enc(v)
            m = ctx.driver.ask([op])[0]
            try:
                r = U.convert_unit(getattr(U.units, a), getattr(U.units, b), v) if v is not None else U.convert_unit(getattr(U.units, a), getattr(U.units, b))
                if callable(r): impl = ("function", float(r(probe)))
                else: impl = ("value", float(r))
            except Exception as e:
                impl = ("error", type(e).__name__)
            mm = (m.get("kind"), dec(m["x"]) if "x" in m else None) if isinstance(m, dict) else ("driver", m)
            n_conv += 1
            res.evaluations += 1
            same = impl[0] == mm[0] and (impl[0] == "error" or (mm[1] is not None and abs(impl[1] - mm[1]) <= RTOL_UNITS * max(abs(mm[1]), 1e-300)))
            if not same:
                res.disagreements.append(Disagreement(op="c02.convert", input={"from": a, "to": b, "value": v, "probe": probe}, impl=impl, model=mm))
            else:
                res.traces_validated += 1
    dist["convert_unit_calls"] = n_conv
    # ---- dimension table of the model vs pint (contract of `unitDim`)
    names = sorted(vals)
    md = ctx.driver.ask([{"op": "c02.unitdims", "names": names}])[0]
    order = ["[length]", "[mass]", "[time]", "[temperature]", "[substance]"]
    n_dim = 0
    for n in names:
        try:
            d = dict(getattr(U.units, n).dimensionality)
        except Exception as e:
            res.contract_failures.append(f"pint does not know the unit {n}: {type(e).__name__}"); continue
        pd = [int(round(d.get(k, 0))) for k in order] if set(d) <= set(order) and all(float(x).is_integer() for x in d.values()) else None
        n_dim += 1
        if not isinstance(md, dict) or md.get(n) != pd:
            res.disagreements.append(Disagreement(op="c02.unitdims", input=n, impl=pd, model=md.get(n) if isinstance(md, dict) else md,
                                                  note="dimension table of CijModel/QhaGlue.lean vs pint's dimensionality"))
    dist["unit_dimensions_vs_pint"] = n_dim


# ---- read_input: the translated statements vs the real method, on lists of volumes
def _fake_input(vols):
    import types
    V = [types.SimpleNamespace(volume=float(v), energy=-1.0 - 0.25 * i, q_points=[((0.0, 0.0, 0.0), [1.0 + i, 2.0, 3.5]), ((0.5, 0.0, 0.0), [4.0, 5.0 + i, 6.0])])
         for i, v in enumerate(vols)]
    return types.SimpleNamespace(nm=2, volumes=V, weights=[((0.0, 0.0, 0.0), 1.0), ((0.5, 0.0, 0.0), 3.0)])


def real_read_input(vols) -> dict:
    """QHACalculator.read_input on a duck-typed input: status and which of the five fields hold the file's values"""
    import copy as _copy
    from qha.settings import DEFAULT_SETTINGS
    from cij.core.qha_adapter import QHACalculator
    from harness import tvdata
    s = _copy.copy(DEFAULT_SETTINGS); s.update(tvdata.CIJ_QHA_DEFAULTS); s.update({"NTV": 11})
    inp = _fake_input(vols)
    with tvdata.quiet():
        c = QHACalculator(s)
        try:
            c.read_input(inp)
        except Exception as e:
            return {"status": type(e).__name__}
    want = {"self._formula_unit_number": inp.nm, "self._volumes": [v.volume for v in inp.volumes],
            "self._static_energies": [v.energy for v in inp.volumes],
            "self._frequencies": [[m for _, m in v.q_points] for v in inp.volumes], "self._q_weights": [w for _, w in inp.weights]}
    stored = []
    for k, w in want.items():
        got = getattr(c, k.split(".", 1)[1], None)
        if got is None: continue
        try:
            same = numpy.array_equal(numpy.asarray(got, dtype=float), numpy.asarray(w, dtype=float), equal_nan=True) and numpy.asarray(got).shape == numpy.asarray(w).shape
        except Exception:
            same = False
        stored.append(k if same else k + " (altered)")
    return {"status": "ok", "stored": stored}


def volume_lists(rng, n):
    out = [[], [55.0], [3.0, 2.0, 1.0], [3.0, 3.0, 1.0], [1.0, 2.0], [3.0, float("nan"), 1.0], [2.0, 2.0], [2.0, 2.0000000000000004]]
    while len(out) < n:
        k = int(rng.integers(2, 13))
        v = numpy.sort(rng.uniform(40.0, 400.0, size=k))[::-1].copy()
        mode = int(rng.integers(0, 6))
        if mode == 1: v = v[::-1].copy()                                           # increasing
        elif mode == 2: i = int(rng.integers(0, k - 1)); v[i], v[i + 1] = v[i + 1], v[i]    # one adjacent pair exchanged
        elif mode == 3: v = v[rng.permutation(k)]                                  # shuffled
        elif mode == 4: i = int(rng.integers(0, k - 1)); v[i + 1] = v[i]              # a repeated volume (not an increase)
        elif mode == 5 and k > 2: v = numpy.roll(v, 1)                             # largest volume last -> first
        out.append([float(x) for x in v])
    return out


def volcheck_stream(ctx: Ctx, res: Result, n: int):
    dist = res.distribution
    lists = volume_lists(ctx.rng, n)
    ans = ctx.driver.ask([{"op": "c02.volcheck", "volumes": enc(numpy.array(v, dtype=float))} for v in lists])
    acc = rej = 0
    for v, m in zip(lists, ans):
        impl = real_read_input(v)
        res.evaluations += 1
        mm = {"status": m.get("status"), **({"stored": m.get("stored")} if m.get("status") == "ok" else {})} if isinstance(m, dict) else {"status": repr(m)}
        if impl != mm:
            res.disagreements.append(Disagreement(op="c02.volcheck", input={"volumes": jsonable_desc(v)}, impl=impl, model=mm))
        else:
            res.traces_validated += 1
        if impl["status"] == "ok": acc += 1
        else: rej += 1
    dist["read_input_volume_lists"] = {"accepted": acc, "rejected": rej}


# ---- the adapter's objects on a real data set
def qha_direct_ext(files) -> dict:
    """the qha package on the phonon file itself (own settings merge, no cij code): the grids, the (T,V) fields, and qha's own unit
    twins of the fields cij reads"""
    import os, shutil, tempfile, yaml
    import qha.calculator
    from qha.settings import DEFAULT_SETTINGS
    from harness import tvdata
    st = yaml.safe_load(files["settings.yaml"])
    s = dict(DEFAULT_SETTINGS); s.update(tvdata.CIJ_QHA_DEFAULTS); s.update((st.get("qha") or {}).get("settings") or {})
    name = (st.get("qha") or {}).get("input", "input01")
    d = tempfile.mkdtemp(prefix="qhadirect_")
    try:
        path = os.path.join(d, os.path.basename(name))
        with open(path, "w") as fp: fp.write(files[name])
        s["input"] = path
        with tvdata.quiet():
            c = qha.calculator.Calculator(s)
            c.read_input(); c.refine_grid()
            return {k: numpy.array(getattr(c, k)) for k in
                    ("finer_volumes_bohr3", "finer_volumes_ang3", "temperature_array", "temperature_sample_array", "p_tv_au", "p_tv_gpa",
                     "cv_tv_au", "f_tv_ry", "f_tv_ev", "desired_pressures", "desired_pressures_gpa")} | {"NTV": int(s["NTV"])}
    finally:
        shutil.rmtree(d, ignore_errors=True)


def build_adapter(files):
    """QHACalculatorAdapter exactly as `Calculator._load` makes it (configuration and reader of cij, then the adapter)"""
    import os, shutil, tempfile
    import cij.io
    from cij.core.qha_adapter import QHACalculatorAdapter
    from harness import tvdata
    d = tempfile.mkdtemp(prefix="cijadapter_")
    try:
        for n, text in files.items():
            with open(os.path.join(d, n), "w") as fp: fp.write(text)
        with tvdata.quiet():
            config = cij.io.apply_default_config(cij.io.read_config(os.path.join(d, "settings.yaml")))
            qha_input = cij.io.traditional.read_energy(os.path.join(d, config["qha"]["input"]))
            return QHACalculatorAdapter(config["qha"]["settings"], qha_input)
    finally:
        shutil.rmtree(d, ignore_errors=True)


def adapter_objects_oracle(files, qd=None, adapter=None) -> List[dict]:
    """what the adapter hands over, against qha run directly.  The quantities the statement of C02 uses — the volume grid, the
    temperature grid, C_V(T,V), the grid size — by VALUE: a difference is an oracle failure.  Tagged `identity` (reported as a
    correspondence disagreement with the translated object graph / tables, not as a violation): object identity across reads, one
    shared qha calculator, and the fields C02 does not use (sample temperatures, pressures, free energy, pressure grid, `v2p`)."""
    from harness import tvdata
    fails: List[dict] = []
    qd = qd if qd is not None else qha_direct_ext(files)
    try:
        ad = adapter if adapter is not None else build_adapter(files)
    except Exception as e:
        return [{"check": "construct", "observed": f"{type(e).__name__}: {e}"[:200], "expected": "an adapter (qha itself accepts the data set)"}]
    def cmp(check, got, want, exact=True, model_only=False):
        try:
            g = numpy.asarray(got, dtype=float); w = numpy.asarray(want, dtype=float)
            ok = g.shape == w.shape and (numpy.array_equal(g, w, equal_nan=True) if exact else family_close(g, w, rtol=1e-12)[0])
        except Exception as e:
            g, w, ok = repr(e), numpy.asarray(want), False
        if not ok:
            fails.append({"check": check, "observed": [list(numpy.shape(got))] + numpy.ravel(numpy.asarray(got, dtype=object))[:4].tolist(),
                          "expected": [list(numpy.shape(want))] + numpy.ravel(numpy.asarray(want))[:4].tolist(), **({"identity": True} if model_only else {})})
    with tvdata.quiet():
        def get(f):
            try: return f()
            except Exception as e: return f"{type(e).__name__}: {e}"[:120]
        cmp("v_array", get(lambda: ad.v_array), qd["finer_volumes_bohr3"])
        cmp("volume_base.v_array", get(lambda: ad.volume_base.v_array), qd["finer_volumes_bohr3"])
        cmp("t_array", get(lambda: ad.t_array), qd["temperature_array"])
        cmp("volume_base.t_array", get(lambda: ad.volume_base.t_array), qd["temperature_array"])
        cmp("t_sample_array", get(lambda: ad.t_sample_array), qd["temperature_sample_array"], model_only=True)
        cmp("heat_capacity", get(lambda: ad.volume_base.heat_capacity), qd["cv_tv_au"], exact=False)
        cmp("pressures", get(lambda: ad.volume_base.pressures), qd["p_tv_au"], exact=False, model_only=True)
        cmp("helmholtz_free_energies", get(lambda: ad.volume_base.helmholtz_free_energies), qd["f_tv_ry"], exact=False, model_only=True)
        cmp("pressure_base.p_array", get(lambda: ad.pressure_base.p_array), qd["desired_pressures"], exact=False, model_only=True)
        ntv = get(lambda: ad.ntv)
        if ntv != len(qd["finer_volumes_bohr3"]) or ntv != qd["NTV"]:
            fails.append({"check": "ntv", "observed": ntv if isinstance(ntv, (int, str)) else repr(ntv), "expected": qd["NTV"]})
        for nm in ("volume_base", "pressure_base"):
            a, b = get(lambda: getattr(ad, nm)), get(lambda: getattr(ad, nm))
            if isinstance(a, str):
                fails.append({"check": nm, "observed": a, "expected": "an interface object"})
            elif a is not b:
                fails.append({"check": nm + " identical across reads", "identity": True, "observed": [repr(a)[:60], repr(b)[:60]], "expected": "the same object"})
            elif getattr(a, "calculator", None) is not ad.calculator:
                fails.append({"check": nm + ".calculator is the adapter's calculator", "identity": True,
                              "observed": repr(getattr(a, "calculator", None))[:60], "expected": repr(ad.calculator)[:60]})
        for nm in ("heat_capacity", "pressures", "v_array"):
            a, b = get(lambda: getattr(ad.volume_base, nm)), get(lambda: getattr(ad.volume_base, nm))
            if a is not b:
                fails.append({"check": f"volume_base.{nm} identical across reads", "identity": True, "observed": "two different objects", "expected": "the same array"})
        r = get(lambda: ad.v2p())
        if r is not None:
            fails.append({"check": "v2p() is empty", "identity": True, "observed": repr(r)[:80], "expected": None})
    return fails


def chain_correspondence(ctx: Ctx, res: Result, ad) -> int:
    """`c02.chain`: the object-graph reading of the translated source against the running objects.  The model answers with the class
    of the root object and an attribute path from it (or null: no value — an exception or a bound method); the real chain of reads
    must return THAT object (identity; `len` by value)."""
    from harness import tvdata
    ans = ctx.driver.ask([{"op": "c02.chain", "attrs": ch} for ch in GLUE_CHAINS])
    qname = type(ad.calculator).__name__
    n = 0
    for ch, m in zip(GLUE_CHAINS, ans):
        with tvdata.quiet():
            try:
                v = ad
                for a in ch: v = getattr(v, a)
                real, err = v, None
            except Exception as e:
                real, err = None, type(e).__name__
        n += 1
        res.evaluations += 1
        if m is None:
            ok = err is not None or callable(real)
            desc = ("error:" + err) if err else ("callable" if callable(real) else "value")
        elif not isinstance(m, dict) or "root" not in m:
            ok, desc = False, "value" if err is None else "error:" + err
        elif err is not None:
            # the model takes every attribute of the external qha calculator as given; a name the installed qha class does not have
            # (checked on the third-party class, not on cij's subclass) raises AttributeError in the real chain — consistent, recorded
            import qha.calculator
            lacks = m["root"] == qname and len(m["path"]) >= 1 and not hasattr(qha.calculator.Calculator, m["path"][0])
            ok, desc = (err == "AttributeError" and lacks), "error:" + err
            if ok: res.distribution.setdefault("chain_reads_of_attributes_qha_lacks", []).append(".".join(ch) + " -> " + m["path"][0])
        elif m["root"] == qname:
            desc = "value"
            with tvdata.quiet():
                try:
                    w = ad.calculator
                    for a in m["path"]:
                        w = len(w) if a == "__len__" else getattr(w, a)
                    ok = (w is real) or (isinstance(w, int) and isinstance(real, int) and w == real)
                except Exception as e:
                    ok, desc = False, "model path fails on the real object: " + type(e).__name__
        else:
            desc = "instance of " + type(real).__name__
            ok = m["path"] == [] and type(real).__name__ == m["root"] and getattr(real, "calculator", None) is ad.calculator
        if not ok:
            res.disagreements.append(Disagreement(op="c02.chain", input=ch, impl=desc, model=m,
                                                  note="which attribute of which object the chain of reads on the adapter returns"))
        else:
            res.traces_validated += 1
    return n


def qha_unit_twins(qd, ed) -> List[str]:
    """contract of `qhaFieldUnit` (units qha holds its fields in): its own `_gpa` / `_ang3` / `_ev` twins with the typed factors"""
    tf = typed_factors(ed)
    out = []
    for a, b, k in (("p_tv_au", "p_tv_gpa", tf["_to_gpa"]), ("finer_volumes_bohr3", "finer_volumes_ang3", tf["_to_ang3"]),
                    ("f_tv_ry", "f_tv_ev", tf["_to_ev"]), ("desired_pressures", "desired_pressures_gpa", tf["_to_gpa"])):
        if not family_close(qd[a] * k, qd[b], rtol=1e-8)[0]:
            out.append(f"qha {b} is not {a} x {k!r} (CODATA-{ed})")
    return out


def glue_adapter_cases(ctx: Ctx, res: Result, n: int):
    from harness import tvdata
    from harness.common import make_rng
    dist = res.distribution
    done = chains = 0
    twins_bad: List[str] = []
    for i in range(n):
        rng = make_rng(ctx.seed, f"C02/glue-adapter/{i}")
        nt = int(rng.integers(2, 6))
        ds, desc = tvdata.draw_case(rng, small=True, force={"NT": nt})
        files = tvdata.case_files(ds)
        files = tvdata.with_settings(files, {"qha": {"settings": {"DT_SAMPLE": 2.0 * float(desc["DT"])}}})
        qd = qha_direct_ext(files)
        try:
            ad = build_adapter(files)
        except Exception as e:
            ad = None
            res.oracle_failures.append(OracleFailure(what=f"the adapter cannot be built on a data set the qha package accepts: {type(e).__name__}",
                                                     input={"adapter_files": files, "objects": True, "desc": jsonable_desc(desc)}, observed=repr(e)[:200],
                                                     expected="QHACalculatorAdapter", site="C02:adapter:construct"))
        if ad is not None:
            fs_all = adapter_objects_oracle(files, qd=qd, adapter=ad)
            for f in [f for f in fs_all if f.get("identity")][:3]:
                res.disagreements.append(Disagreement(op="c02.chain", input={"check": f["check"], "desc": jsonable_desc(desc)}, impl=f["observed"], model=f["expected"],
                                                      note="object graph of the translated adapter: one object per adapter, made at construction"))
            fs = [f for f in fs_all if not f.get("identity")]
            for f in fs[:3]:
                res.oracle_failures.append(OracleFailure(
                    what=f"the adapter's {f['check']} is not what the QHA layer computes on its own (T,V) grid",
                    input={"adapter_files": files, "objects": True, "desc": jsonable_desc(desc)}, observed=f["observed"], expected=f["expected"],
                    site=f"C02:adapter:{f['check'].split()[0]}"))
            if not fs_all: res.traces_validated += 12
            if i == 0:
                chains += chain_correspondence(ctx, res, ad)
        res.evaluations += 12
        done += 1
        twins_bad += qha_unit_twins(qd, dist.get("codata_edition_matched") or "2022")
    for t in sorted(set(twins_bad)):
        res.contract_failures.append(t)
    dist["glue_adapter_cases"] = done
    dist["glue_chain_reads"] = chains


def run(ctx: Ctx) -> Result:
    # correspondence (gap / adia fields) + oracle of the gap on the non-shear classes
    res = c01.run(ctx, which=WHICH, pid=PID, fields=("gap", "adia", "iso"))
    rng = ctx.rng
    thorough = ctx.thorough()
    t0 = time.time()
    n_tl = 40 if thorough else 8
    dist = res.distribution
    dist["tasklist_cases"] = 0
    dist["shear_keys_checked"] = 0
    dist["T0_rows_checked"] = 0
    for idx in range(n_tl):
        if time.time() - t0 > (240.0 if thorough else 25.0) and idx >= 3:
            res.notes.append(f"task-list stream stopped after {idx} cases (time budget)")
            break
        par = c01.analytic_params(rng, thorough, "small" if idx % 2 == 0 else "any")
        if par["nq"] * par["na"] > 24:          # keep the mpmath part cheap here; large spectra are in the main stream
            par = c01.analytic_params(rng, thorough, "small")
        d = c01.oracle_derivs(par)
        bad = check_tasklist(par, d) + extra_clauses(par, d)
        res.evaluations += 21
        dist["tasklist_cases"] += 1
        dist["shear_keys_checked"] += 15
        dist["T0_rows_checked"] += int(sum(1 for x in par["t"] if x == 0.0)) * len(c01.COMPONENTS)
        if not bad:
            res.traces_validated += 21
        for b in bad[:2]:
            res.oracle_failures.append(_failure(par, b))
        if len(res.oracle_failures) >= 3:
            break
        if idx == 0:
            out = tasklist_results(par)
            res.samples.append({"tasklist": {"nq": par["nq"], "na": par["na"], "t": par["t"], "v": par["v"]},
                                "c44_isothermal": out["44"][0].tolist(), "c44_adiabatic": out["44"][1].tolist(),
                                "c11_adia_minus_iso": (out["11"][1] - out["11"][0]).tolist()})
    adapter_cases(ctx, res, 8 if thorough else 3)
    # glue of qha_adapter.py / units.py
    units_stream(ctx, res)
    volcheck_stream(ctx, res, 120 if thorough else 40)
    glue_adapter_cases(ctx, res, 6 if thorough else 2)
    res.distinct_nontrivial += dist["tasklist_cases"] + dist.get("adapter_e2e_cases", 0) + dist.get("glue_adapter_cases", 0)
    res.rule += ("; end-to-end adapter cases = one synthetic data set each through the real Calculator, gap compared with the formula "
                 "built from the qha package's own C_V(T,V), the harness' per-mode fit and CODATA constants"
                 "; glue adapter cases = one synthetic data set each (DT_SAMPLE = 2 DT) on which the real QHACalculatorAdapter is compared "
                 "field by field with the qha package run directly; unit helpers, convert_unit calls, volume lists and chain reads are "
                 "counted in evaluations only"
                 "; C02 additionally: task-list cases = one analytic spectrum each pushed through the real "
                 "PhononContributionTaskList for all 21 keys (15 shear keys compared exactly, 6 non-shear keys against the "
                 "mpmath mixed derivative)")
    return res


def search(ctx: Ctx, res: Result) -> List[OracleFailure]:
    out = c01.search(ctx, res, which=WHICH, pid=PID)
    if out:
        return out
    t0 = time.time()
    n = 0
    while time.time() - t0 < 40.0 and n < 40:
        par = c01.analytic_params(ctx.rng, ctx.thorough(), "small")
        d = c01.oracle_derivs(par)
        bad = check_tasklist(par, d) + extra_clauses(par, d)
        n += 1
        if bad:
            return [_failure(par, bad[0])]
    res.notes.append(f"search: {n} further task-list cases")
    return []


def replay(ctx: Ctx, payload) -> List[OracleFailure]:
    if payload.get("glue") == "units":
        return [f for f in units_oracle([payload["helper"]]) if payload["helper"] in PRESSURE_HELPERS]
    if "adapter_files" in payload and payload.get("objects"):
        return [OracleFailure(what=f"the adapter's {f['check']} is not what the QHA layer computes on its own (T,V) grid", input=payload,
                              observed=f["observed"], expected=f["expected"], site=f"C02:adapter:{f['check'].split()[0]}")
                for f in adapter_objects_oracle(payload["adapter_files"]) if not f.get("identity")]
    if "adapter_files" in payload:
        return [OracleFailure(what=f"end to end: {f['check']} of c{f['key']}", input=payload, observed=f["observed"], expected=f["expected"],
                              site=f"C02:adapter:{f['check']}") for f in adapter_oracle(payload["adapter_files"]) if not f.get("identity")]
    if payload.get("tasklist"):
        par = payload["par"]
        d = c01.oracle_derivs(par)
        bad = [b for b in check_tasklist(par, d) if b[1] == payload.get("key", b[1])]
        return [_failure(par, b) for b in bad]
    if "par" in payload:
        par = payload["par"]
        fails = c01.replay(ctx, payload, which=WHICH, pid=PID)
        if not fails and payload.get("field") == "gap":
            d = c01.oracle_derivs(par)
            fails = [_failure(par, b) for b in extra_clauses(par, d)
                     if b[0] == payload.get("kind") and list(b[1]) == list(payload.get("ij"))]
        return fails
    return c01.replay(ctx, payload, which=WHICH, pid=PID)
