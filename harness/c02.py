"""C02 — adiabatic − isothermal gap = T V (dP_ph/dT)^2 / (9 e_i e_j C_V); zero for shear and at T = 0.

Shares the stub calculator, the generators and the mpmath free-energy oracle with `harness/c01.py`:

* IMPL    `isothermal_to_adiabatic`, `value_adiabatic - value_isothermal` of the real non-shear classes, and all 21
          components through the real `PhononContributionTaskList` (resolve + calculate) on a duck-typed calculator;
* MODEL   `isoToAdia…`, `valueAdiabatic…` of `CijModel/NonShear.lean` at Float (ops "c01.long"/"c01.off", fields
          gap/adia), rel 1e-9 of the family scale;
* ORACLE  dP_ph/dT = -d2F_ph/dTdV by mpmath numerical differentiation (40 digits) of the free energy of an analytic
          spectrum, CODATA constants of its own; the claimed gap with the *supplied* random positive C_V; sign on the
          diagonal; exact zero in T = 0 rows; exact equality adiabatic == isothermal for every key with a Voigt index 4-6.
"""
from __future__ import annotations

import time
from typing import Any, Dict, List

import numpy

from harness import c01
from harness.common import Ctx, Result, Disagreement, OracleFailure, family_close

ASSUMPTIONS = c01.ASSUMPTIONS + [
    "C_V is an arbitrary positive field supplied by the QHA layer (generated: 3 N k_B x U(0.2, 3)); the relation of qha's "
    "C_V to the spectrum is not part of C02",
    "shear components are evaluated through the real PhononContributionTaskList with numpy.linalg.eigh rotations "
    "(contract of C03); here only adiabatic == isothermal is checked for them",
]
TRUSTED_EXTRA = c01.TRUSTED_EXTRA

PID = "C02"
WHICH = ("gap", "gapdiff")


# --------------------------------------------------------------------------------------------- task list on a stub
def tasklist_results(par) -> Dict[str, Any]:
    """All 21 keys through the real task list; returns {key: (isothermal, adiabatic)} as arrays."""
    from cij.util import c_
    from cij.core.tasks import PhononContributionTaskList
    case = c01.build_case(par)
    calc = c01.make_stub(case)
    keys = [c_(i, j) for i in range(1, 7) for j in range(i, 7)]
    strain = numpy.array(par["e"], dtype=float)
    with numpy.errstate(all="ignore"):
        tl = PhononContributionTaskList(calc)
        tl.resolve(strain, keys)
        tl.calculate()
        iso = tl.get_isothermal_results()
        adia = tl.get_adiabatic_results()
    return {"".join(map(str, k.v)): (numpy.array(iso[k], dtype=float), numpy.array(adia[k], dtype=float)) for k in keys}


def check_tasklist(par, derivs=None) -> List[tuple]:
    """Property clauses on the task-list outputs: shear keys equal exactly; non-shear keys carry the gap formula."""
    out = tasklist_results(par)
    d = derivs if derivs is not None else c01.oracle_derivs(par)
    bad = []
    for key, (iso, adia) in out.items():
        i, j = int(key[0]), int(key[1])
        if j >= 4 or i >= 4:
            if not numpy.array_equal(iso, adia, equal_nan=True):
                bad.append(("shear", key, "adia==iso", adia - iso, numpy.zeros_like(iso),
                            float(numpy.nanmax(numpy.abs(adia - iso)))))
            continue
        kind = "long" if i == j else "off"
        exp = c01.oracle_expected(par, kind, (i - 1, j - 1), d)
        sc_gap = float(max(numpy.max(numpy.abs(exp["gap"])), 1e-300))
        sc_all = float(max(numpy.max(numpy.abs(exp["iso"])), numpy.max(numpy.abs(numpy.array(par["P"]))),
                           numpy.max(numpy.abs(numpy.array(par["pst"]))), 1e-300))
        ok, err, _ = family_close(adia - iso, exp["gap"], rtol=c01.RTOL_ORACLE, atol=1e-12 * sc_all, scale=sc_gap)
        if not ok:
            bad.append((kind, key, "tasklist adia-iso", adia - iso, exp["gap"], err))
        ok, err, _ = family_close(iso, exp["iso"], rtol=c01.RTOL_ORACLE, scale=sc_all)
        if not ok:
            bad.append((kind, key, "tasklist iso", iso, exp["iso"], err))
    return bad


def extra_clauses(par, derivs) -> List[tuple]:
    """sign on the diagonal and exact zeros in T = 0 rows, on the real classes."""
    case = c01.build_case(par)
    bad = []
    t = numpy.array(par["t"], dtype=float)
    for kind, ij in c01.COMPONENTS:
        impl = c01.run_impl(case, kind, ij)
        z = (t == 0)
        if z.any():
            if numpy.any(impl["gap"][z] != 0) or not numpy.array_equal(impl["adia"][z], impl["iso"][z]):
                bad.append((kind, list(ij), "gap", impl["gap"], numpy.where(z[:, None], 0.0, impl["gap"]), float("inf")))
        if kind == "long" and numpy.any(impl["gap"] < 0):
            bad.append((kind, list(ij), "gap", impl["gap"], numpy.abs(impl["gap"]), float("inf")))
    return bad


def _failure(par, b) -> OracleFailure:
    kind, key, what, obs, exp, err = b
    if kind == "shear":
        return OracleFailure(what=f"c{key}: adiabatic != isothermal for a component with a Voigt index 4-6 (max diff {err:.3g})",
                             input={"par": par, "tasklist": True, "key": key}, observed=numpy.asarray(obs).tolist(),
                             expected=numpy.asarray(exp).tolist(), site=f"C02:shear:{key}")
    if isinstance(what, str) and what.startswith("tasklist"):
        return OracleFailure(what=f"c{key} through PhononContributionTaskList: {what} differs from the formula (rel {err:.3g})",
                             input={"par": par, "tasklist": True, "key": key}, observed=numpy.asarray(obs).tolist(),
                             expected=numpy.asarray(exp).tolist(), site=f"C02:tasklist:{kind}:{what.split()[-1]}")
    return c01.failure_from(par, b, PID)


def run(ctx: Ctx) -> Result:
    # correspondence (gap / adia fields) + oracle of the gap on the non-shear classes
    res = c01.run(ctx, which=WHICH, pid=PID, fields=("gap", "adia", "iso"))
    rng = ctx.rng
    thorough = ctx.thorough()
    t0 = time.time()
    n_tl = 40 if thorough else 8
    dist = res.distribution
    dist["tasklist_cases"] = 0
    dist["shear_keys_checked"] = 0
    dist["T0_rows_checked"] = 0
    for idx in range(n_tl):
        if time.time() - t0 > (240.0 if thorough else 25.0) and idx >= 3:
            res.notes.append(f"task-list stream stopped after {idx} cases (time budget)")
            break
        par = c01.analytic_params(rng, thorough, "small" if idx % 2 == 0 else "any")
        if par["nq"] * par["na"] > 24:          # keep the mpmath part cheap here; large spectra are in the main stream
            par = c01.analytic_params(rng, thorough, "small")
        d = c01.oracle_derivs(par)
        bad = check_tasklist(par, d) + extra_clauses(par, d)
        res.evaluations += 21
        dist["tasklist_cases"] += 1
        dist["shear_keys_checked"] += 15
        dist["T0_rows_checked"] += int(sum(1 for x in par["t"] if x == 0.0)) * len(c01.COMPONENTS)
        if not bad:
            res.traces_validated += 21
        for b in bad[:2]:
            res.oracle_failures.append(_failure(par, b))
        if len(res.oracle_failures) >= 3:
            break
        if idx == 0:
            out = tasklist_results(par)
            res.samples.append({"tasklist": {"nq": par["nq"], "na": par["na"], "t": par["t"], "v": par["v"]},
                                "c44_isothermal": out["44"][0].tolist(), "c44_adiabatic": out["44"][1].tolist(),
                                "c11_adia_minus_iso": (out["11"][1] - out["11"][0]).tolist()})
    res.distinct_nontrivial += dist["tasklist_cases"]
    res.rule += ("; C02 additionally: task-list cases = one analytic spectrum each pushed through the real "
                 "PhononContributionTaskList for all 21 keys (15 shear keys compared exactly, 6 non-shear keys against the "
                 "mpmath mixed derivative)")
    return res


def search(ctx: Ctx, res: Result) -> List[OracleFailure]:
    out = c01.search(ctx, res, which=WHICH, pid=PID)
    if out:
        return out
    t0 = time.time()
    n = 0
    while time.time() - t0 < 40.0 and n < 40:
        par = c01.analytic_params(ctx.rng, ctx.thorough(), "small")
        d = c01.oracle_derivs(par)
        bad = check_tasklist(par, d) + extra_clauses(par, d)
        n += 1
        if bad:
            return [_failure(par, bad[0])]
    res.notes.append(f"search: {n} further task-list cases")
    return []


def replay(ctx: Ctx, payload) -> List[OracleFailure]:
    if payload.get("tasklist"):
        par = payload["par"]
        d = c01.oracle_derivs(par)
        bad = [b for b in check_tasklist(par, d) if b[1] == payload.get("key", b[1])]
        return [_failure(par, b) for b in bad]
    if "par" in payload:
        par = payload["par"]
        fails = c01.replay(ctx, payload, which=WHICH, pid=PID)
        if not fails and payload.get("field") == "gap":
            d = c01.oracle_derivs(par)
            fails = [_failure(par, b) for b in extra_clauses(par, d)
                     if b[0] == payload.get("kind") and list(b[1]) == list(payload.get("ij"))]
        return fails
    return c01.replay(ctx, payload, which=WHICH, pid=PID)
