"""C02 — adiabatic − isothermal gap = T V (dP_ph/dT)^2 / (9 e_i e_j C_V); zero for shear and at T = 0.

Shares the stub calculator, the generators and the mpmath free-energy oracle with `harness/c01.py`:

* IMPL    `isothermal_to_adiabatic`, `value_adiabatic - value_isothermal` of the real non-shear classes, and all 21
          components through the real `PhononContributionTaskList` (resolve + calculate) on a duck-typed calculator;
* MODEL   `isoToAdia…`, `valueAdiabatic…` of `CijModel/NonShear.lean` at Float (ops "c01.long"/"c01.off", fields
          gap/adia), rel 1e-9 of the family scale;
* ORACLE  dP_ph/dT = -d2F_ph/dTdV by mpmath numerical differentiation (40 digits) of the free energy of an analytic
          spectrum, CODATA constants of its own; the claimed gap with the *supplied* random positive C_V; sign on the
          diagonal; exact zero in T = 0 rows; exact equality adiabatic == isothermal for every key with a Voigt index 4-6.
"""
from __future__ import annotations

import time
from typing import Any, Dict, List

import numpy

from harness import c01
from harness.common import Ctx, Result, Disagreement, OracleFailure, family_close

ASSUMPTIONS = c01.ASSUMPTIONS + [
    "C_V is an arbitrary positive field supplied by the QHA layer (generated: 3 N k_B x U(0.2, 3)); the relation of qha's "
    "C_V to the spectrum is not part of C02",
    "shear components are evaluated through the real PhononContributionTaskList with numpy.linalg.eigh rotations "
    "(contract of C03); here only adiabatic == isothermal is checked for them",
]
TRUSTED_EXTRA = c01.TRUSTED_EXTRA

PID = "C02"
WHICH = ("gap", "gapdiff")


# --------------------------------------------------------------------------------------------- task list on a stub
def tasklist_results(par) -> Dict[str, Any]:
    """All 21 keys through the real task list; returns {key: (isothermal, adiabatic)} as arrays."""
    from cij.util import c_
    from cij.core.tasks import PhononContributionTaskList
    case = c01.build_case(par)
    calc = c01.make_stub(case)
    keys = [c_(i, j) for i in range(1, 7) for j in range(i, 7)]
    strain = numpy.array(par["e"], dtype=float)
    with numpy.errstate(all="ignore"):
        tl = PhononContributionTaskList(calc)
        tl.resolve(strain, keys)
        tl.calculate()
        iso = tl.get_isothermal_results()
        adia = tl.get_adiabatic_results()
    return {"".join(map(str, k.v)): (numpy.array(iso[k], dtype=float), numpy.array(adia[k], dtype=float)) for k in keys}


def check_tasklist(par, derivs=None) -> List[tuple]:
    """Property clauses on the task-list outputs: shear keys equal exactly; non-shear keys carry the gap formula."""
    out = tasklist_results(par)
    d = derivs if derivs is not None else c01.oracle_derivs(par)
    bad = []
    for key, (iso, adia) in out.items():
        i, j = int(key[0]), int(key[1])
        if j >= 4 or i >= 4:
            if not numpy.array_equal(iso, adia, equal_nan=True):
                bad.append(("shear", key, "adia==iso", adia - iso, numpy.zeros_like(iso),
                            float(numpy.nanmax(numpy.abs(adia - iso)))))
            continue
        kind = "long" if i == j else "off"
        exp = c01.oracle_expected(par, kind, (i - 1, j - 1), d)
        sc_gap = float(max(numpy.max(numpy.abs(exp["gap"])), 1e-300))
        sc_all = float(max(numpy.max(numpy.abs(exp["iso"])), numpy.max(numpy.abs(numpy.array(par["P"]))),
                           numpy.max(numpy.abs(numpy.array(par["pst"]))), 1e-300))
        ok, err, _ = family_close(adia - iso, exp["gap"], rtol=c01.RTOL_ORACLE, atol=1e-12 * sc_all, scale=sc_gap)
        if not ok:
            bad.append((kind, key, "tasklist adia-iso", adia - iso, exp["gap"], err))
        ok, err, _ = family_close(iso, exp["iso"], rtol=c01.RTOL_ORACLE, scale=sc_all)
        if not ok:
            bad.append((kind, key, "tasklist iso", iso, exp["iso"], err))
    return bad


def extra_clauses(par, derivs) -> List[tuple]:
    """sign on the diagonal and exact zeros in T = 0 rows, on the real classes."""
    case = c01.build_case(par)
    bad = []
    t = numpy.array(par["t"], dtype=float)
    for kind, ij in c01.COMPONENTS:
        impl = c01.run_impl(case, kind, ij)
        z = (t == 0)
        if z.any():
            if numpy.any(impl["gap"][z] != 0) or not numpy.array_equal(impl["adia"][z], impl["iso"][z]):
                bad.append((kind, list(ij), "gap", impl["gap"], numpy.where(z[:, None], 0.0, impl["gap"]), float("inf")))
        if kind == "long" and numpy.any(impl["gap"] < 0):
            bad.append((kind, list(ij), "gap", impl["gap"], numpy.abs(impl["gap"]), float("inf")))
    return bad


def _failure(par, b) -> OracleFailure:
    kind, key, what, obs, exp, err = b
    if kind == "shear":
        return OracleFailure(what=f"c{key}: adiabatic != isothermal for a component with a Voigt index 4-6 (max diff {err:.3g})",
                             input={"par": par, "tasklist": True, "key": key}, observed=numpy.asarray(obs).tolist(),
                             expected=numpy.asarray(exp).tolist(), site=f"C02:shear:{key}")
    if isinstance(what, str) and what.startswith("tasklist"):
        return OracleFailure(what=f"c{key} through PhononContributionTaskList: {what} differs from the formula (rel {err:.3g})",
                             input={"par": par, "tasklist": True, "key": key}, observed=numpy.asarray(obs).tolist(),
                             expected=numpy.asarray(exp).tolist(), site=f"C02:tasklist:{kind}:{what.split()[-1]}")
    return c01.failure_from(par, b, PID)



# --------------------------------------------------------------------------------------------- end to end: the QHA layer's C_V
def adapter_oracle(files) -> List[dict]:
    """`Calculator.modulus_adiabatic[key] − Calculator.modulus_isothermal[key]` (second observation point of the statement) on the
    real Calculator for a synthetic data set, against T·V·(∂P_ph/∂T)²/(9 e_i e_j C_V) with
      * C_V(T,V) from the qha package run directly on the phonon file (tvdata.qha_direct: "the heat capacity handed over by the
        QHA layer" — no cij adapter code in between),
      * ∂P_ph/∂T = (1/V) Σ_q ŵ_q Σ_m γ_qm k_B x² eˣ/(eˣ−1)², x = hcω̃/k_BT, from the harness' own per-mode fit of the files
        (c05.reference_from_files) and scipy's CODATA constants; Γ-acoustic slots skipped,
      * e_i: equal thirds without a lattice block, else the fractions the run used (C05 checks those against the lattice columns).
    Also: the C_V array the adapter hands over IS qha's (T,V) field."""
    from harness import tvdata, c05
    import scipy.constants as sc
    fails: List[dict] = []
    run = tvdata.Run(files)
    if run.error is not None:
        return fails                                   # a data set the Calculator refuses is C05/C12's subject
    calc = run.calc
    ref = c05.reference_from_files(files)
    if ref["modes"] is None:
        return fails
    qd = tvdata.qha_direct(files)
    with tvdata.quiet():
        cv_handed = numpy.array(calc.qha_calculator.volume_base.heat_capacity)
        keys = {tuple(k.v): k for k in calc.modulus_keys}
        gaps = {kv: numpy.array(calc.modulus_adiabatic[k]) - numpy.array(calc.modulus_isothermal[k]) for kv, k in keys.items()}
        ax_used = numpy.array(calc._full_modulus.get_axial_strains(), dtype=float)
    if cv_handed.shape != qd["cv_tv_au"].shape or not family_close(cv_handed, qd["cv_tv_au"], rtol=1e-10)[0]:
        fails.append({"check": "heat_capacity", "key": None, "observed": cv_handed[min(1, len(cv_handed) - 1), :4].tolist(),
                      "expected": qd["cv_tv_au"][min(1, len(cv_handed) - 1), :4].tolist()})
    ry_j, _ = tvdata.codata()
    kb = sc.k / ry_j                                    # Ry / K
    inp = tvdata.parse_input01(files[ref["settings"]["input"]])
    wq = numpy.asarray(inp["weights"], dtype=float); wq = wq / wq.sum()
    t = ref["t_array"]; va = ref["v_array"]
    w = ref["modes"]["freq"]; g = ref["modes"]["gamma"]             # (ntv, nq, np)
    mask = numpy.ones(w.shape[1:], dtype=bool); mask[0, :3] = False
    dpdt = numpy.zeros((len(t), len(va)))
    for it, tt in enumerate(t):
        if tt == 0: continue
        x = sc.h * sc.c * 100.0 * w / (sc.k * tt)
        with numpy.errstate(all="ignore"):
            cvm = numpy.where(mask[None], kb * x * x * numpy.exp(-x) / numpy.expm1(-x) ** 2, 0.0)
        cvm = numpy.nan_to_num(cvm)
        dpdt[it] = numpy.einsum("q,vqm->v", wq, g * cvm) / va
    # strain fractions: equal thirds without a lattice block; with one, the fractions the run used (their relation to the lattice
    # columns is C05's clause, checked there at the discretisation tolerance of numpy.gradient)
    axial = ax_used / ax_used.sum(axis=1, keepdims=True) if ref["axial"] is not None else numpy.full((len(va), 3), 1.0 / 3.0)
    cv = qd["cv_tv_au"]
    for (i, j), gap in gaps.items():
        if i > 3 or j > 3:
            if numpy.any(gap != 0):
                fails.append({"check": "shear_gap", "key": f"{i}{j}", "observed": float(numpy.max(numpy.abs(gap))), "expected": 0.0})
            continue
        with numpy.errstate(all="ignore"):
            exp = t[:, None] * va[None] * dpdt ** 2 / (9.0 * axial[None, :, i - 1] * axial[None, :, j - 1] * cv)
        exp[t == 0] = 0.0
        # quantifier: positive heat-capacity fields.  Points where the QHA layer's C_V is not positive (T = 0 aside) — e.g. a data set
        # with one q-point and one atom, whose only modes are the Γ-acoustic ones — are outside it and are not compared.
        inq = (cv > 0) | (t == 0)[:, None]
        if gap.shape != exp.shape:
            fails.append({"check": "gap_e2e", "key": f"{i}{j}", "observed": list(gap.shape), "expected": list(exp.shape)}); continue
        if not inq.any(): continue
        g_in, e_in = numpy.where(inq, gap, 0.0), numpy.where(inq, exp, 0.0)
        sc_ = float(numpy.max(numpy.abs(e_in))) or 1.0
        ok, err, _ = family_close(g_in, e_in, rtol=1e-5, scale=sc_)
        if not ok:
            fails.append({"check": "gap_e2e", "key": f"{i}{j}", "observed": gap[min(2, len(t) - 1), :4].tolist(),
                          "expected": exp[min(2, len(t) - 1), :4].tolist(), "rel": err})
        if numpy.any(gap[t == 0] != 0):
            fails.append({"check": "gap_T0", "key": f"{i}{j}", "observed": gap[t == 0][0, :4].tolist(), "expected": 0.0})
    return fails


def adapter_cases(ctx: Ctx, res: Result, n: int):
    from harness import tvdata
    from harness.common import make_rng
    done = 0
    for i in range(n):
        rng = make_rng(ctx.seed, f"C02/adapter/{i}")
        ds, desc = tvdata.draw_case(rng, small=True, force={"NT": int(rng.integers(2, 5))})
        files = tvdata.case_files(ds)
        fs = adapter_oracle(files)
        done += 1
        res.evaluations += 1
        for f in fs[:3]:
            res.oracle_failures.append(OracleFailure(
                what=f"end to end: {f['check']} of c{f['key']} differs from T V (dP/dT)^2/(9 e_i e_j C_V) with the QHA layer's C_V"
                     if f["check"] != "heat_capacity" else "the heat capacity handed over by the adapter is not the QHA layer's C_V(T,V)",
                input={"adapter_files": files, "desc": jsonable_desc(desc)}, observed=f["observed"], expected=f["expected"],
                site=f"C02:adapter:{f['check']}"))
    res.distribution["adapter_e2e_cases"] = done


def jsonable_desc(d):
    from harness.common import jsonable
    return jsonable(d)


def run(ctx: Ctx) -> Result:
    # correspondence (gap / adia fields) + oracle of the gap on the non-shear classes
    res = c01.run(ctx, which=WHICH, pid=PID, fields=("gap", "adia", "iso"))
    rng = ctx.rng
    thorough = ctx.thorough()
    t0 = time.time()
    n_tl = 40 if thorough else 8
    dist = res.distribution
    dist["tasklist_cases"] = 0
    dist["shear_keys_checked"] = 0
    dist["T0_rows_checked"] = 0
    for idx in range(n_tl):
        if time.time() - t0 > (240.0 if thorough else 25.0) and idx >= 3:
            res.notes.append(f"task-list stream stopped after {idx} cases (time budget)")
            break
        par = c01.analytic_params(rng, thorough, "small" if idx % 2 == 0 else "any")
        if par["nq"] * par["na"] > 24:          # keep the mpmath part cheap here; large spectra are in the main stream
            par = c01.analytic_params(rng, thorough, "small")
        d = c01.oracle_derivs(par)
        bad = check_tasklist(par, d) + extra_clauses(par, d)
        res.evaluations += 21
        dist["tasklist_cases"] += 1
        dist["shear_keys_checked"] += 15
        dist["T0_rows_checked"] += int(sum(1 for x in par["t"] if x == 0.0)) * len(c01.COMPONENTS)
        if not bad:
            res.traces_validated += 21
        for b in bad[:2]:
            res.oracle_failures.append(_failure(par, b))
        if len(res.oracle_failures) >= 3:
            break
        if idx == 0:
            out = tasklist_results(par)
            res.samples.append({"tasklist": {"nq": par["nq"], "na": par["na"], "t": par["t"], "v": par["v"]},
                                "c44_isothermal": out["44"][0].tolist(), "c44_adiabatic": out["44"][1].tolist(),
                                "c11_adia_minus_iso": (out["11"][1] - out["11"][0]).tolist()})
    adapter_cases(ctx, res, 8 if thorough else 3)
    res.distinct_nontrivial += dist["tasklist_cases"] + dist.get("adapter_e2e_cases", 0)
    res.rule += ("; end-to-end adapter cases = one synthetic data set each through the real Calculator, gap compared with the formula "
                 "built from the qha package's own C_V(T,V), the harness' per-mode fit and CODATA constants"
                 "; C02 additionally: task-list cases = one analytic spectrum each pushed through the real "
                 "PhononContributionTaskList for all 21 keys (15 shear keys compared exactly, 6 non-shear keys against the "
                 "mpmath mixed derivative)")
    return res


def search(ctx: Ctx, res: Result) -> List[OracleFailure]:
    out = c01.search(ctx, res, which=WHICH, pid=PID)
    if out:
        return out
    t0 = time.time()
    n = 0
    while time.time() - t0 < 40.0 and n < 40:
        par = c01.analytic_params(ctx.rng, ctx.thorough(), "small")
        d = c01.oracle_derivs(par)
        bad = check_tasklist(par, d) + extra_clauses(par, d)
        n += 1
        if bad:
            return [_failure(par, bad[0])]
    res.notes.append(f"search: {n} further task-list cases")
    return []


def replay(ctx: Ctx, payload) -> List[OracleFailure]:
    if "adapter_files" in payload:
        return [OracleFailure(what=f"end to end: {f['check']} of c{f['key']}", input=payload, observed=f["observed"], expected=f["expected"],
                              site=f"C02:adapter:{f['check']}") for f in adapter_oracle(payload["adapter_files"])]
    if payload.get("tasklist"):
        par = payload["par"]
        d = c01.oracle_derivs(par)
        bad = [b for b in check_tasklist(par, d) if b[1] == payload.get("key", b[1])]
        return [_failure(par, b) for b in bad]
    if "par" in payload:
        par = payload["par"]
        fails = c01.replay(ctx, payload, which=WHICH, pid=PID)
        if not fails and payload.get("field") == "gap":
            d = c01.oracle_derivs(par)
            fails = [_failure(par, b) for b in extra_clauses(par, d)
                     if b[0] == payload.get("kind") and list(b[1]) == list(payload.get("ij"))]
        return fails
    return c01.replay(ctx, payload, which=WHICH, pid=PID)
