"""C17 — input files round-trip: phonon data write/read, static table parse, `cij fill` output.

Three streams, each with (a) correspondence of the real code with the Lean model (`c17.*` ops, exact decimal
arithmetic over Rat, tokens compared literally) and (b) an oracle that is independent of both: THE GENERATING DATA
(the numbers / the text the harness itself produced):

  energy : random data sets -> REAL write_energy -> file -> REAL read_energy; every field compared with the
           generating number (|Δ| <= 1/2 unit of the printed precision), counts, order, weight/q-point pairing.
  elast  : random static tables (component subset, column order, prefix / case / 2- and 4-index spellings,
           with and without lattice block) written by the harness -> REAL read_elast_data; compared with the
           printed tokens keyed by the harness' own canonical Voigt pair.
  fill   : `cij fill -s SYSTEM FILE` through click's CliRunner for all nine systems; header lines / tail text
           literally preserved, output re-parsed by read_elast_data and compared with
           apply_symetry_on_elast_data(read_elast_data(input)), volumes and given components with the generating data.
A separate malformed / variant stream (blank lines, `weights`, junk before the header, missing lines, bad names…)
is compared model-vs-code only.
"""
from __future__ import annotations

import copy
import io
import os
import shutil
import tempfile
from fractions import Fraction

import numpy

from harness.common import Ctx, Result, Disagreement, OracleFailure, f2b

ASSUMPTIONS = [
    "phonon data sets: counts 1-12 volumes, 1-10 q-points, 3-60 modes, finite values |x| <= 1e5 of either sign (the property's range); nm, na natural numbers; the default comment line",
    "CPython's %-formatting / float() are correctly rounded (round-half-even on the exact binary value); the model's decimal arithmetic is compared token by token with what the real writer printed on every case",
    "static tables: numeric tokens in plain or exponent decimal notation (no nan/inf/underscores); column names = digit-free prefix + 2 Voigt or 4 standard indices",
    "fill command: tables whose columns are named cIJ / CIJ with decimal-point literals, a sufficient independent component set of the system; pandas' to_string prints 6 decimals (values < 1e6, no scientific notation)",
    "every Python exception type counts as 'rejected' ('error')",
]
TRUSTED_EXTRA = [
    "C17: character-level lexing (strip/split, the regex engine), printf/float() and pandas' read_table/to_string are outside the Lean model (tested through the real functions on every case, not proved)",
    "C17: fill_cij itself is a parameter of the model (owned by C08/C09); the harness passes the real function's result",
]

SYSTEMS = ["triclinic", "monoclinic", "orthorhombic", "tetragonal7", "tetragonal6", "trigonal7", "trigonal6",
           "hexagonal", "cubic"]
# a sufficient independent component set per system (standard setting of cij/data/constraints) — harness' own copy
INDEPENDENT = {
    "triclinic": ["11", "12", "13", "14", "15", "16", "22", "23", "24", "25", "26", "33", "34", "35", "36",
                  "44", "45", "46", "55", "56", "66"],
    "monoclinic": ["11", "12", "13", "15", "22", "23", "25", "33", "35", "44", "46", "55", "66"],
    "orthorhombic": ["11", "12", "13", "22", "23", "33", "44", "55", "66"],
    "tetragonal7": ["11", "12", "13", "16", "33", "44", "66"],
    "tetragonal6": ["11", "12", "13", "33", "44", "66"],
    "trigonal7": ["11", "12", "13", "14", "15", "33", "44"],
    "trigonal6": ["11", "12", "13", "14", "33", "44"],
    "hexagonal": ["11", "12", "13", "33", "44"],
    "cubic": ["11", "12", "44"],
}
VOIGT_OF = {(1, 1): 1, (2, 2): 2, (3, 3): 3, (2, 3): 4, (3, 2): 4, (1, 3): 5, (3, 1): 5, (1, 2): 6, (2, 1): 6}
STD_OF = {1: [(1, 1)], 2: [(2, 2)], 3: [(3, 3)], 4: [(2, 3), (3, 2)], 5: [(1, 3), (3, 1)], 6: [(1, 2), (2, 1)]}
HALF = Fraction(1, 2)


# ===================================================================================== helpers
def _tokens(text: str):
    """file text -> list of token lists (what `line.strip().split()` gives per line)"""
    lines = text.split("\n")
    if lines and lines[-1] == "":
        lines = lines[:-1]
    return [l.split() for l in lines]


def _canon_tok(t: str) -> str:
    """'-0.000000' and '0.000000' denote the same number (a float -0.0 has no rational counterpart)"""
    if t.startswith("-") and t[1:].replace(".", "").strip("0") == "" and len(t) > 1:
        return t[1:]
    return t


def _fr(r):
    return Fraction(int(r[0]), int(r[1]))


def _rat_to_float(r):
    return float(_fr(r))


def _tol(k, x):
    """half a unit of the k-th decimal + the double-rounding slack of reading the decimal back"""
    return HALF / 10 ** k + abs(Fraction(x)) / 2 ** 51 + Fraction(1, 10 ** 300)


# ===================================================================================== energy stream
def rand_value(rng: numpy.random.Generator) -> float:
    u = rng.random()
    s = 1.0 if rng.random() < 0.5 else -1.0
    if u < 0.45:
        return float(s * 10.0 ** rng.uniform(-4.0, 5.0))
    if u < 0.65:
        return float(rng.uniform(-1e5, 1e5))
    if u < 0.70:
        return 0.0
    if u < 0.75:
        return float(s * 1e5)
    if u < 0.80:
        return float(s * (1e5 - 10.0 ** rng.uniform(-7.0, -1.0)))       # just inside the range boundary
    if u < 0.85:
        return float(s * 10.0 ** rng.uniform(-10.0, -6.0))               # rounds to (-)0.000000
    if u < 0.92:
        return float(s * int(rng.integers(0, 2 ** 20)) / 2.0 ** int(rng.integers(5, 12)))   # dyadic: exact ties possible
    return float(round(s * 10.0 ** rng.uniform(-2.0, 5.0), int(rng.integers(0, 7))))


def gen_energy_case(rng, nv, nq, np_):
    vols = []
    for _ in range(nv):
        qs = [[[rand_value(rng) for _ in range(3)], [rand_value(rng) for _ in range(np_)]] for _ in range(nq)]
        vols.append([rand_value(rng), rand_value(rng), rand_value(rng), qs])
    weights = [[[rand_value(rng) for _ in range(3)], rand_value(rng)] for _ in range(nq)]
    return {"nv": nv, "nq": nq, "np": np_, "nm": int(rng.integers(0, 200)), "na": int(rng.integers(1, 21)),
            "weights": weights, "volumes": vols}


def _to_impl(case):
    from cij.io.traditional.qha_input import QHAInputData, VolumeData, QPointData, QPointWeight
    vols = [VolumeData(p, v, e, [QPointData(tuple(c), list(m)) for c, m in qs]) for p, v, e, qs in case["volumes"]]
    ws = [QPointWeight(tuple(c), w) for c, w in case["weights"]]
    return QHAInputData(case["nv"], case["nq"], case["np"], case["nm"], case["na"], ws, vols)


def _from_impl(r):
    return {"nv": r.nv, "nq": r.nq, "np": r.np, "nm": r.nm, "na": r.na,
            "weights": [[list(w[0]), w[1]] for w in r.weights],
            "volumes": [[v[0], v[1], v[2], [[list(q[0]), list(q[1])] for q in v[3]]] for v in r.volumes]}


def _enc_case(case):
    return {"nv": case["nv"], "nq": case["nq"], "np": case["np"], "nm": case["nm"], "na": case["na"],
            "weights": [[[f2b(x) for x in c], f2b(w)] for c, w in case["weights"]],
            "volumes": [[f2b(p), f2b(v), f2b(e), [[[f2b(x) for x in c], [f2b(x) for x in m]] for c, m in qs]]
                        for p, v, e, qs in case["volumes"]]}


def _model_data_to_float(m):
    return {"nv": m["nv"], "nq": m["nq"], "np": m["np"], "nm": m["nm"], "na": m["na"],
            "weights": [[[_rat_to_float(x) for x in c], _rat_to_float(w)] for c, w in m["weights"]],
            "volumes": [[_rat_to_float(p), _rat_to_float(v), _rat_to_float(e),
                         [[[_rat_to_float(x) for x in c], [_rat_to_float(x) for x in ms]] for c, ms in qs]]
                        for p, v, e, qs in m["volumes"]]}


def real_write_read(case, tmp):
    """REAL write_energy then REAL read_energy. returns (text | None, parsed dict | 'error:..')"""
    from cij.io.traditional.qha_input import write_energy, read_energy
    path = os.path.join(tmp, "input01")
    try:
        write_energy(path, _to_impl(case))
    except Exception as e:
        return None, "error:write:" + type(e).__name__
    text = open(path, encoding="utf8").read()
    try:
        r = read_energy(path)
    except Exception as e:
        return text, "error:read:" + type(e).__name__
    return text, _from_impl(r)


def oracle_energy(case, got):
    """the property on the real code's output vs THE GENERATING DATA. returns [(what, observed, expected)]"""
    if isinstance(got, str):
        return [("round trip raised", got, "a data set")]
    bad = []
    for k in ("nv", "nq", "np", "nm", "na"):
        if got[k] != case[k]:
            bad.append((f"count {k}", got[k], case[k]))
    if len(got["volumes"]) != case["nv"]:
        bad.append(("number of volumes", len(got["volumes"]), case["nv"]))
    if len(got["weights"]) != case["nq"]:
        bad.append(("number of weights", len(got["weights"]), case["nq"]))
    if bad:
        return bad

    def cmp(field, a, b, k):
        if not (abs(Fraction(a) - Fraction(b)) <= _tol(k, b)):
            bad.append((field, a, b))

    for iv, (g, c) in enumerate(zip(got["volumes"], case["volumes"])):
        cmp(f"pressure[{iv}]", g[0], c[0], 6); cmp(f"volume[{iv}]", g[1], c[1], 6); cmp(f"energy[{iv}]", g[2], c[2], 6)
        if len(g[3]) != case["nq"]:
            bad.append((f"q-points of volume {iv}", len(g[3]), case["nq"])); continue
        for iq, (gq, cq) in enumerate(zip(g[3], c[3])):
            if len(gq[0]) != len(cq[0]) or len(gq[1]) != len(cq[1]):
                bad.append((f"lengths at volume {iv} q {iq}", (len(gq[0]), len(gq[1])), (len(cq[0]), len(cq[1])))); continue
            for j, (a, b) in enumerate(zip(gq[0], cq[0])): cmp(f"coord[{iv}][{iq}][{j}]", a, b, 4)
            for j, (a, b) in enumerate(zip(gq[1], cq[1])): cmp(f"mode[{iv}][{iq}][{j}]", a, b, 6)
        if len(bad) > 5: break
    for iq, (g, c) in enumerate(zip(got["weights"], case["weights"])):
        if len(g[0]) != 3:
            bad.append((f"weight coord length {iq}", len(g[0]), 3)); continue
        for j, (a, b) in enumerate(zip(g[0], c[0])): cmp(f"weight coord[{iq}][{j}]", a, b, 6)
        cmp(f"weight[{iq}]", g[1], c[1], 6)
    return bad[:6]


def energy_variants(rng, text, case):
    """variant / malformed files derived from a really written file (correspondence only). yields (kind, text)"""
    lines = text.split("\n")[:-1]
    nq, np_ = case["nq"], case["np"]
    block = 1 + nq * (1 + np_)
    first = 5
    mark = lines.index("weight")
    out = []
    l = list(lines); l[mark] = "weights"; out.append(("weights-marker", l))
    l = list(lines); l[mark] = "  weight  "; out.append(("padded-marker", l))
    l = list(lines); l[mark] = "weight 1"; out.append(("marker-with-word", l))
    l = list(lines); l[mark:mark] = ["some text", "", "1 2 3"]; out.append(("junk-before-marker", l))
    l = list(lines)
    for iv in reversed(range(case["nv"])): l[first + iv * block: first + iv * block] = [""] * int(rng.integers(1, 4))
    out.append(("blank-lines-between-volumes", l))
    l = ["a title", "1 2 3", "1 2 3 4 5 6", "nv nq np nm na 1 2"] + list(lines); out.append(("junk-before-header", l))
    l = list(lines); l[3] = l[3] + " x"; out.append(("header-with-trailing-word", l))
    l = list(lines); l[3] = "\t" + l[3].replace(" ", "\t"); out.append(("header-tabs", l))
    l = list(lines); l[0] = "1 2 3 4 5"; out.append(("comment-is-five-ints", l))
    l = list(lines); l[first] = "data P= 1.5 V= 2.5 E= -3.5 trailing"; out.append(("pve-with-context", l))
    l = list(lines); l[first] = "Pressure= 1.5 V= 2.5 E= -3.5"; out.append(("pve-long-first-label", l))
    l = list(lines); l[first] = "P= 1.5 Vol= 2.5 E= -3.5"; out.append(("pve-long-second-label", l))
    l = list(lines); l[first] = "P=1.5 V= 2.5 E= -3.5"; out.append(("pve-no-space", l))
    l = list(lines); l[first] = "x= 1e3 y= .5 z= -2."; out.append(("pve-other-labels-notations", l))
    l = list(lines); del l[first + 2]; out.append(("one-mode-line-missing", l))
    l = list(lines); l.insert(first + 2, l[first + 2]); out.append(("one-mode-line-doubled", l))
    l = list(lines); l[first + 2] = l[first + 2] + " 7"; out.append(("mode-line-two-numbers", l))
    l = list(lines); l[first + 2] = ""; out.append(("mode-line-blank", l))
    l = list(lines); l[first + 1] = "0.5 0.25"; out.append(("coord-two-numbers", l))
    l = list(lines); l[first + 1] = "0.5 abc 1"; out.append(("coord-not-a-number", l))
    l = list(lines); del l[-1]; out.append(("last-weight-missing", l))
    l = list(lines); l[-1] = l[-1] + " 9 9"; out.append(("weight-line-extra-words", l))
    l = list(lines); l[-1] = " ".join(l[-1].split()[:3]); out.append(("weight-line-three-words", l))
    l = list(lines); del l[mark]; out.append(("no-marker", l))
    l = list(lines[:mark]); out.append(("truncated-before-marker", l))
    l = []; out.append(("empty-file", l))
    l = list(lines) + ["", "trailing text"]; out.append(("trailing-text", l))
    return [(k, "\n".join(v) + ("\n" if v else "")) for k, v in out]


def real_read_energy_text(text, tmp):
    from cij.io.traditional.qha_input import read_energy
    p = os.path.join(tmp, "variant01")
    with open(p, "w", encoding="utf8") as fp: fp.write(text)
    try:
        return _from_impl(read_energy(p))
    except Exception:
        return "error"


def run_energy(ctx: Ctx, res: Result, tmp, n_cases):
    rng = ctx.rng
    dist = res.distribution.setdefault("energy", {"cases": 0, "numbers": 0, "nv": {}, "nq": {}, "np_bins": {},
                                                  "wider_than_format": 0, "printed_as_zero": 0, "variants": {},
                                                  "variant_errors": 0, "variant_ok": 0})
    cases = []
    sizes = [(1, 1, 3), (12, 10, 60), (12, 1, 3), (1, 10, 60), (2, 2, 6)]
    for i in range(n_cases):
        if i < len(sizes): nv, nq, np_ = sizes[i]
        else: nv, nq, np_ = int(rng.integers(1, 13)), int(rng.integers(1, 11)), int(rng.integers(3, 61))
        cases.append(gen_energy_case(rng, nv, nq, np_))
    # model answers in one batch per few cases (keeps memory small)
    for ci, case in enumerate(cases):
        if ctx.time_left() < 60: res.notes.append("energy stream cut short by the time budget"); break
        text, got = real_write_read(case, tmp)
        res.evaluations += 1
        dist["cases"] += 1
        dist["nv"][case["nv"]] = dist["nv"].get(case["nv"], 0) + 1
        dist["nq"][case["nq"]] = dist["nq"].get(case["nq"], 0) + 1
        b = f"{(case['np'] // 10) * 10}-{(case['np'] // 10) * 10 + 9}"
        dist["np_bins"][b] = dist["np_bins"].get(b, 0) + 1
        dist["numbers"] += case["nv"] * (3 + case["nq"] * (3 + case["np"])) + 4 * case["nq"]
        # ---- oracle: the generating data
        for what, obs, exp in oracle_energy(case, got):
            res.oracle_failures.append(OracleFailure(
                what=f"write_energy/read_energy round trip: {what}", input={"kind": "energy", "case": case},
                observed=obs, expected=exp, site=f"energy-roundtrip:{what.split('[')[0]}"))
            break
        # ---- correspondence with the model
        m = ctx.driver.ask([{"op": "c17.write_read", "data": _enc_case(case)}])[0]
        if text is not None:
            real_tok = [[_canon_tok(t) for t in l] for l in _tokens(text)]
            for l in real_tok:
                for t in l:
                    if t in ("0.000000", "0.0000"): dist["printed_as_zero"] += 1
            dist["wider_than_format"] += sum(1 for l in _tokens(text)[5:] for t in l
                                             if t[-1].isdigit() and len(t) > (10 if len(t.split(".")[-1]) == 4 else 12))
        else:
            real_tok = "error"
        model_tok = m["lines"] if m["lines"] == "error" else [[_canon_tok(t) for t in l] for l in m["lines"]]
        ok = True
        if real_tok != model_tok:
            ok = False
            first = next((i for i, (a, b) in enumerate(zip(real_tok, model_tok)) if a != b), None) \
                if isinstance(real_tok, list) and isinstance(model_tok, list) else None
            res.disagreements.append(Disagreement("c17.write_read:lines", {"kind": "energy", "case": case},
                                                  real_tok[first] if first is not None else str(real_tok)[:200],
                                                  model_tok[first] if first is not None else str(model_tok)[:200],
                                                  note=f"first differing line {first}"))
        mread = m["read"] if m["read"] == "error" else _model_data_to_float(m["read"])
        gcmp = "error" if isinstance(got, str) else got
        if mread != gcmp:
            ok = False
            res.disagreements.append(Disagreement("c17.write_read:read", {"kind": "energy", "case": case},
                                                  str(gcmp)[:300], str(mread)[:300]))
        if m["round_eq"] is not True and m["lines"] != "error":
            ok = False
            res.disagreements.append(Disagreement("c17.write_read:round_eq", {"kind": "energy", "case": case}, None, m["round_eq"],
                                                  note="model: readEnergy (writeEnergy d) ≠ roundAll d (theorem read_write_energy contradicted?)"))
        if ok: res.traces_validated += 1
        if ci < 2 and not isinstance(got, str):
            res.samples.append({"stream": "energy", "nv": case["nv"], "nq": case["nq"], "np": case["np"],
                                "generated P,V,E[0]": case["volumes"][0][:3], "read back": got["volumes"][0][:3],
                                "file line": text.split("\n")[5]})
        # ---- variants (reader only), on small cases
        if text is not None and case["nv"] * case["nq"] * case["np"] <= 400:
            vs = energy_variants(rng, text, case)
            ops = [{"op": "c17.read_energy", "lines": _tokens(t)} for _, t in vs]
            ms = ctx.driver.ask(ops)
            for (kind, t), mm in zip(vs, ms):
                real = real_read_energy_text(t, tmp)
                res.evaluations += 1
                dist["variants"][kind] = dist["variants"].get(kind, 0) + 1
                if real == "error": dist["variant_errors"] += 1
                else: dist["variant_ok"] += 1
                mv = mm if mm == "error" else _model_data_to_float(mm)
                if mv != real:
                    res.disagreements.append(Disagreement("c17.read_energy", {"kind": "energy-text", "variant": kind, "text": t},
                                                          str(real)[:300], str(mv)[:300]))
                else:
                    res.traces_validated += 1


# ===================================================================================== static-table stream
def spell(rng, pair, style=None):
    """a column name for the Voigt pair (i, j), i <= j: prefix / case / transposition / 4-index spelling"""
    i, j = pair
    if rng.random() < 0.25: i, j = j, i
    prefix = str(rng.choice(["c", "C", "C_", "c_", "", "cij_", "c-", "C."])) if style is None else style
    if rng.random() < 0.3:
        a = STD_OF[i][int(rng.integers(0, len(STD_OF[i])))]; b = STD_OF[j][int(rng.integers(0, len(STD_OF[j])))]
        return f"{prefix}{a[0]}{a[1]}{b[0]}{b[1]}"
    return f"{prefix}{i}{j}"


def num_token(rng, x):
    f = rng.integers(0, 6)
    if f == 0: return repr(float(x))
    if f == 1: return "%.3f" % x
    if f == 2: return "%.8f" % x
    if f == 3: return "%.6e" % x
    if f == 4: return "%d" % round(x) if abs(x) < 1e9 else repr(float(x))
    return ("%+.4f" % x)


def gen_table(rng, lattice=None, nv=None, keys=None, styles=None, clean=False):
    """a static table as TEXT plus what it tabulates (tokens); returns dict(text=..., expect=...)"""
    nv = int(rng.integers(1, 13)) if nv is None else nv
    all_pairs = [(i, j) for i in range(1, 7) for j in range(i, 7)]
    if keys is None:
        n = int(rng.integers(0, 22))
        idx = rng.permutation(21)[:n]
        pairs = [all_pairs[k] for k in idx]
    else:
        pairs = [(int(k[0]), int(k[1])) for k in keys]
        pairs = [pairs[k] for k in rng.permutation(len(pairs))]
    names = [spell(rng, p, None if styles is None else str(rng.choice(styles))) for p in pairs]
    vname = str(rng.choice(["V", "vol", "Volume", "v", "V(A^3)"]))
    fmt = (lambda x: "%.3f" % x) if clean else (lambda x: num_token(rng, x))
    vref_t = "%.5f" % rng.uniform(300, 900) if clean else num_token(rng, rng.uniform(300, 900))
    mass_t = "%.3f" % rng.uniform(50, 400) if clean else num_token(rng, rng.uniform(50, 400))
    extra = "" if rng.random() < 0.5 else " some (trailing) words 12"
    lines = [str(rng.choice(["V_0 N cellmass synthetic", "title", "  indented title  ", "1 2 3"])),
             f"{vref_t} {nv} {mass_t}{extra}", " ".join([vname] + names)]
    rows = []
    v0 = rng.uniform(400, 700)
    for iv in range(nv):
        vt = "%.5f" % (v0 * (1.06 - 0.02 * iv)) if clean else num_token(rng, v0 * (1.06 - 0.02 * iv))
        vals = []
        for (i, j) in pairs:
            base = rng.uniform(80, 600) if (i == j or j <= 3) else rng.uniform(-40, 40)
            vals.append(fmt(base))
        rows.append([vt] + vals)
        sep = str(rng.choice([" ", "  ", "\t", "   "]))
        lines.append(("  " if rng.random() < 0.3 else "") + sep.join(rows[-1]))
    lattice = bool(rng.random() < 0.5) if lattice is None else lattice
    lat_rows, tail_kind = [], "eof"
    if lattice:
        lines.append(str(rng.choice([" lattice_a lattice_b lattice_c ", "a b c", "#", "lattice"])))
        ncol = int(rng.choice([3, 3, 3, 1, 6]))
        for iv in range(nv):
            lat_rows.append([("%.15f" % rng.uniform(0.5, 3.0)) for _ in range(ncol)])
            lines.append("   " + "   ".join(lat_rows[-1]) + (" " if rng.random() < 0.3 else ""))
        tail_kind = "lattice"
    else:
        u = rng.random()
        if u < 0.3: lines.append(""); tail_kind = "blank-line"
        elif u < 0.5: lines += ["", "1 2 3", "not a lattice block"]; tail_kind = "blank-then-text"
    text = "\n".join(lines) + ("\n" if rng.random() < 0.9 else "")
    expect = {"vref": vref_t, "nv": nv, "cellmass": mass_t, "pairs": [list(p) for p in pairs],
              "rows": rows, "lattice": lat_rows}
    return {"text": text, "expect": expect, "names": names, "vname": vname, "tail": tail_kind}


def real_read_elast_text(text, tmp, name="elast.dat"):
    from cij.io.traditional.elast_dat import read_elast_data
    p = os.path.join(tmp, name)
    with open(p, "w", encoding="utf8") as fp: fp.write(text)
    try:
        return read_elast_data(p)
    except Exception as e:
        return "error:" + type(e).__name__


def canon_elast(d):
    """ElastData -> comparable structure; keys as sorted Voigt pair (harness reads only `.v` of the key) or raw str"""
    if isinstance(d, str): return "error"
    vols = []
    for v in d.volumes:
        items = []
        for k, x in v.static_elastic_modulus.items():
            kk = ["v", int(k.v[0]), int(k.v[1])] if hasattr(k, "v") else ["raw", str(k)]
            items.append((kk, float(x)))
        vols.append([float(v.volume), sorted(items, key=lambda e: (e[0][0], str(e[0][1:])))])
    return {"vref": float(d.vref), "nv": int(d.nv), "cellmass": float(d.cellmass), "volumes": vols,
            "lattice": [[float(x) for x in r] for r in d.lattice_parmeters]}


def canon_elast_model(m):
    if m == "error": return "error"
    vols = []
    for v, items in m["volumes"]:
        its = []
        for k, x in items:
            kk = ["v", k["v"][0], k["v"][1]] if "v" in k else ["raw", k["raw"]]
            its.append((kk, _rat_to_float(x)))
        vols.append([_rat_to_float(v), sorted(its, key=lambda e: (e[0][0], str(e[0][1:])))])
    return {"vref": _rat_to_float(m["vref"]), "nv": m["nv"], "cellmass": _rat_to_float(m["cellmass"]), "volumes": vols,
            "lattice": [[_rat_to_float(x) for x in r] for r in m["lattice"]]}


def oracle_elast(expect, d):
    """exactly the tabulated numbers, keyed by canonical Voigt pair"""
    if isinstance(d, str): return [("read_elast_data raised", d, "a table")]
    bad = []
    if float(d.vref) != float(expect["vref"]): bad.append(("vref", d.vref, expect["vref"]))
    if d.nv != expect["nv"]: bad.append(("nv", d.nv, expect["nv"]))
    if float(d.cellmass) != float(expect["cellmass"]): bad.append(("cellmass", d.cellmass, expect["cellmass"]))
    if len(d.volumes) != expect["nv"]:
        bad.append(("number of volumes", len(d.volumes), expect["nv"])); return bad
    pairs = [tuple(p) for p in expect["pairs"]]
    for iv, (v, row) in enumerate(zip(d.volumes, expect["rows"])):
        if float(v.volume) != float(row[0]): bad.append((f"volume[{iv}]", v.volume, row[0]))
        want = {p: float(t) for p, t in zip(pairs, row[1:])}
        try:
            have = {(int(k.v[0]), int(k.v[1])): float(x) for k, x in v.static_elastic_modulus.items()}
        except AttributeError:
            bad.append((f"keys of row {iv}", [str(k) for k in v.static_elastic_modulus], "canonical keys")); break
        if have != want:
            diff = sorted(set(have.items()) ^ set(want.items()))[:4]
            bad.append((f"components of row {iv}", diff, "tabulated values under canonical keys")); break
    want_lat = [[float(t) for t in r] for r in expect["lattice"]]
    have_lat = [[float(x) for x in r] for r in d.lattice_parmeters]
    if have_lat != want_lat:
        k = next((i for i, (a, b) in enumerate(zip(have_lat, want_lat)) if a != b), min(len(have_lat), len(want_lat)))
        bad.append(("lattice block", {"rows": len(have_lat), "first differing row": k, "row": have_lat[k:k + 1]},
                    {"rows": len(want_lat), "row": want_lat[k:k + 1]}))
    return bad[:5]


def table_variants(rng, t):
    lines = t["text"].split("\n")
    if lines[-1] == "": lines = lines[:-1]
    nv = t["expect"]["nv"]
    out = []
    def add(kind, l): out.append((kind, "\n".join(l) + "\n"))
    for bad in ["c1", "c123", "c77", "c07", "V0", "c12345", "c0", "1c1", "c11x", "x", "c4a"]:
        l = list(lines); l[2] = l[2] + " " + bad
        for i in range(3, 3 + nv): l[i] = l[i] + " 1.5"
        add("name:" + bad, l)
    l = list(lines); l[2] = l[2] + " c12 c21"
    for i in range(3, 3 + nv): l[i] = l[i] + " 1.5 2.5"
    add("duplicate-canonical-key", l)
    l = list(lines); l[3] = l[3] + " 7.5"; add("row-with-extra-value", l)
    l = list(lines); l[3] = " ".join(l[3].split()[:-1]) if len(l[3].split()) > 1 else l[3]; add("row-one-value-short", l)
    l = list(lines); l[3] = l[3].replace(l[3].split()[0], "abc", 1); add("volume-not-a-number", l)
    l = list(lines); del l[3]; add("one-row-missing", l)
    l = list(lines[:3 + max(nv - 1, 0)]); add("truncated-in-rows", l)
    l = list(lines); l[3:3] = [""]; add("blank-line-in-rows", l)
    l = list(lines); f = l[1].split(); f[1] = str(nv + 1); l[1] = " ".join(f); add("nv-too-large", l)
    l = list(lines); f = l[1].split(); f[1] = str(max(nv - 1, 0)); l[1] = " ".join(f); add("nv-too-small", l)
    l = list(lines); f = l[1].split(); f[1] = "-1"; l[1] = " ".join(f); add("nv-negative", l)
    l = list(lines); f = l[1].split(); f[1] = f[1] + ".0"; l[1] = " ".join(f); add("nv-float", l)
    l = list(lines); l[1] = " ".join(l[1].split()[:2]); add("header-two-fields", l)
    l = list(lines[:2]); add("no-key-line", l)
    l = list(lines[:1]); add("title-only", l)
    add("empty", [])
    if t["expect"]["lattice"]:
        l = list(lines); del l[-1]; add("lattice-one-row-short", l)
        l = list(lines); l[-1] = l[-1] + " zz"; add("lattice-not-a-number", l)
        l = list(lines) + ["9 9 9"]; add("lattice-one-row-extra", l)
    return out


def run_elast(ctx: Ctx, res: Result, tmp, n_cases):
    rng = ctx.rng
    dist = res.distribution.setdefault("elast", {"cases": 0, "columns": {}, "with_lattice": 0, "tails": {}, "prefix_styles": {},
                                                 "four_index_names": 0, "transposed_names": 0, "variants": {},
                                                 "variant_errors": 0, "variant_ok": 0})
    for ci in range(n_cases):
        if ctx.time_left() < 45: res.notes.append("elast stream cut short by the time budget"); break
        t = gen_table(rng)
        d = real_read_elast_text(t["text"], tmp)
        res.evaluations += 1
        dist["cases"] += 1
        nc = len(t["names"]); dist["columns"][nc] = dist["columns"].get(nc, 0) + 1
        dist["with_lattice"] += bool(t["expect"]["lattice"])
        dist["tails"][t["tail"]] = dist["tails"].get(t["tail"], 0) + 1
        for nme, p in zip(t["names"], t["expect"]["pairs"]):
            pre = nme.rstrip("0123456789"); dist["prefix_styles"][pre] = dist["prefix_styles"].get(pre, 0) + 1
            digs = nme[len(pre):]
            if len(digs) == 4: dist["four_index_names"] += 1
            elif [int(digs[0]), int(digs[1])] != list(p): dist["transposed_names"] += 1
        for what, obs, exp in oracle_elast(t["expect"], d):
            res.oracle_failures.append(OracleFailure(
                what=f"read_elast_data: {what}", input={"kind": "elast", "text": t["text"], "expect": t["expect"]},
                observed=obs, expected=exp, site=f"elast-read:{what.split('[')[0].split(' of row')[0]}"))
            break
        vs = [("valid", t["text"])] + (table_variants(rng, t) if ci % 3 == 0 else [])
        ms = ctx.driver.ask([{"op": "c17.read_elast", "lines": _tokens(x)} for _, x in vs])
        for (kind, x), m in zip(vs, ms):
            real = canon_elast(d if kind == "valid" else real_read_elast_text(x, tmp))
            if kind != "valid":
                res.evaluations += 1
                dist["variants"][kind] = dist["variants"].get(kind, 0) + 1
                if real == "error": dist["variant_errors"] += 1
                else: dist["variant_ok"] += 1
            mm = canon_elast_model(m)
            if mm != real:
                res.disagreements.append(Disagreement("c17.read_elast", {"kind": "elast-text", "variant": kind, "text": x},
                                                      str(real)[:300], str(mm)[:300]))
            else:
                res.traces_validated += 1
        if ci < 2:
            res.samples.append({"stream": "elast", "key line": t["text"].split("\n")[2], "canonical pairs": t["expect"]["pairs"][:6],
                                "lattice rows": len(t["expect"]["lattice"])})


# ===================================================================================== fill stream
def gen_fill_table(rng, system, style="c", ints=False, redundant=True):
    keys = list(INDEPENDENT[system])
    if redundant and system not in ("triclinic", "monoclinic", "orthorhombic") and rng.random() < 0.5:
        keys.append("22")          # c22 = c11 in every higher system: a consistent redundant column
    nv = int(rng.integers(1, 13))
    order = [int(k) for k in rng.permutation(len(keys))]
    names, cols = [], []
    v0 = rng.uniform(400, 700)
    vols = [round(v0 * (1.06 - 0.02 * iv), int(rng.integers(2, 6))) for iv in range(nv)]
    base = {}
    for k in INDEPENDENT[system]:
        i, j = int(k[0]), int(k[1])
        b = rng.uniform(300, 600) if (i == j and i <= 3) else rng.uniform(90, 200) if i == j else \
            rng.uniform(60, 160) if j <= 3 else rng.uniform(-30, 30)
        base[k] = [round(b * (1 + 0.05 * iv), 3) for iv in range(nv)]
    base["22"] = base.get("22", base["11"])
    for o in order:
        k = keys[o]
        st = style if isinstance(style, str) else str(rng.choice(style))
        names.append(st + k)
        cols.append(base[k] if k in base else base["11"])
    lattice = bool(rng.random() < 0.6)
    lines = ["V_0 N cellmass %s %s" % (system, rng.choice(["", "(24.305+16.0*3)", "x y z"])),
             "%.8f %d %.3f%s" % (vols[min(1, nv - 1)], nv, rng.uniform(50, 400), rng.choice(["", "  trailing"])),
             " ".join(["V"] + names)]
    for iv in range(nv):
        if ints:
            lines.append("%.5f " % vols[iv] + " ".join("%d" % round(c[iv]) for c in cols))
        else:
            lines.append("%.8f   " % vols[iv] + "  ".join("%.3f" % c[iv] for c in cols))
    tail = []
    if lattice:
        tail.append(" lattice_a lattice_b lattice_c ")
        for iv in range(nv):
            tail.append("   " + "   ".join("%.15f" % rng.uniform(0.5, 3.0) for _ in range(3)) + " ")
    elif rng.random() < 0.5:
        tail += ["", "free text after a blank line"]
    text = "\n".join(lines + tail) + "\n"
    given = {names[c]: [float("%d" % round(x)) if ints else float("%.3f" % x) for x in cols[c]] for c in range(len(names))}
    return {"text": text, "system": system, "nv": nv, "vols": [float(("%.5f" if ints else "%.8f") % v) for v in vols],
            "names": names, "keys": [keys[o] for o in order], "given": given,
            "tail": "\n".join(tail) + ("\n" if tail else ""), "head": "\n".join(lines[:2]) + "\n"}


def run_cli(text, system, tmp, extra_args=()):
    import warnings
    from click.testing import CliRunner
    from cij.cli.cij import main          # the documented command: `cij fill -s SYSTEM FILE` (the group, as installed)
    with warnings.catch_warnings():
        warnings.simplefilter("ignore")
        import pandas  # noqa: F401  (the command imports these lazily; import them outside the captured run)
        import cij.util.fill  # noqa: F401
    p = os.path.join(tmp, "fill_in.dat")
    with open(p, "w") as fp: fp.write(text)
    args = ["fill"] + (["-s", system] if system else []) + list(extra_args) + [p]
    r = CliRunner().invoke(main, args)
    if r.exit_code != 0:
        return "error:" + (type(r.exception).__name__ if r.exception is not None else str(r.exit_code))
    return r.stdout          # stdout only: warnings raised by lazy imports inside the command go to stderr


def real_filled_frame(text, system):
    """what the command hands to / gets from fill_cij (the model's `fill` parameter), or None if it raises"""
    import pandas
    from cij.util.fill import fill_cij
    lines = text.split("\n")
    try:
        n = int(lines[1].strip().split()[1])
        sio = io.StringIO("\n".join(lines[2:2 + n + 1]) + "\n")
        df = pandas.read_table(sio, header=0, index_col=None, sep=r"\s+")
        df = fill_cij(df, system=system)
        return {"names": [str(c) for c in df.columns], "rows": [[f2b(float(x)) for x in row] for row in df.to_numpy()]}
    except BaseException:
        return None


def oracle_fill(case, out, tmp):
    """property statement on the command's real output; independent part: header / tail text, volumes, given components"""
    from cij.io.traditional.elast_dat import read_elast_data, apply_symetry_on_elast_data
    if out.startswith("error:"):
        return [("cij fill failed", out, "exit code 0 and a table")]
    bad = []
    if not out.startswith(case["head"]):
        bad.append(("header lines", out.split("\n")[:2], case["head"].split("\n")[:2]))
    if not out.endswith(case["tail"]) or (case["tail"] == "" and len(out.split("\n")) != case["nv"] + 4):
        bad.append(("text after the table", out.split("\n")[case["nv"] + 3:][:3], case["tail"].split("\n")[:3]))
    if len(out.split("\n")) != len(case["text"].split("\n")):
        bad.append(("number of lines", len(out.split("\n")), len(case["text"].split("\n"))))
    po = real_read_elast_text(out, tmp, "fill_out.dat")
    if isinstance(po, str):
        return bad + [("output is not a readable static table", po, "a table")]
    pi = real_read_elast_text(case["text"], tmp, "fill_in2.dat")
    if isinstance(pi, str):
        return bad + [("input table not readable", pi, "a table")]
    raw_lattice = [tuple(r) for r in pi.lattice_parmeters]
    try:
        apply_symetry_on_elast_data(pi, {"system": case["system"]})
    except Exception as e:
        return bad + [("apply_symetry_on_elast_data raised on the parsed input", type(e).__name__, "filled parse")]
    if (po.vref, po.nv, po.cellmass) != (pi.vref, pi.nv, pi.cellmass):
        bad.append(("vref/nv/cellmass", (po.vref, po.nv, po.cellmass), (pi.vref, pi.nv, pi.cellmass)))
    if [tuple(r) for r in po.lattice_parmeters] != raw_lattice:
        bad.append(("lattice block", po.lattice_parmeters[:2], raw_lattice[:2]))
    if len(po.volumes) != case["nv"]:
        return bad + [("number of volumes", len(po.volumes), case["nv"])]
    tol = 0.5e-6 + 1e-9
    for iv, (a, b) in enumerate(zip(po.volumes, pi.volumes)):
        if abs(a.volume - case["vols"][iv]) > tol: bad.append((f"volume[{iv}] vs generating data", a.volume, case["vols"][iv]))
        try:
            da = {(int(k.v[0]), int(k.v[1])): float(x) for k, x in a.static_elastic_modulus.items()}
        except AttributeError:
            bad.append(("keys of the output", [str(k) for k in a.static_elastic_modulus], "canonical keys")); break
        db = {(int(k.v[0]), int(k.v[1])): float(x) for k, x in b.static_elastic_modulus.items()}
        if set(da) != set(db):
            bad.append((f"component set of row {iv}", sorted(da), sorted(db))); break
        worst = max(da, key=lambda k: abs(da[k] - db[k])) if da else None
        if worst is not None and abs(da[worst] - db[worst]) > tol:
            bad.append((f"component c{worst[0]}{worst[1]} of row {iv} vs filled parse of the input", da[worst], db[worst])); break
        for nme, k in zip(case["names"], case["keys"]):
            p = (int(k[0]), int(k[1]))
            if p in da and abs(da[p] - case["given"][nme][iv]) > 1e-5:
                bad.append((f"given component {nme} of row {iv} vs generating data", da[p], case["given"][nme][iv])); break
    return bad[:6]


def fill_case_check(ctx, res, case, tmp, dist, known_site=None):
    out = run_cli(case["text"], case["system"], tmp)
    res.evaluations += 1
    fails = oracle_fill(case, out, tmp)
    if fails:
        what, obs, exp = fails[0]
        site = known_site or f"fill-cli:{what.split('[')[0].split(' of row')[0]}"
        res.oracle_failures.append(OracleFailure(
            what=f"cij fill -s {case['system']}: {what}", input={"kind": "fill", "case": case},
            observed=obs, expected=exp, site=site))
    # correspondence: the re-emission of the model with the real fill_cij result as parameter
    filled = real_filled_frame(case["text"], case["system"])
    m = ctx.driver.ask([{"op": "c17.fill", "lines": _tokens(case["text"]), "filled": filled, "decimals": 6}])[0]
    ok = True
    if out.startswith("error:") or m["lines"] == "error":
        if not (out.startswith("error:") and m["lines"] == "error"):
            ok = False
            res.disagreements.append(Disagreement("c17.fill:status", {"kind": "fill", "case": case}, out[:200], str(m["lines"])[:200]))
    else:
        ot = _tokens(out)
        nv = case["nv"]
        if ot[:2] != m["lines"][:2] or ot[3 + nv:] != m["lines"][3 + nv:] or len(ot) != len(m["lines"]) or ot[2] != m["lines"][2]:
            ok = False
            res.disagreements.append(Disagreement("c17.fill:lines", {"kind": "fill", "case": case}, ot[:3], m["lines"][:3],
                                                  note="header / names / tail tokens differ"))
        po = canon_elast(real_read_elast_text(out, tmp, "fill_out.dat"))
        pm = canon_elast_model(m["parsed"])
        if not _close_elast(po, pm, 1e-9):
            ok = False
            res.disagreements.append(Disagreement("c17.fill:parsed", {"kind": "fill", "case": case}, str(po)[:300], str(pm)[:300]))
    if ok: res.traces_validated += 1
    dist["cases"] += 1
    dist["systems"][case["system"]] = dist["systems"].get(case["system"], 0) + 1
    dist["with_tail"] += bool(case["tail"])
    return out, fails


def _close_elast(a, b, tol):
    if a == "error" or b == "error": return a == b
    if (a["nv"], len(a["volumes"]), len(a["lattice"])) != (b["nv"], len(b["volumes"]), len(b["lattice"])): return False
    if a["lattice"] != b["lattice"] or a["vref"] != b["vref"] or a["cellmass"] != b["cellmass"]: return False
    for (va, ia), (vb, ib) in zip(a["volumes"], b["volumes"]):
        if abs(va - vb) > tol * max(1.0, abs(va)): return False
        if [k for k, _ in ia] != [k for k, _ in ib]: return False
        if any(abs(x - y) > tol * max(1.0, abs(x)) for (_, x), (_, y) in zip(ia, ib)): return False
    return True


def run_fill(ctx: Ctx, res: Result, tmp, per_system):
    rng = ctx.rng
    dist = res.distribution.setdefault("fill", {"cases": 0, "systems": {}, "with_tail": 0, "no_system": 0,
                                                "probe_int_columns": 0, "probe_name_spellings": 0})
    first = True
    for rep in range(per_system):
        for system in SYSTEMS:
            if ctx.time_left() < 30: res.notes.append("fill stream cut short by the time budget"); return
            case = gen_fill_table(rng, system, style=["c", "C"] if rep % 2 else "c")
            out, fails = fill_case_check(ctx, res, case, tmp, dist)
            if first and not fails:
                first = False
                res.samples.append({"stream": "fill", "system": system, "input key line": case["text"].split("\n")[2],
                                    "output key line": out.split("\n")[2], "output row 0": out.split("\n")[3]})
    # no system given: the table must come back unchanged (to pandas' printed precision)
    case = gen_fill_table(rng, "triclinic"); case["system"] = None
    out = run_cli(case["text"], None, tmp); res.evaluations += 1; dist["no_system"] += 1
    po, pi = real_read_elast_text(out, tmp, "o.dat") if not out.startswith("error") else out, real_read_elast_text(case["text"], tmp, "i.dat")
    if isinstance(po, str) or not _close_elast(canon_elast(po), canon_elast(pi), 1e-6) or not out.startswith(case["head"]) \
            or not out.endswith(case["tail"]):
        res.oracle_failures.append(OracleFailure(what="cij fill without -s: table not returned unchanged",
                                                 input={"kind": "fill", "case": case}, observed=str(out)[:200],
                                                 expected="the input table", site="fill-cli:no-system"))
    # probes of table presentations the READER accepts (an all-integer column; prefixes other than c/C)
    for system in ("cubic", "hexagonal"):
        case = gen_fill_table(rng, system, ints=True)
        dist["probe_int_columns"] += 1
        fill_case_check(ctx, res, case, tmp, dist, known_site="cli.fill:int64-column")
        case = gen_fill_table(rng, system, style=str(rng.choice(["C_", "c_", ""])))
        dist["probe_name_spellings"] += 1
        fill_case_check(ctx, res, case, tmp, dist, known_site="cli.fill:column-name-spelling")


# ===================================================================================== entry points
def run(ctx: Ctx) -> Result:
    res = Result()
    res.rule = ("a case is one file: (energy) one data set written by the real write_energy and re-read, sizes 1-12 x 1-10 x 3-60 with "
                "the extreme sizes always included; (elast) one static table text; (fill) one `cij fill` invocation; plus variant / "
                "malformed files derived from them (reader only). distinct_nontrivial = cases whose content differs (all are random "
                "draws; the fixed variants are distinct kinds).")
    tmp = tempfile.mkdtemp(prefix="cij_c17_")
    try:
        th = ctx.thorough()
        run_energy(ctx, res, tmp, 60 if th else 14)
        run_elast(ctx, res, tmp, 1500 if th else 150)
        run_fill(ctx, res, tmp, 12 if th else 2)
    finally:
        shutil.rmtree(tmp, ignore_errors=True)
    res.distinct_nontrivial = res.evaluations
    e = res.distribution.get("energy", {})
    res.notes.append(f"width overflow: {e.get('wider_than_format', 0)} of {e.get('numbers', 0)} printed numbers were wider than their format "
                     "width (%12.6f of |x| >= 1e5 or x <= -1e4, %10.4f of |x| >= 1e4 ...); fields are joined by a blank / follow 'P= ', so no "
                     "value in the property's range breaks the round trip (none observed)")
    res.notes.append("outside the quantifier, observed: a volume column whose NAME ends in a digit (V0, V_A3) makes read_elast_data raise "
                     "(its name goes through c_ too); `cij fill` prints through pandas: numbers keep 6 decimals, so volumes / components "
                     "tabulated with more than 6 decimals come back rounded (the shipped tables have <= 5 significant decimals)")
    res.extra["tolerances"] = {"energy": "1/2 unit of the printed decimal (6; 4 for q-coordinates) + 2^-51 relative (decimal->double)",
                               "elast": "exact equality with float(token)", "fill": "0.5e-6 (pandas prints 6 decimals)",
                               "model_vs_code": "tokens literal, numbers exact (Rat -> nearest double); fill parse 1e-9 relative"}
    return res


def search(ctx: Ctx, res: Result):
    """tie broken and run() found nothing: look harder (more data sets, more tables, all systems again)"""
    extra = Result()
    tmp = tempfile.mkdtemp(prefix="cij_c17s_")
    try:
        # disagreeing inputs first
        for d in res.disagreements[:10]:
            extra.oracle_failures.extend(replay(ctx, d.input))
        if not extra.oracle_failures:
            run_energy(ctx, extra, tmp, 40)
            run_elast(ctx, extra, tmp, 600)
            run_fill(ctx, extra, tmp, 4)
    finally:
        shutil.rmtree(tmp, ignore_errors=True)
    return extra.oracle_failures


def replay(ctx: Ctx, payload):
    tmp = tempfile.mkdtemp(prefix="cij_c17r_")
    try:
        kind = payload.get("kind")
        if kind == "energy":
            case = payload["case"]
            _, got = real_write_read(case, tmp)
            return [OracleFailure(what=f"write_energy/read_energy round trip: {w}", input=payload, observed=o, expected=e)
                    for w, o, e in oracle_energy(case, got)[:3]]
        if kind == "elast":
            d = real_read_elast_text(payload["text"], tmp)
            return [OracleFailure(what=f"read_elast_data: {w}", input=payload, observed=o, expected=e)
                    for w, o, e in oracle_elast(payload["expect"], d)[:3]]
        if kind == "fill":
            case = payload["case"]
            out = run_cli(case["text"], case["system"], tmp)
            return [OracleFailure(what=f"cij fill -s {case['system']}: {w}", input=payload, observed=o, expected=e)
                    for w, o, e in oracle_fill(case, out, tmp)[:3]]
        # variant texts carry no oracle (reader behaviour on malformed input is not part of the property)
        return []
    finally:
        shutil.rmtree(tmp, ignore_errors=True)
