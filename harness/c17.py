"""C17 — input files round-trip: phonon data write/read, static table parse, `cij fill` output.

Three streams, each with (a) correspondence of the real code with the Lean model (`c17.*` ops, exact decimal
arithmetic over Rat, tokens compared literally) and (b) an oracle that is independent of both: THE GENERATING DATA
(the numbers / the text the harness itself produced):

  energy : random data sets -> REAL write_energy -> file -> REAL read_energy; every field compared with the
           generating number (|Δ| <= 1/2 unit of the printed precision), counts, order, weight/q-point pairing.
  elast  : random static tables (component subset, column order, prefix / case / 2- and 4-index spellings,
           with and without lattice block) written by the harness -> REAL read_elast_data; compared with the
           printed tokens keyed by the harness' own canonical Voigt pair.
  fill   : `cij fill -s SYSTEM FILE` through click's CliRunner for all nine systems; header lines / tail text
           literally preserved, output re-parsed by read_elast_data and compared with
           apply_symetry_on_elast_data(read_elast_data(input)), volumes and given components with the generating data.
A separate malformed / variant stream (blank lines, `weights`, junk before the header, missing lines, bad names…)
is compared model-vs-code only.

Added with the translator tie of the readers (tools/gens/readers_src.py), where the generators above were blind:
  regex    : the three REGEX_* constants of the imported modules on targeted ASCII strings: Python's `re.search` vs the Lean
             matcher on the GENERATED instruction lists (`c17.regex`) vs the model's regex-free recognisers and `str.split()`
             vs `Regex.splitWs` (`c17.lex`) — correspondence.
  crossing : data sets whose branches cross between volumes (mode lists not ascending, ties) through the energy oracle.
  exponent : really written phonon files re-spelled in exponent notation (reader vs model, tokens and raw lines); more
             exponent spellings in the static tables (oracle: float(token)).
  labels   : every ordered pair (upper AND lower triangle), 2- and 4-index, under many prefixes (C51, C_15, 15, cij15, x15 …);
             oracle: the tabulated value under the canonical (sorted) Voigt pair.
  reread   : the same path read twice with an in-place apply_symetry_on_elast_data in between, and after an in-place rewrite
             of equal size with the mtime restored (both readers); oracle: the file's own content.
  shared   : ONE symmetry dictionary object (bare, or the full default settings block on a table in small units) reused for
             two tables; oracle: the command's output parse = the filled parse under that very dictionary.
  group    : `cij fill` goes through the `cij` click group after every sub-command module has been imported and `--help`
             of each has run in-process.
"""
from __future__ import annotations

import copy
import io
import os
import shutil
import tempfile
from fractions import Fraction

import numpy

from harness.common import Ctx, Result, Disagreement, OracleFailure, f2b

ASSUMPTIONS = [
    "phonon data sets: counts 1-12 volumes, 1-10 q-points, 3-60 modes, finite values |x| <= 1e5 of either sign (the property's range); nm, na natural numbers; the default comment line",
    "CPython's %-formatting / float() are correctly rounded (round-half-even on the exact binary value); the model's decimal arithmetic is compared token by token with what the real writer printed on every case",
    "static tables: numeric tokens in plain or exponent decimal notation (no nan/inf/underscores); column names = digit-free prefix + 2 Voigt or 4 standard indices",
    "fill command: tables whose columns are named cIJ / CIJ with decimal-point literals, a sufficient independent component set of the system; pandas' to_string prints 6 decimals (values < 1e6, no scientific notation)",
    "every Python exception type counts as 'rejected' ('error')",
    "regex / lexing correspondence on ASCII subjects only: `\\d` = 0-9 and `\\s` = code points 9-13, 28-32 in the Lean matcher (Python's classes agree with these below 128; non-ASCII digits / spaces are outside the model)",
    "phonon files in exponent notation are compared reader-vs-model only (write_energy never prints an exponent, so the property's round trip does not reach them); static tables in exponent notation are under the oracle",
]
TRUSTED_EXTRA = [
    "C17: character-level lexing (strip/split, the regex engine), printf/float() and pandas' read_table/to_string are outside the Lean model (tested through the real functions on every case, not proved)",
    "C17: fill_cij itself is a parameter of the model (owned by C08/C09); the harness passes the real function's result",
]

SYSTEMS = ["triclinic", "monoclinic", "orthorhombic", "tetragonal7", "tetragonal6", "trigonal7", "trigonal6",
           "hexagonal", "cubic"]
# a sufficient independent component set per system (standard setting of cij/data/constraints) — harness' own copy
INDEPENDENT = {
    "triclinic": ["11", "12", "13", "14", "15", "16", "22", "23", "24", "25", "26", "33", "34", "35", "36",
                  "44", "45", "46", "55", "56", "66"],
    "monoclinic": ["11", "12", "13", "15", "22", "23", "25", "33", "35", "44", "46", "55", "66"],
    "orthorhombic": ["11", "12", "13", "22", "23", "33", "44", "55", "66"],
    "tetragonal7": ["11", "12", "13", "16", "33", "44", "66"],
    "tetragonal6": ["11", "12", "13", "33", "44", "66"],
    "trigonal7": ["11", "12", "13", "14", "15", "33", "44"],
    "trigonal6": ["11", "12", "13", "14", "33", "44"],
    "hexagonal": ["11", "12", "13", "33", "44"],
    "cubic": ["11", "12", "44"],
}
VOIGT_OF = {(1, 1): 1, (2, 2): 2, (3, 3): 3, (2, 3): 4, (3, 2): 4, (1, 3): 5, (3, 1): 5, (1, 2): 6, (2, 1): 6}
STD_OF = {1: [(1, 1)], 2: [(2, 2)], 3: [(3, 3)], 4: [(2, 3), (3, 2)], 5: [(1, 3), (3, 1)], 6: [(1, 2), (2, 1)]}
HALF = Fraction(1, 2)


# ===================================================================================== helpers
def _tokens(text: str):
    """file text -> list of token lists (what `line.strip().split()` gives per line)"""
    lines = text.split("\n")
    if lines and lines[-1] == "":
        lines = lines[:-1]
    return [l.split() for l in lines]


def _canon_tok(t: str) -> str:
    """'-0.000000' and '0.000000' denote the same number (a float -0.0 has no rational counterpart)"""
    if t.startswith("-") and t[1:].replace(".", "").strip("0") == "" and len(t) > 1:
        return t[1:]
    return t


def _fr(r):
    return Fraction(int(r[0]), int(r[1]))


def _rat_to_float(r):
    return float(_fr(r))


def _tol(k, x):
    """half a unit of the k-th decimal + the double-rounding slack of reading the decimal back"""
    return HALF / 10 ** k + abs(Fraction(x)) / 2 ** 51 + Fraction(1, 10 ** 300)


# ===================================================================================== energy stream
def rand_value(rng: numpy.random.Generator) -> float:
    u = rng.random()
    s = 1.0 if rng.random() < 0.5 else -1.0
    if u < 0.45:
        return float(s * 10.0 ** rng.uniform(-4.0, 5.0))
    if u < 0.65:
        return float(rng.uniform(-1e5, 1e5))
    if u < 0.70:
        return 0.0
    if u < 0.75:
        return float(s * 1e5)
    if u < 0.80:
        return float(s * (1e5 - 10.0 ** rng.uniform(-7.0, -1.0)))       # just inside the range boundary
    if u < 0.85:
        return float(s * 10.0 ** rng.uniform(-10.0, -6.0))               # rounds to (-)0.000000
    if u < 0.92:
        return float(s * int(rng.integers(0, 2 ** 20)) / 2.0 ** int(rng.integers(5, 12)))   # dyadic: exact ties possible
    return float(round(s * 10.0 ** rng.uniform(-2.0, 5.0), int(rng.integers(0, 7))))


def gen_energy_case(rng, nv, nq, np_):
    vols = []
    for _ in range(nv):
        qs = [[[rand_value(rng) for _ in range(3)], [rand_value(rng) for _ in range(np_)]] for _ in range(nq)]
        vols.append([rand_value(rng), rand_value(rng), rand_value(rng), qs])
    weights = [[[rand_value(rng) for _ in range(3)], rand_value(rng)] for _ in range(nq)]
    return {"nv": nv, "nq": nq, "np": np_, "nm": int(rng.integers(0, 200)), "na": int(rng.integers(1, 21)),
            "weights": weights, "volumes": vols}


def gen_energy_crossing(rng, nv, nq, np_):
    """branches that cross between volumes: ascending at the first volume, each with its own slope, so that the order of the
    modes of a q-point differs from volume to volume; one q-point listed descending, ties included"""
    case = gen_energy_case(rng, nv, nq, np_)
    for iq in range(nq):
        base = numpy.sort(rng.uniform(-50.0, 3000.0, np_))
        if np_ >= 4: base[1] = base[2]                                   # a degenerate pair
        slope = rng.uniform(-400.0, 400.0, np_)
        for iv in range(nv):
            m = base + slope * iv
            if iq == nq - 1: m = m[::-1]                                 # listed in descending order
            case["volumes"][iv][3][iq][1] = [float(round(x, int(rng.integers(3, 9)))) for x in m]
    return case


def _unsorted_lists(case):
    n = 0
    for v in case["volumes"]:
        for _, modes in v[3]:
            if any(a > b for a, b in zip(modes, modes[1:])): n += 1
    return n


def _to_impl(case):
    from cij.io.traditional.qha_input import QHAInputData, VolumeData, QPointData, QPointWeight
    vols = [VolumeData(p, v, e, [QPointData(tuple(c), list(m)) for c, m in qs]) for p, v, e, qs in case["volumes"]]
    ws = [QPointWeight(tuple(c), w) for c, w in case["weights"]]
    return QHAInputData(case["nv"], case["nq"], case["np"], case["nm"], case["na"], ws, vols)


def _from_impl(r):
    return {"nv": r.nv, "nq": r.nq, "np": r.np, "nm": r.nm, "na": r.na,
            "weights": [[list(w[0]), w[1]] for w in r.weights],
            "volumes": [[v[0], v[1], v[2], [[list(q[0]), list(q[1])] for q in v[3]]] for v in r.volumes]}


def _enc_case(case):
    return {"nv": case["nv"], "nq": case["nq"], "np": case["np"], "nm": case["nm"], "na": case["na"],
            "weights": [[[f2b(x) for x in c], f2b(w)] for c, w in case["weights"]],
            "volumes": [[f2b(p), f2b(v), f2b(e), [[[f2b(x) for x in c], [f2b(x) for x in m]] for c, m in qs]]
                        for p, v, e, qs in case["volumes"]]}


def _model_data_to_float(m):
    return {"nv": m["nv"], "nq": m["nq"], "np": m["np"], "nm": m["nm"], "na": m["na"],
            "weights": [[[_rat_to_float(x) for x in c], _rat_to_float(w)] for c, w in m["weights"]],
            "volumes": [[_rat_to_float(p), _rat_to_float(v), _rat_to_float(e),
                         [[[_rat_to_float(x) for x in c], [_rat_to_float(x) for x in ms]] for c, ms in qs]]
                        for p, v, e, qs in m["volumes"]]}


def real_write_read(case, tmp):
    """REAL write_energy then REAL read_energy. returns (text | None, parsed dict | 'error:..')"""
    from cij.io.traditional.qha_input import write_energy, read_energy
    path = os.path.join(tmp, "input01")
    try:
        write_energy(path, _to_impl(case))
    except Exception as e:
        return None, "error:write:" + type(e).__name__
    text = open(path, encoding="utf8").read()
    try:
        r = read_energy(path)
    except Exception as e:
        return text, "error:read:" + type(e).__name__
    return text, _from_impl(r)


def oracle_energy(case, got):
    """the property on the real code's output vs THE GENERATING DATA. returns [(what, observed, expected)]"""
    if isinstance(got, str):
        return [("round trip raised", got, "a data set")]
    bad = []
    for k in ("nv", "nq", "np", "nm", "na"):
        if got[k] != case[k]:
            bad.append((f"count {k}", got[k], case[k]))
    if len(got["volumes"]) != case["nv"]:
        bad.append(("number of volumes", len(got["volumes"]), case["nv"]))
    if len(got["weights"]) != case["nq"]:
        bad.append(("number of weights", len(got["weights"]), case["nq"]))
    if bad:
        return bad

    def cmp(field, a, b, k):
        if not (abs(Fraction(a) - Fraction(b)) <= _tol(k, b)):
            bad.append((field, a, b))

    for iv, (g, c) in enumerate(zip(got["volumes"], case["volumes"])):
        cmp(f"pressure[{iv}]", g[0], c[0], 6); cmp(f"volume[{iv}]", g[1], c[1], 6); cmp(f"energy[{iv}]", g[2], c[2], 6)
        if len(g[3]) != case["nq"]:
            bad.append((f"q-points of volume {iv}", len(g[3]), case["nq"])); continue
        for iq, (gq, cq) in enumerate(zip(g[3], c[3])):
            if len(gq[0]) != len(cq[0]) or len(gq[1]) != len(cq[1]):
                bad.append((f"lengths at volume {iv} q {iq}", (len(gq[0]), len(gq[1])), (len(cq[0]), len(cq[1])))); continue
            for j, (a, b) in enumerate(zip(gq[0], cq[0])): cmp(f"coord[{iv}][{iq}][{j}]", a, b, 4)
            for j, (a, b) in enumerate(zip(gq[1], cq[1])): cmp(f"mode[{iv}][{iq}][{j}]", a, b, 6)
        if len(bad) > 5: break
    for iq, (g, c) in enumerate(zip(got["weights"], case["weights"])):
        if len(g[0]) != 3:
            bad.append((f"weight coord length {iq}", len(g[0]), 3)); continue
        for j, (a, b) in enumerate(zip(g[0], c[0])): cmp(f"weight coord[{iq}][{j}]", a, b, 6)
        cmp(f"weight[{iq}]", g[1], c[1], 6)
    return bad[:6]


def energy_variants(rng, text, case):
    """variant / malformed files derived from a really written file (correspondence only). yields (kind, text)"""
    lines = text.split("\n")[:-1]
    nq, np_ = case["nq"], case["np"]
    block = 1 + nq * (1 + np_)
    first = 5
    mark = lines.index("weight")
    out = []
    l = list(lines); l[mark] = "weights"; out.append(("weights-marker", l))
    l = list(lines); l[mark] = "  weight  "; out.append(("padded-marker", l))
    l = list(lines); l[mark] = "weight 1"; out.append(("marker-with-word", l))
    l = list(lines); l[mark:mark] = ["some text", "", "1 2 3"]; out.append(("junk-before-marker", l))
    l = list(lines)
    for iv in reversed(range(case["nv"])): l[first + iv * block: first + iv * block] = [""] * int(rng.integers(1, 4))
    out.append(("blank-lines-between-volumes", l))
    l = ["a title", "1 2 3", "1 2 3 4 5 6", "nv nq np nm na 1 2"] + list(lines); out.append(("junk-before-header", l))
    l = list(lines); l[3] = l[3] + " x"; out.append(("header-with-trailing-word", l))
    l = list(lines); l[3] = "\t" + l[3].replace(" ", "\t"); out.append(("header-tabs", l))
    l = list(lines); l[0] = "1 2 3 4 5"; out.append(("comment-is-five-ints", l))
    l = list(lines); l[first] = "data P= 1.5 V= 2.5 E= -3.5 trailing"; out.append(("pve-with-context", l))
    l = list(lines); l[first] = "Pressure= 1.5 V= 2.5 E= -3.5"; out.append(("pve-long-first-label", l))
    l = list(lines); l[first] = "P= 1.5 Vol= 2.5 E= -3.5"; out.append(("pve-long-second-label", l))
    l = list(lines); l[first] = "P=1.5 V= 2.5 E= -3.5"; out.append(("pve-no-space", l))
    l = list(lines); l[first] = "x= 1e3 y= .5 z= -2."; out.append(("pve-other-labels-notations", l))
    l = list(lines); del l[first + 2]; out.append(("one-mode-line-missing", l))
    l = list(lines); l.insert(first + 2, l[first + 2]); out.append(("one-mode-line-doubled", l))
    l = list(lines); l[first + 2] = l[first + 2] + " 7"; out.append(("mode-line-two-numbers", l))
    l = list(lines); l[first + 2] = ""; out.append(("mode-line-blank", l))
    l = list(lines); l[first + 1] = "0.5 0.25"; out.append(("coord-two-numbers", l))
    l = list(lines); l[first + 1] = "0.5 abc 1"; out.append(("coord-not-a-number", l))
    l = list(lines); del l[-1]; out.append(("last-weight-missing", l))
    l = list(lines); l[-1] = l[-1] + " 9 9"; out.append(("weight-line-extra-words", l))
    l = list(lines); l[-1] = " ".join(l[-1].split()[:3]); out.append(("weight-line-three-words", l))
    l = list(lines); del l[mark]; out.append(("no-marker", l))
    l = list(lines[:mark]); out.append(("truncated-before-marker", l))
    l = []; out.append(("empty-file", l))
    l = list(lines) + ["", "trailing text"]; out.append(("trailing-text", l))
    # the same numbers in exponent notation (P/V/E groups, coordinates, modes, weights)
    def respell(line, style):
        toks = line.split()
        outt = []
        for t in toks:
            try:
                x = float(t)
            except ValueError:
                outt.append(t); continue
            outt.append({"e": "%.9e" % x, "E": "%.7E" % x, "bare": ("%.9e" % x).replace("e+0", "e").replace("e+", "e").replace("e-0", "e-")}[style])
        return " ".join(outt)
    for style in ("e", "E", "bare"):
        l = list(lines)
        for i in range(first, len(l)):
            if i != mark and l[i].strip(): l[i] = respell(l[i], style)
        out.append(("exponent-notation-" + style, l))
    l = list(lines); l[first] = "P= 1.5e3 V= 2.5E+2 E= -3.5e-1"; out.append(("pve-exponent-only", l))
    return [(k, "\n".join(v) + ("\n" if v else "")) for k, v in out]


def real_read_energy_text(text, tmp):
    from cij.io.traditional.qha_input import read_energy
    p = os.path.join(tmp, "variant01")
    with open(p, "w", encoding="utf8") as fp: fp.write(text)
    try:
        return _from_impl(read_energy(p))
    except Exception:
        return "error"


def run_energy(ctx: Ctx, res: Result, tmp, n_cases):
    rng = ctx.rng
    dist = res.distribution.setdefault("energy", {"cases": 0, "numbers": 0, "nv": {}, "nq": {}, "np_bins": {},
                                                  "wider_than_format": 0, "printed_as_zero": 0, "variants": {},
                                                  "variant_errors": 0, "variant_ok": 0, "crossing_cases": 0,
                                                  "unsorted_mode_lists": 0, "mode_lists": 0, "raw_line_reads": 0})
    cases = []
    sizes = [(1, 1, 3), (12, 10, 60), (12, 1, 3), (1, 10, 60), (2, 2, 6)]
    for i in range(n_cases):
        if i < len(sizes): nv, nq, np_ = sizes[i]
        else: nv, nq, np_ = int(rng.integers(1, 13)), int(rng.integers(1, 11)), int(rng.integers(3, 61))
        cases.append(gen_energy_case(rng, nv, nq, np_))
    # crossing branches: mode lists that are NOT ascending and differ in order from volume to volume
    for i in range(max(3, n_cases // 4)):
        nv, nq, np_ = [(3, 2, 6), (12, 3, 9), (2, 1, 3)][i] if i < 3 else \
            (int(rng.integers(2, 13)), int(rng.integers(1, 6)), int(rng.integers(3, 31)))
        cases.insert(2 + 2 * i, gen_energy_crossing(rng, nv, nq, np_))
        dist["crossing_cases"] += 1
    # model answers in one batch per few cases (keeps memory small)
    for ci, case in enumerate(cases):
        if ctx.time_left() < 60: res.notes.append("energy stream cut short by the time budget"); break
        text, got = real_write_read(case, tmp)
        res.evaluations += 1
        dist["cases"] += 1
        dist["nv"][case["nv"]] = dist["nv"].get(case["nv"], 0) + 1
        dist["nq"][case["nq"]] = dist["nq"].get(case["nq"], 0) + 1
        b = f"{(case['np'] // 10) * 10}-{(case['np'] // 10) * 10 + 9}"
        dist["np_bins"][b] = dist["np_bins"].get(b, 0) + 1
        dist["numbers"] += case["nv"] * (3 + case["nq"] * (3 + case["np"])) + 4 * case["nq"]
        dist["unsorted_mode_lists"] += _unsorted_lists(case)
        dist["mode_lists"] += case["nv"] * case["nq"]
        # ---- oracle: the generating data
        for what, obs, exp in oracle_energy(case, got):
            res.oracle_failures.append(OracleFailure(
                what=f"write_energy/read_energy round trip: {what}", input={"kind": "energy", "case": case},
                observed=obs, expected=exp, site=f"energy-roundtrip:{what.split('[')[0]}"))
            break
        # ---- correspondence with the model
        m = ctx.driver.ask([{"op": "c17.write_read", "data": _enc_case(case)}])[0]
        if text is not None:
            real_tok = [[_canon_tok(t) for t in l] for l in _tokens(text)]
            for l in real_tok:
                for t in l:
                    if t in ("0.000000", "0.0000"): dist["printed_as_zero"] += 1
            dist["wider_than_format"] += sum(1 for l in _tokens(text)[5:] for t in l
                                             if t[-1].isdigit() and len(t) > (10 if len(t.split(".")[-1]) == 4 else 12))
        else:
            real_tok = "error"
        model_tok = m["lines"] if m["lines"] == "error" else [[_canon_tok(t) for t in l] for l in m["lines"]]
        ok = True
        if real_tok != model_tok:
            ok = False
            first = next((i for i, (a, b) in enumerate(zip(real_tok, model_tok)) if a != b), None) \
                if isinstance(real_tok, list) and isinstance(model_tok, list) else None
            res.disagreements.append(Disagreement("c17.write_read:lines", {"kind": "energy", "case": case},
                                                  real_tok[first] if first is not None else str(real_tok)[:200],
                                                  model_tok[first] if first is not None else str(model_tok)[:200],
                                                  note=f"first differing line {first}"))
        mread = m["read"] if m["read"] == "error" else _model_data_to_float(m["read"])
        gcmp = "error" if isinstance(got, str) else got
        if mread != gcmp:
            ok = False
            res.disagreements.append(Disagreement("c17.write_read:read", {"kind": "energy", "case": case},
                                                  str(gcmp)[:300], str(mread)[:300]))
        if m["round_eq"] is not True and m["lines"] != "error":
            ok = False
            res.disagreements.append(Disagreement("c17.write_read:round_eq", {"kind": "energy", "case": case}, None, m["round_eq"],
                                                  note="model: readEnergy (writeEnergy d) ≠ roundAll d (theorem read_write_energy contradicted?)"))
        if ok: res.traces_validated += 1
        if ci < 2 and not isinstance(got, str):
            res.samples.append({"stream": "energy", "nv": case["nv"], "nq": case["nq"], "np": case["np"],
                                "generated P,V,E[0]": case["volumes"][0][:3], "read back": got["volumes"][0][:3],
                                "file line": text.split("\n")[5]})
        # ---- the model tokenising the RAW lines itself (Regex.splitWs = str.split())
        if text is not None and case["nv"] * case["nq"] * case["np"] <= 1500:
            mr = ctx.driver.ask([{"op": "c17.read_energy_raw", "lines": text.split("\n")[:-1]}])[0]
            dist["raw_line_reads"] += 1
            mrv = mr if mr == "error" else _model_data_to_float(mr)
            if mrv != gcmp:
                res.disagreements.append(Disagreement("c17.read_energy_raw", {"kind": "energy", "case": case},
                                                      str(gcmp)[:300], str(mrv)[:300], note="model splitting the raw lines"))
            else:
                res.traces_validated += 1
        # ---- variants (reader only), on small cases
        if text is not None and case["nv"] * case["nq"] * case["np"] <= 400:
            vs = energy_variants(rng, text, case)
            ops = [{"op": "c17.read_energy", "lines": _tokens(t)} for _, t in vs]
            ms = ctx.driver.ask(ops)
            for (kind, t), mm in zip(vs, ms):
                real = real_read_energy_text(t, tmp)
                res.evaluations += 1
                dist["variants"][kind] = dist["variants"].get(kind, 0) + 1
                if real == "error": dist["variant_errors"] += 1
                else: dist["variant_ok"] += 1
                mv = mm if mm == "error" else _model_data_to_float(mm)
                if mv != real:
                    res.disagreements.append(Disagreement("c17.read_energy", {"kind": "energy-text", "variant": kind, "text": t},
                                                          str(real)[:300], str(mv)[:300]))
                else:
                    res.traces_validated += 1


# ===================================================================================== static-table stream
def spell(rng, pair, style=None):
    """a column name for the Voigt pair (i, j), i <= j: prefix / case / transposition / 4-index spelling"""
    i, j = pair
    if rng.random() < 0.25: i, j = j, i
    prefix = str(rng.choice(["c", "C", "C_", "c_", "", "cij_", "c-", "C."])) if style is None else style
    if rng.random() < 0.3:
        a = STD_OF[i][int(rng.integers(0, len(STD_OF[i])))]; b = STD_OF[j][int(rng.integers(0, len(STD_OF[j])))]
        return f"{prefix}{a[0]}{a[1]}{b[0]}{b[1]}"
    return f"{prefix}{i}{j}"


EXP_COUNT = {"tokens": 0}


def exp_token(rng, x):
    """exponent notations float() accepts: e / E, signed or bare exponent, no leading zero, trailing point"""
    f = int(rng.integers(0, 6))
    if f == 0: t = "%.6e" % x
    elif f == 1: t = "%.3E" % x
    elif f == 2: t = "%.10e" % x
    elif f == 3: t = ("%.4e" % x).replace("e+0", "e").replace("e+", "e").replace("e-0", "e-")      # 1.5000e2
    elif f == 4:
        m, e = ("%.2e" % x).split("e")                                                           # mantissa without a point: 123e1
        t = m.replace(".", "") + "e%d" % (int(e) - 2)
    else: t = "%+.5E" % x
    EXP_COUNT["tokens"] += 1
    return t


def num_token(rng, x):
    f = rng.integers(0, 8)
    if f == 0: return repr(float(x))
    if f == 1: return "%.3f" % x
    if f == 2: return "%.8f" % x
    if f == 3: return "%.6e" % x
    if f == 4: return "%d" % round(x) if abs(x) < 1e9 else repr(float(x))
    if f >= 6: return exp_token(rng, x)
    return ("%+.4f" % x)


def gen_table(rng, lattice=None, nv=None, keys=None, styles=None, clean=False):
    """a static table as TEXT plus what it tabulates (tokens); returns dict(text=..., expect=...)"""
    nv = int(rng.integers(1, 13)) if nv is None else nv
    all_pairs = [(i, j) for i in range(1, 7) for j in range(i, 7)]
    if keys is None:
        n = int(rng.integers(0, 22))
        idx = rng.permutation(21)[:n]
        pairs = [all_pairs[k] for k in idx]
    else:
        pairs = [(int(k[0]), int(k[1])) for k in keys]
        pairs = [pairs[k] for k in rng.permutation(len(pairs))]
    names = [spell(rng, p, None if styles is None else str(rng.choice(styles))) for p in pairs]
    vname = str(rng.choice(["V", "vol", "Volume", "v", "V(A^3)"]))
    fmt = (lambda x: "%.3f" % x) if clean else (lambda x: num_token(rng, x))
    vref_t = "%.5f" % rng.uniform(300, 900) if clean else num_token(rng, rng.uniform(300, 900))
    mass_t = "%.3f" % rng.uniform(50, 400) if clean else num_token(rng, rng.uniform(50, 400))
    extra = "" if rng.random() < 0.5 else " some (trailing) words 12"
    lines = [str(rng.choice(["V_0 N cellmass synthetic", "title", "  indented title  ", "1 2 3"])),
             f"{vref_t} {nv} {mass_t}{extra}", " ".join([vname] + names)]
    rows = []
    v0 = rng.uniform(400, 700)
    for iv in range(nv):
        vt = "%.5f" % (v0 * (1.06 - 0.02 * iv)) if clean else num_token(rng, v0 * (1.06 - 0.02 * iv))
        vals = []
        for (i, j) in pairs:
            base = rng.uniform(80, 600) if (i == j or j <= 3) else rng.uniform(-40, 40)
            vals.append(fmt(base))
        rows.append([vt] + vals)
        sep = str(rng.choice([" ", "  ", "\t", "   "]))
        lines.append(("  " if rng.random() < 0.3 else "") + sep.join(rows[-1]))
    lattice = bool(rng.random() < 0.5) if lattice is None else lattice
    lat_rows, tail_kind = [], "eof"
    if lattice:
        lines.append(str(rng.choice([" lattice_a lattice_b lattice_c ", "a b c", "#", "lattice"])))
        ncol = int(rng.choice([3, 3, 3, 1, 6]))
        for iv in range(nv):
            lat_rows.append([("%.15f" % rng.uniform(0.5, 3.0)) for _ in range(ncol)])
            lines.append("   " + "   ".join(lat_rows[-1]) + (" " if rng.random() < 0.3 else ""))
        tail_kind = "lattice"
    else:
        u = rng.random()
        if u < 0.3: lines.append(""); tail_kind = "blank-line"
        elif u < 0.5: lines += ["", "1 2 3", "not a lattice block"]; tail_kind = "blank-then-text"
    text = "\n".join(lines) + ("\n" if rng.random() < 0.9 else "")
    expect = {"vref": vref_t, "nv": nv, "cellmass": mass_t, "pairs": [list(p) for p in pairs],
              "rows": rows, "lattice": lat_rows}
    return {"text": text, "expect": expect, "names": names, "vname": vname, "tail": tail_kind}


def real_read_elast_text(text, tmp, name="elast.dat"):
    from cij.io.traditional.elast_dat import read_elast_data
    p = os.path.join(tmp, name)
    with open(p, "w", encoding="utf8") as fp: fp.write(text)
    try:
        return read_elast_data(p)
    except Exception as e:
        return "error:" + type(e).__name__


def canon_elast(d):
    """ElastData -> comparable structure; keys as sorted Voigt pair (harness reads only `.v` of the key) or raw str"""
    if isinstance(d, str): return "error"
    vols = []
    for v in d.volumes:
        items = []
        for k, x in v.static_elastic_modulus.items():
            kk = ["v", int(k.v[0]), int(k.v[1])] if hasattr(k, "v") else ["raw", str(k)]
            items.append((kk, float(x)))
        vols.append([float(v.volume), sorted(items, key=lambda e: (e[0][0], str(e[0][1:])))])
    return {"vref": float(d.vref), "nv": int(d.nv), "cellmass": float(d.cellmass), "volumes": vols,
            "lattice": [[float(x) for x in r] for r in d.lattice_parmeters]}


def canon_elast_model(m):
    if m == "error": return "error"
    vols = []
    for v, items in m["volumes"]:
        its = []
        for k, x in items:
            kk = ["v", k["v"][0], k["v"][1]] if "v" in k else ["raw", k["raw"]]
            its.append((kk, _rat_to_float(x)))
        vols.append([_rat_to_float(v), sorted(its, key=lambda e: (e[0][0], str(e[0][1:])))])
    return {"vref": _rat_to_float(m["vref"]), "nv": m["nv"], "cellmass": _rat_to_float(m["cellmass"]), "volumes": vols,
            "lattice": [[_rat_to_float(x) for x in r] for r in m["lattice"]]}


def oracle_elast(expect, d):
    """exactly the tabulated numbers, keyed by canonical Voigt pair"""
    if isinstance(d, str): return [("read_elast_data raised", d, "a table")]
    bad = []
    if float(d.vref) != float(expect["vref"]): bad.append(("vref", d.vref, expect["vref"]))
    if d.nv != expect["nv"]: bad.append(("nv", d.nv, expect["nv"]))
    if float(d.cellmass) != float(expect["cellmass"]): bad.append(("cellmass", d.cellmass, expect["cellmass"]))
    if len(d.volumes) != expect["nv"]:
        bad.append(("number of volumes", len(d.volumes), expect["nv"])); return bad
    pairs = [tuple(p) for p in expect["pairs"]]
    for iv, (v, row) in enumerate(zip(d.volumes, expect["rows"])):
        if float(v.volume) != float(row[0]): bad.append((f"volume[{iv}]", v.volume, row[0]))
        want = {p: float(t) for p, t in zip(pairs, row[1:])}
        try:
            have = {(int(k.v[0]), int(k.v[1])): float(x) for k, x in v.static_elastic_modulus.items()}
        except AttributeError:
            bad.append((f"keys of row {iv}", [str(k) for k in v.static_elastic_modulus], "canonical keys")); break
        if have != want:
            diff = sorted(set(have.items()) ^ set(want.items()))[:4]
            bad.append((f"components of row {iv}", diff, "tabulated values under canonical keys")); break
    want_lat = [[float(t) for t in r] for r in expect["lattice"]]
    have_lat = [[float(x) for x in r] for r in d.lattice_parmeters]
    if have_lat != want_lat:
        k = next((i for i, (a, b) in enumerate(zip(have_lat, want_lat)) if a != b), min(len(have_lat), len(want_lat)))
        bad.append(("lattice block", {"rows": len(have_lat), "first differing row": k, "row": have_lat[k:k + 1]},
                    {"rows": len(want_lat), "row": want_lat[k:k + 1]}))
    return bad[:5]


def table_variants(rng, t):
    lines = t["text"].split("\n")
    if lines[-1] == "": lines = lines[:-1]
    nv = t["expect"]["nv"]
    out = []
    def add(kind, l): out.append((kind, "\n".join(l) + "\n"))
    for bad in ["c1", "c123", "c77", "c07", "V0", "c12345", "c0", "1c1", "c11x", "x", "c4a"]:
        l = list(lines); l[2] = l[2] + " " + bad
        for i in range(3, 3 + nv): l[i] = l[i] + " 1.5"
        add("name:" + bad, l)
    l = list(lines); l[2] = l[2] + " c12 c21"
    for i in range(3, 3 + nv): l[i] = l[i] + " 1.5 2.5"
    add("duplicate-canonical-key", l)
    l = list(lines); l[3] = l[3] + " 7.5"; add("row-with-extra-value", l)
    l = list(lines); l[3] = " ".join(l[3].split()[:-1]) if len(l[3].split()) > 1 else l[3]; add("row-one-value-short", l)
    l = list(lines); l[3] = l[3].replace(l[3].split()[0], "abc", 1); add("volume-not-a-number", l)
    l = list(lines); del l[3]; add("one-row-missing", l)
    l = list(lines[:3 + max(nv - 1, 0)]); add("truncated-in-rows", l)
    l = list(lines); l[3:3] = [""]; add("blank-line-in-rows", l)
    l = list(lines); f = l[1].split(); f[1] = str(nv + 1); l[1] = " ".join(f); add("nv-too-large", l)
    l = list(lines); f = l[1].split(); f[1] = str(max(nv - 1, 0)); l[1] = " ".join(f); add("nv-too-small", l)
    l = list(lines); f = l[1].split(); f[1] = "-1"; l[1] = " ".join(f); add("nv-negative", l)
    l = list(lines); f = l[1].split(); f[1] = f[1] + ".0"; l[1] = " ".join(f); add("nv-float", l)
    l = list(lines); l[1] = " ".join(l[1].split()[:2]); add("header-two-fields", l)
    l = list(lines[:2]); add("no-key-line", l)
    l = list(lines[:1]); add("title-only", l)
    add("empty", [])
    if t["expect"]["lattice"]:
        l = list(lines); del l[-1]; add("lattice-one-row-short", l)
        l = list(lines); l[-1] = l[-1] + " zz"; add("lattice-not-a-number", l)
        l = list(lines) + ["9 9 9"]; add("lattice-one-row-extra", l)
    return out


def run_elast(ctx: Ctx, res: Result, tmp, n_cases):
    rng = ctx.rng
    dist = res.distribution.setdefault("elast", {"cases": 0, "columns": {}, "with_lattice": 0, "tails": {}, "prefix_styles": {},
                                                 "four_index_names": 0, "transposed_names": 0, "variants": {},
                                                 "variant_errors": 0, "variant_ok": 0})
    for ci in range(n_cases):
        if ctx.time_left() < 45: res.notes.append("elast stream cut short by the time budget"); break
        t = gen_table(rng)
        d = real_read_elast_text(t["text"], tmp)
        res.evaluations += 1
        dist["cases"] += 1
        nc = len(t["names"]); dist["columns"][nc] = dist["columns"].get(nc, 0) + 1
        dist["with_lattice"] += bool(t["expect"]["lattice"])
        dist["tails"][t["tail"]] = dist["tails"].get(t["tail"], 0) + 1
        for nme, p in zip(t["names"], t["expect"]["pairs"]):
            pre = nme.rstrip("0123456789"); dist["prefix_styles"][pre] = dist["prefix_styles"].get(pre, 0) + 1
            digs = nme[len(pre):]
            if len(digs) == 4: dist["four_index_names"] += 1
            elif [int(digs[0]), int(digs[1])] != list(p): dist["transposed_names"] += 1
        for what, obs, exp in oracle_elast(t["expect"], d):
            res.oracle_failures.append(OracleFailure(
                what=f"read_elast_data: {what}", input={"kind": "elast", "text": t["text"], "expect": t["expect"]},
                observed=obs, expected=exp, site=f"elast-read:{what.split('[')[0].split(' of row')[0]}"))
            break
        vs = [("valid", t["text"])] + (table_variants(rng, t) if ci % 3 == 0 else [])
        ms = ctx.driver.ask([{"op": "c17.read_elast", "lines": _tokens(x)} for _, x in vs])
        for (kind, x), m in zip(vs, ms):
            real = canon_elast(d if kind == "valid" else real_read_elast_text(x, tmp))
            if kind != "valid":
                res.evaluations += 1
                dist["variants"][kind] = dist["variants"].get(kind, 0) + 1
                if real == "error": dist["variant_errors"] += 1
                else: dist["variant_ok"] += 1
            mm = canon_elast_model(m)
            if mm != real:
                res.disagreements.append(Disagreement("c17.read_elast", {"kind": "elast-text", "variant": kind, "text": x},
                                                      str(real)[:300], str(mm)[:300]))
            else:
                res.traces_validated += 1
        if ci % 4 == 0:
            lines = t["text"].split("\n")
            if lines and lines[-1] == "": lines = lines[:-1]
            mr = canon_elast_model(ctx.driver.ask([{"op": "c17.read_elast_raw", "lines": lines}])[0])
            dist["raw_line_reads"] = dist.get("raw_line_reads", 0) + 1
            if mr != canon_elast(d):
                res.disagreements.append(Disagreement("c17.read_elast_raw", {"kind": "elast-text", "variant": "valid", "text": t["text"]},
                                                      str(canon_elast(d))[:300], str(mr)[:300], note="model splitting the raw lines"))
            else:
                res.traces_validated += 1
        if ci < 2:
            res.samples.append({"stream": "elast", "key line": t["text"].split("\n")[2], "canonical pairs": t["expect"]["pairs"][:6],
                                "lattice rows": len(t["expect"]["lattice"])})
    dist["exponent_tokens"] = EXP_COUNT["tokens"]


# ===================================================================================== labels stream (both triangles, many prefixes)
LABEL_PREFIXES = ["c", "C", "C_", "c_", "", "cij", "Cij", "cij_", "x", "s", "k_", "c-", "C.", "elastic_c", "M", "_"]


def label_tables(rng):
    """per prefix three tables: the 21 upper-triangle labels `ij`, the 15 strictly-lower labels `ji`, and lower-triangle
    4-index labels; every value distinct, so a mis-keyed column shows"""
    upper = [(i, j) for i in range(1, 7) for j in range(i, 7)]
    lower = [(j, i) for (i, j) in upper if i != j]
    out = []
    for pre in LABEL_PREFIXES:
        for kind, spelled in (("upper", upper), ("lower", lower), ("lower-4-index", lower)):
            order = [spelled[k] for k in rng.permutation(len(spelled))]
            names = []
            for (a, b) in order:
                if kind == "lower-4-index":
                    sa = STD_OF[a][int(rng.integers(0, len(STD_OF[a])))]; sb = STD_OF[b][int(rng.integers(0, len(STD_OF[b])))]
                    names.append(f"{pre}{sa[0]}{sa[1]}{sb[0]}{sb[1]}")
                else:
                    names.append(f"{pre}{a}{b}")
            nv = int(rng.integers(1, 4))
            rows = []
            for iv in range(nv):
                rows.append(["%.4f" % (500.0 - 10.0 * iv)] + ["%.3f" % (100.0 * a + 10.0 * b + iv + 0.001 * k) for k, (a, b) in enumerate(order)])
            lines = ["labels %s %s" % (pre or "<none>", kind), "512.25000 %d 100.500" % nv, " ".join(["V"] + names)] + [" ".join(r) for r in rows]
            expect = {"vref": "512.25000", "nv": nv, "cellmass": "100.500", "pairs": [sorted([a, b]) for (a, b) in order],
                      "rows": rows, "lattice": []}
            out.append({"text": "\n".join(lines) + "\n", "expect": expect, "prefix": pre, "triangle": kind, "names": names})
    return out


def run_labels(ctx: Ctx, res: Result, tmp):
    dist = res.distribution.setdefault("labels", {"tables": 0, "labels": 0, "by_prefix": {}, "by_triangle": {}})
    tabs = label_tables(ctx.rng)
    ms = ctx.driver.ask([{"op": "c17.read_elast", "lines": _tokens(t["text"])} for t in tabs])
    for t, m in zip(tabs, ms):
        d = real_read_elast_text(t["text"], tmp, "labels.dat")
        res.evaluations += 1
        dist["tables"] += 1; dist["labels"] += len(t["names"])
        dist["by_prefix"][t["prefix"] or "<none>"] = dist["by_prefix"].get(t["prefix"] or "<none>", 0) + len(t["names"])
        dist["by_triangle"][t["triangle"]] = dist["by_triangle"].get(t["triangle"], 0) + len(t["names"])
        for what, obs, exp in oracle_elast(t["expect"], d):
            res.oracle_failures.append(OracleFailure(
                what=f"read_elast_data ({t['triangle']} labels, prefix {t['prefix']!r}): {what}",
                input={"kind": "elast", "text": t["text"], "expect": t["expect"]}, observed=obs, expected=exp,
                site=f"elast-read:{what.split('[')[0].split(' of row')[0]}"))
            break
        if canon_elast_model(m) != canon_elast(d):
            res.disagreements.append(Disagreement("c17.read_elast", {"kind": "elast-text", "variant": "labels", "text": t["text"]},
                                                  str(canon_elast(d))[:300], str(canon_elast_model(m))[:300]))
        else:
            res.traces_validated += 1


# ===================================================================================== re-read stream (same path, history)
def expect_from_text(text):
    """the harness' own reading of a static table it generated with names `<prefix>IJ` (for the oracle)"""
    toks = _tokens(text)
    nv = int(toks[1][1])
    pairs = []
    for n in toks[2][1:]:
        digs = n[len(n.rstrip("0123456789")):]
        pairs.append(sorted([int(digs[0]), int(digs[1])]))
    lat = []
    if len(toks) > 3 + nv and toks[3 + nv]:
        lat = toks[4 + nv: 4 + 2 * nv]
    return {"vref": toks[1][0], "nv": nv, "cellmass": toks[1][2], "pairs": pairs, "rows": toks[3:3 + nv], "lattice": lat}


def _bump_digit(text, nv):
    """the same text with one digit of one table value changed (same length): an in-place edit of the file"""
    lines = text.split("\n")
    row = lines[3 + (nv // 2)]
    k = max(i for i, ch in enumerate(row) if ch.isdigit())
    row = row[:k] + str((int(row[k]) + 3) % 10) + row[k + 1:]
    lines[3 + (nv // 2)] = row
    return "\n".join(lines)


def reread_elast_history(system, text, tmp, symmetry, package_level=False):
    """read, fill the result in place, read again; then rewrite the file in place (same size, mtime restored) and read.
    returns [(what, observed, expected)] of the property on the second and third read.
    `package_level`: the reader as the calculator reaches it (`cij.io.traditional.read_elast_data`) instead of the
    sub-module's function"""
    from cij.io.traditional.elast_dat import apply_symetry_on_elast_data
    if package_level:
        import cij.io.traditional
        read_elast_data = cij.io.traditional.read_elast_data
    else:
        from cij.io.traditional.elast_dat import read_elast_data
    path = os.path.join(tmp, "reread.dat")
    with open(path, "w", encoding="utf8") as fp: fp.write(text)
    bad = []
    try:
        d1 = read_elast_data(path)
        apply_symetry_on_elast_data(d1, symmetry)
    except BaseException as e:
        return [("first read / in-place filling raised", type(e).__name__, "a filled table")]
    try:
        d2 = read_elast_data(path)
    except BaseException as e:
        return [("second read raised", type(e).__name__, "the table")]
    for w, o, e in oracle_elast(expect_from_text(text), d2):
        bad.append((f"second read after in-place filling of the first result: {w}", o, e)); break
    st = os.stat(path)
    text2 = _bump_digit(text, int(text.split("\n")[1].split()[1]))
    with open(path, "w", encoding="utf8") as fp: fp.write(text2)
    os.utime(path, ns=(st.st_atime_ns, st.st_mtime_ns))
    try:
        d3 = read_elast_data(path)
    except BaseException as e:
        return bad + [("read after in-place rewrite raised", type(e).__name__, "the table")]
    for w, o, e in oracle_elast(expect_from_text(text2), d3):
        bad.append((f"read after an in-place rewrite (same size, same mtime): {w}", o, e)); break
    return bad


def reread_energy_history(case1, case2, tmp, package_level=False):
    """write, read, write another data set of the same shape to the same path (same size, mtime restored), read"""
    from cij.io.traditional.qha_input import write_energy
    if package_level:
        import cij.io.traditional
        read_energy = cij.io.traditional.read_energy
    else:
        from cij.io.traditional.qha_input import read_energy
    path = os.path.join(tmp, "reread01")
    bad = []
    try:
        write_energy(path, _to_impl(case1)); r1 = _from_impl(read_energy(path))
        st = os.stat(path)
        write_energy(path, _to_impl(case2))
        same_size = os.stat(path).st_size == st.st_size
        os.utime(path, ns=(st.st_atime_ns, st.st_mtime_ns))
        r2 = _from_impl(read_energy(path))
    except BaseException as e:
        return [("write/read history raised", type(e).__name__, "two data sets")], False
    for w, o, e in oracle_energy(case1, r1): bad.append((f"first round trip: {w}", o, e)); break
    for w, o, e in oracle_energy(case2, r2): bad.append((f"second data set written to the same path: {w}", o, e)); break
    return bad, same_size


def run_reread(ctx: Ctx, res: Result, tmp, n):
    rng = ctx.rng
    dist = res.distribution.setdefault("reread", {"elast_histories": 0, "energy_histories": 0, "energy_same_size": 0, "systems": {}})
    for i in range(n):
        system = SYSTEMS[1 + i % 8]                                        # every system that fills something
        case = gen_fill_table(rng, system)
        sym = {"system": system}
        pkg = i % 2 == 0
        res.evaluations += 1; dist["elast_histories"] += 1; dist["package_level_reader"] = dist.get("package_level_reader", 0) + pkg
        dist["systems"][system] = dist["systems"].get(system, 0) + 1
        for what, obs, exp in reread_elast_history(system, case["text"], tmp, sym, package_level=pkg):
            res.oracle_failures.append(OracleFailure(
                what=f"read_elast_data history: {what}",
                input={"kind": "reread-elast", "system": system, "text": case["text"], "package_level": pkg},
                observed=obs, expected=exp, site="elast-reread:" + what.split(":")[0]))
            break
    for i in range(max(2, n // 3)):
        nv, nq, np_ = int(rng.integers(1, 5)), int(rng.integers(1, 4)), int(rng.integers(3, 10))
        c1, c2 = gen_energy_case(rng, nv, nq, np_), gen_energy_case(rng, nv, nq, np_)
        c2["nm"], c2["na"] = c1["nm"], c1["na"]
        # keep every number inside the format width, so that both files have the same size
        def clip(c):
            for v in c["volumes"]:
                v[0], v[1], v[2] = [max(-9999.0, min(99999.0, x)) for x in v[:3]]
                for q in v[3]:
                    q[0] = [max(-999.0, min(9999.0, x)) for x in q[0]]; q[1] = [max(-9999.0, min(99999.0, x)) for x in q[1]]
            for w in c["weights"]:
                w[0] = [max(-99.0, min(999.0, x)) for x in w[0]]; w[1] = max(-99.0, min(999.0, w[1]))
        clip(c1); clip(c2)
        pkg = i % 2 == 0
        bad, same = reread_energy_history(c1, c2, tmp, package_level=pkg)
        res.evaluations += 1; dist["energy_histories"] += 1; dist["energy_same_size"] += bool(same)
        dist["package_level_reader"] = dist.get("package_level_reader", 0) + pkg
        for what, obs, exp in bad:
            res.oracle_failures.append(OracleFailure(
                what=f"write_energy/read_energy history: {what}",
                input={"kind": "reread-energy", "case1": c1, "case2": c2, "package_level": pkg},
                observed=obs, expected=exp, site="energy-reread:" + what.split(":")[0]))
            break


# ===================================================================================== fill stream
def gen_fill_table(rng, system, style="c", ints=False, redundant=True, small=False):
    """small: one independent coupling (a key with an index 4-6 and two different indices) is SMALL but not vanishing at every volume
    (2e-4 … 9e-4 GPa: far above the drop tolerance 1e-8 the command documents) and printed with 6 decimals"""
    keys = list(INDEPENDENT[system])
    if redundant and system not in ("triclinic", "monoclinic", "orthorhombic") and rng.random() < 0.5:
        keys.append("22")          # c22 = c11 in every higher system: a consistent redundant column
    nv = int(rng.integers(1, 13))
    order = [int(k) for k in rng.permutation(len(keys))]
    names, cols = [], []
    v0 = rng.uniform(400, 700)
    vols = [round(v0 * (1.06 - 0.02 * iv), int(rng.integers(2, 6))) for iv in range(nv)]
    base = {}
    for k in INDEPENDENT[system]:
        i, j = int(k[0]), int(k[1])
        b = rng.uniform(300, 600) if (i == j and i <= 3) else rng.uniform(90, 200) if i == j else \
            rng.uniform(60, 160) if j <= 3 else rng.uniform(-30, 30)
        base[k] = [round(b * (1 + 0.05 * iv), 3) for iv in range(nv)]
    base["22"] = base.get("22", base["11"])
    small_key = None
    if small and not ints:
        cand = [k for k in INDEPENDENT[system] if k[0] != k[1] and int(k[1]) >= 4]
        if cand:
            small_key = cand[int(rng.integers(0, len(cand)))]
            sg = 1.0 if rng.random() < 0.5 else -1.0
            base[small_key] = [round(sg * (2e-4 + 7e-4 * (iv + 1) / (nv + 1)), 6) for iv in range(nv)]
    for o in order:
        k = keys[o]
        st = style if isinstance(style, str) else str(rng.choice(style))
        names.append(st + k)
        cols.append(base[k] if k in base else base["11"])
    lattice = bool(rng.random() < 0.6)
    lines = ["V_0 N cellmass %s %s" % (system, rng.choice(["", "(24.305+16.0*3)", "x y z"])),
             "%.8f %d %.3f%s" % (vols[min(1, nv - 1)], nv, rng.uniform(50, 400), rng.choice(["", "  trailing"])),
             " ".join(["V"] + names)]
    for iv in range(nv):
        if ints:
            lines.append("%.5f " % vols[iv] + " ".join("%d" % round(c[iv]) for c in cols))
        else:
            lines.append("%.8f   " % vols[iv] + "  ".join(("%.6f" if keys[order[ci]] == small_key else "%.3f") % c[iv] for ci, c in enumerate(cols)))
    tail = []
    if lattice:
        tail.append(" lattice_a lattice_b lattice_c ")
        for iv in range(nv):
            tail.append("   " + "   ".join("%.15f" % rng.uniform(0.5, 3.0) for _ in range(3)) + " ")
    elif rng.random() < 0.5:
        tail += ["", "free text after a blank line"]
    text = "\n".join(lines + tail) + "\n"
    given = {names[c]: [float("%d" % round(x)) if ints else float(("%.6f" if keys[order[c]] == small_key else "%.3f") % x) for x in cols[c]]
             for c in range(len(names))}
    return {"text": text, "system": system, "nv": nv, "vols": [float(("%.5f" if ints else "%.8f") % v) for v in vols],
            "names": names, "keys": [keys[o] for o in order], "given": given,
            "tail": "\n".join(tail) + ("\n" if tail else ""), "head": "\n".join(lines[:2]) + "\n"}


CLI_STATS = {"via_group": 0, "subcommand_modules_imported": [], "help_runs": 0}
SUBCOMMAND_MODULES = ["cij.cli.main", "cij.cli.static", "cij.cli.fill", "cij.cli.extract", "cij.cli.geotherm", "cij.cli.modes",
                      "cij.cli.plot"]


def _prime_group():
    """import every sub-command module and run `--help` of every command of the group once, in-process: whatever a sub-command
    does at import / registration time (global library options …) has happened before `cij fill` runs"""
    import importlib, warnings
    from click.testing import CliRunner
    from cij.cli.cij import main
    if CLI_STATS["subcommand_modules_imported"]:
        return
    with warnings.catch_warnings():
        warnings.simplefilter("ignore")
        for m in SUBCOMMAND_MODULES:
            importlib.import_module(m)
            CLI_STATS["subcommand_modules_imported"].append(m)
        for name in sorted(main.commands):
            CliRunner().invoke(main, [name, "--help"]); CLI_STATS["help_runs"] += 1


def run_cli(text, system, tmp, extra_args=()):
    import warnings
    from click.testing import CliRunner
    from cij.cli.cij import main          # the documented command: `cij fill -s SYSTEM FILE` (the group, as installed)
    _prime_group()
    CLI_STATS["via_group"] += 1
    with warnings.catch_warnings():
        warnings.simplefilter("ignore")
        import pandas  # noqa: F401  (the command imports these lazily; import them outside the captured run)
        import cij.util.fill  # noqa: F401
    p = os.path.join(tmp, "fill_in.dat")
    with open(p, "w") as fp: fp.write(text)
    args = ["fill"] + (["-s", system] if system else []) + list(extra_args) + [p]
    r = CliRunner().invoke(main, args)
    if r.exit_code != 0:
        return "error:" + (type(r.exception).__name__ if r.exception is not None else str(r.exit_code))
    return r.stdout          # stdout only: warnings raised by lazy imports inside the command go to stderr


def real_filled_frame(text, system):
    """what the command hands to / gets from fill_cij (the model's `fill` parameter), or None if it raises"""
    import pandas
    from cij.util.fill import fill_cij
    lines = text.split("\n")
    try:
        n = int(lines[1].strip().split()[1])
        sio = io.StringIO("\n".join(lines[2:2 + n + 1]) + "\n")
        df = pandas.read_table(sio, header=0, index_col=None, sep=r"\s+")
        df = fill_cij(df, system=system)
        return {"names": [str(c) for c in df.columns], "rows": [[f2b(float(x)) for x in row] for row in df.to_numpy()]}
    except BaseException:
        return None


def oracle_fill(case, out, tmp, symmetry=None):
    """property statement on the command's real output; independent part: header / tail text, volumes, given components.
    `symmetry`: the dictionary handed to apply_symetry_on_elast_data (default: a fresh {"system": ...}); the `shared` stream
    passes ONE dictionary object to several calls"""
    from cij.io.traditional.elast_dat import read_elast_data, apply_symetry_on_elast_data
    if out.startswith("error:"):
        return [("cij fill failed", out, "exit code 0 and a table")]
    bad = []
    if not out.startswith(case["head"]):
        bad.append(("header lines", out.split("\n")[:2], case["head"].split("\n")[:2]))
    if not out.endswith(case["tail"]) or (case["tail"] == "" and len(out.split("\n")) != case["nv"] + 4):
        bad.append(("text after the table", out.split("\n")[case["nv"] + 3:][:3], case["tail"].split("\n")[:3]))
    if len(out.split("\n")) != len(case["text"].split("\n")):
        bad.append(("number of lines", len(out.split("\n")), len(case["text"].split("\n"))))
    po = real_read_elast_text(out, tmp, "fill_out.dat")
    if isinstance(po, str):
        return bad + [("output is not a readable static table", po, "a table")]
    pi = real_read_elast_text(case["text"], tmp, "fill_in2.dat")
    if isinstance(pi, str):
        return bad + [("input table not readable", pi, "a table")]
    raw_lattice = [tuple(r) for r in pi.lattice_parmeters]
    try:
        apply_symetry_on_elast_data(pi, {"system": case["system"]} if symmetry is None else symmetry)
    except Exception as e:
        return bad + [("apply_symetry_on_elast_data raised on the parsed input", type(e).__name__, "filled parse")]
    if (po.vref, po.nv, po.cellmass) != (pi.vref, pi.nv, pi.cellmass):
        bad.append(("vref/nv/cellmass", (po.vref, po.nv, po.cellmass), (pi.vref, pi.nv, pi.cellmass)))
    if [tuple(r) for r in po.lattice_parmeters] != raw_lattice:
        bad.append(("lattice block", po.lattice_parmeters[:2], raw_lattice[:2]))
    if len(po.volumes) != case["nv"]:
        return bad + [("number of volumes", len(po.volumes), case["nv"])]
    tol = 0.5e-6 + 1e-9
    for iv, (a, b) in enumerate(zip(po.volumes, pi.volumes)):
        if abs(a.volume - case["vols"][iv]) > tol: bad.append((f"volume[{iv}] vs generating data", a.volume, case["vols"][iv]))
        try:
            da = {(int(k.v[0]), int(k.v[1])): float(x) for k, x in a.static_elastic_modulus.items()}
        except AttributeError:
            bad.append(("keys of the output", [str(k) for k in a.static_elastic_modulus], "canonical keys")); break
        db = {(int(k.v[0]), int(k.v[1])): float(x) for k, x in b.static_elastic_modulus.items()}
        if set(da) != set(db):
            bad.append((f"component set of row {iv}", sorted(da), sorted(db))); break
        worst = max(da, key=lambda k: abs(da[k] - db[k])) if da else None
        if worst is not None and abs(da[worst] - db[worst]) > tol:
            bad.append((f"component c{worst[0]}{worst[1]} of row {iv} vs filled parse of the input", da[worst], db[worst])); break
        for nme, k in zip(case["names"], case["keys"]):
            p = (int(k[0]), int(k[1]))
            if p in da and abs(da[p] - case["given"][nme][iv]) > 1e-5:
                bad.append((f"given component {nme} of row {iv} vs generating data", da[p], case["given"][nme][iv])); break
    return bad[:6]


def fill_case_check(ctx, res, case, tmp, dist, known_site=None, symmetry=None, extra_args=()):
    out = run_cli(case["text"], case["system"], tmp, extra_args)
    res.evaluations += 1
    fails = oracle_fill(case, out, tmp, symmetry)
    if fails:
        what, obs, exp = fails[0]
        site = known_site or f"fill-cli:{what.split('[')[0].split(' of row')[0]}"
        res.oracle_failures.append(OracleFailure(
            what=f"cij fill -s {case['system']}: {what}", input={"kind": "fill", "case": case, "symmetry_history": case.get("symmetry_history")},
            observed=obs, expected=exp, site=site))
    # correspondence: the re-emission of the model with the real fill_cij result as parameter
    filled = real_filled_frame(case["text"], case["system"])
    m = ctx.driver.ask([{"op": "c17.fill", "lines": _tokens(case["text"]), "filled": filled, "decimals": 6}])[0]
    ok = True
    if out.startswith("error:") or m["lines"] == "error":
        if not (out.startswith("error:") and m["lines"] == "error"):
            ok = False
            res.disagreements.append(Disagreement("c17.fill:status", {"kind": "fill", "case": case}, out[:200], str(m["lines"])[:200]))
    else:
        ot = _tokens(out)
        nv = case["nv"]
        if ot[:2] != m["lines"][:2] or ot[3 + nv:] != m["lines"][3 + nv:] or len(ot) != len(m["lines"]) or ot[2] != m["lines"][2]:
            ok = False
            res.disagreements.append(Disagreement("c17.fill:lines", {"kind": "fill", "case": case}, ot[:3], m["lines"][:3],
                                                  note="header / names / tail tokens differ"))
        po = canon_elast(real_read_elast_text(out, tmp, "fill_out.dat"))
        pm = canon_elast_model(m["parsed"])
        if not _close_elast(po, pm, 1e-9):
            ok = False
            res.disagreements.append(Disagreement("c17.fill:parsed", {"kind": "fill", "case": case}, str(po)[:300], str(pm)[:300]))
    if ok: res.traces_validated += 1
    dist["cases"] += 1
    dist["systems"][case["system"]] = dist["systems"].get(case["system"], 0) + 1
    dist["with_tail"] += bool(case["tail"])
    return out, fails


def _close_elast(a, b, tol):
    if a == "error" or b == "error": return a == b
    if (a["nv"], len(a["volumes"]), len(a["lattice"])) != (b["nv"], len(b["volumes"]), len(b["lattice"])): return False
    if a["lattice"] != b["lattice"] or a["vref"] != b["vref"] or a["cellmass"] != b["cellmass"]: return False
    for (va, ia), (vb, ib) in zip(a["volumes"], b["volumes"]):
        if abs(va - vb) > tol * max(1.0, abs(va)): return False
        if [k for k, _ in ia] != [k for k, _ in ib]: return False
        if any(abs(x - y) > tol * max(1.0, abs(x)) for (_, x), (_, y) in zip(ia, ib)): return False
    return True


def small_units(case, factor=1e-4):
    """the same table in other units (every component times `factor`, 7 decimals): all values far below 0.1"""
    lines = case["text"].split("\n")
    nv = case["nv"]
    for i in range(3, 3 + nv):
        t = lines[i].split()
        lines[i] = t[0] + "   " + "  ".join("%.7f" % (float(x) * factor) for x in t[1:])
    c = dict(case)
    c["text"] = "\n".join(lines)
    c["given"] = {k: [float("%.7f" % (x * factor)) for x in v] for k, v in case["given"].items()}
    return c


def run_fill_shared(ctx: Ctx, res: Result, tmp, n_systems):
    """ONE symmetry dictionary object for two tables in a row (what a driver script looping over files does)"""
    rng = ctx.rng
    dist = res.distribution.setdefault("fill", {"cases": 0, "systems": {}, "with_tail": 0, "no_system": 0,
                                                "probe_int_columns": 0, "probe_name_spellings": 0})
    sd = res.distribution.setdefault("fill_shared", {"dict_objects": 0, "calls": 0, "bare": 0, "full_settings_block": 0,
                                                     "small_units_tables": 0})
    systems = [SYSTEMS[1 + int(k)] for k in rng.permutation(8)[:n_systems]]
    for si, system in enumerate(systems):
        if ctx.time_left() < 30: res.notes.append("shared-dictionary stream cut short by the time budget"); return
        full = si % 2 == 0
        sym = {"system": system, "ignore_residuals": False, "ignore_rank": False, "drop_atol": 1.0e-8, "residual_atol": 0.1} \
            if full else {"system": system}
        sd["dict_objects"] += 1; sd["full_settings_block" if full else "bare"] += 1
        before = copy.deepcopy(sym)
        for rep in range(2):
            case = gen_fill_table(rng, system, redundant=not full)
            if full:
                case = small_units(case); sd["small_units_tables"] += 1
            case["symmetry_history"] = {"initial": before, "call": rep + 1}
            fill_case_check(ctx, res, case, tmp, dist, symmetry=sym,
                            extra_args=("--drop-atol", repr(before["drop_atol"])) if full else ())
            sd["calls"] += 1


def run_fill(ctx: Ctx, res: Result, tmp, per_system):
    rng = ctx.rng
    dist = res.distribution.setdefault("fill", {"cases": 0, "systems": {}, "with_tail": 0, "no_system": 0,
                                                "probe_int_columns": 0, "probe_name_spellings": 0})
    first = True
    for rep in range(per_system):
        for system in SYSTEMS:
            if ctx.time_left() < 30: res.notes.append("fill stream cut short by the time budget"); return
            case = gen_fill_table(rng, system, style=["c", "C"] if rep % 2 else "c", small=(rep % 2 == 0))
            out, fails = fill_case_check(ctx, res, case, tmp, dist)
            if first and not fails:
                first = False
                res.samples.append({"stream": "fill", "system": system, "input key line": case["text"].split("\n")[2],
                                    "output key line": out.split("\n")[2], "output row 0": out.split("\n")[3]})
    # no system given: the table must come back unchanged (to pandas' printed precision)
    case = gen_fill_table(rng, "triclinic"); case["system"] = None
    out = run_cli(case["text"], None, tmp); res.evaluations += 1; dist["no_system"] += 1
    po, pi = real_read_elast_text(out, tmp, "o.dat") if not out.startswith("error") else out, real_read_elast_text(case["text"], tmp, "i.dat")
    if isinstance(po, str) or not _close_elast(canon_elast(po), canon_elast(pi), 1e-6) or not out.startswith(case["head"]) \
            or not out.endswith(case["tail"]):
        res.oracle_failures.append(OracleFailure(what="cij fill without -s: table not returned unchanged",
                                                 input={"kind": "fill", "case": case}, observed=str(out)[:200],
                                                 expected="the input table", site="fill-cli:no-system"))
    # probes of table presentations the READER accepts (an all-integer column; prefixes other than c/C)
    for system in ("cubic", "hexagonal"):
        case = gen_fill_table(rng, system, ints=True)
        dist["probe_int_columns"] += 1
        fill_case_check(ctx, res, case, tmp, dist, known_site="cli.fill:int64-column")
        case = gen_fill_table(rng, system, style=str(rng.choice(["C_", "c_", ""])))
        dist["probe_name_spellings"] += 1
        fill_case_check(ctx, res, case, tmp, dist, known_site="cli.fill:column-name-spelling")
    dist["cli"] = dict(CLI_STATS)


# ===================================================================================== regex / lexing correspondence
WS = [" ", "  ", "\t", " \t ", "\n", "\x0b", "\x0c", "\r", "\x1c", "\x1f", "   "]
PVE_POOL = ["P=", "V=", "E=", "x=", "==", "=", "P", "1.5", "1e3", "-2.", ".5E-2", "Pressure=", "ab=c", "a=", "=a", "P==", "7", "nan", "E=E="]


def regex_subjects(rng, n):
    """targeted ASCII subjects for the three patterns: (pattern name, subject as Python hands it to re.search)"""
    out = []
    alpha = list("cCxij_.-=+ 0123456789") + ["\t", "\n"]
    for _ in range(n):
        # REGEX_MODULUS on a column name (a word of a split line, but also words with inner junk / a final newline)
        pre = "".join(rng.choice(list("cCxijs_.-=kM"), int(rng.integers(0, 5))))
        digs = "".join(rng.choice(list("0123456789"), int(rng.integers(0, 6))))
        tail = str(rng.choice(["", "", "", "x", "\n", " ", "_1", "a2"]))
        mid = str(rng.choice(["", "", "", "1", "9x"]))
        out.append(("REGEX_MODULUS", mid + pre + digs + tail))
        out.append(("REGEX_MODULUS", "".join(rng.choice(alpha, int(rng.integers(0, 8))))))
        # REGEX_INFO_START on line.strip()
        k = int(rng.choice([5, 5, 5, 4, 6, 1, 0]))
        words = [str(rng.choice(["7", "12", "003", "4096", "0"])) if rng.random() < 0.85 else str(rng.choice(["1.5", "a", "-3", "1e2", "+4"]))
                 for _ in range(k)]
        line = str(rng.choice(["", " ", "\t"])) + "".join(w + str(rng.choice(WS)) for w in words)
        out.append(("REGEX_INFO_START", line.strip()))
        # REGEX_PVE on the raw line
        k = int(rng.integers(0, 10))
        if rng.random() < 0.5:
            words = [str(rng.choice(["", "data", "P", "#="])), "P=", str(rng.choice(PVE_POOL)), "V=", str(rng.choice(PVE_POOL)),
                     str(rng.choice(["E=", "E=", "Energy=", "="])), str(rng.choice(PVE_POOL)), str(rng.choice(["", "tail", "x= 1"]))]
            words = [w for w in words if w]
        else:
            words = [str(rng.choice(PVE_POOL)) for _ in range(k)]
        line = str(rng.choice(["", " ", "\t "])) + "".join(w + str(rng.choice(WS)) for w in words)
        if rng.random() < 0.3: line = line.rstrip()
        out.append(("REGEX_PVE", line))
    return out


def run_regex(ctx: Ctx, res: Result, n):
    """Python's re.search with the constants of the imported modules vs the Lean matcher on the GENERATED instruction lists,
    and str.split / the regexes vs the model's regex-free recognisers (under the hypotheses of the theorems)"""
    import re
    from cij.io.traditional import qha_input, elast_dat
    pats = {"REGEX_INFO_START": getattr(qha_input, "REGEX_INFO_START", None), "REGEX_PVE": getattr(qha_input, "REGEX_PVE", None),
            "REGEX_MODULUS": getattr(elast_dat, "REGEX_MODULUS", None)}
    dist = res.distribution.setdefault("regex", {"subjects": 0, "matches": {}, "no_match": {}, "lex_lines": 0})
    subs = regex_subjects(ctx.rng, n)
    ms = ctx.driver.ask([{"op": "c17.regex", "name": nm, "s": sub} for nm, sub in subs])
    ls = ctx.driver.ask([{"op": "c17.lex", "s": sub} for nm, sub in subs])
    for (nm, sub), m, lx in zip(subs, ms, ls):
        res.evaluations += 1; dist["subjects"] += 1
        try:
            r = re.search(pats[nm], sub)
            py = None if r is None else list(r.groups())
        except Exception as e:
            py = "error:" + type(e).__name__
        dist["matches" if py else "no_match"][nm] = dist["matches" if py else "no_match"].get(nm, 0) + 1
        ok = True
        if m["groups"] != py:
            ok = False
            res.disagreements.append(Disagreement("c17.regex:" + nm, {"kind": "regex", "name": nm, "s": sub}, py, m["groups"],
                                                  note="re.search with the module's constant vs the Lean matcher on the generated pattern"))
        # recognisers, where the theorems' hypotheses hold
        dist["lex_lines"] += 1
        if lx["tokens"] != sub.split():
            ok = False
            res.disagreements.append(Disagreement("c17.lex:tokens", {"kind": "regex", "name": nm, "s": sub}, sub.split(), lx["tokens"]))
        key = {"REGEX_INFO_START": "info", "REGEX_PVE": "pve", "REGEX_MODULUS": "modulus"}[nm]
        applicable = (nm == "REGEX_PVE") or (nm == "REGEX_INFO_START" and sub == sub.strip()) or (nm == "REGEX_MODULUS" and "\n" not in sub)
        if applicable and lx[key] != py:
            ok = False
            res.disagreements.append(Disagreement("c17.lex:" + key, {"kind": "regex", "name": nm, "s": sub}, py, lx[key],
                                                  note="the model's regex-free recogniser vs re.search"))
        if ok: res.traces_validated += 1


# ===================================================================================== entry points
def run(ctx: Ctx) -> Result:
    res = Result()
    res.rule = ("a case is one file: (energy) one data set written by the real write_energy and re-read, sizes 1-12 x 1-10 x 3-60 with "
                "the extreme sizes always included, plus data sets with crossing branches; (elast) one static table text; (labels) one "
                "table per prefix and triangle; (reread) one history of reads / in-place filling / in-place rewrite on one path; (fill, "
                "shared) one `cij fill` invocation through the `cij` group; (regex) one subject string for one of the three REGEX_* "
                "constants; plus variant / malformed files derived from them (reader only). distinct_nontrivial = cases whose content "
                "differs (all are random draws; the fixed variants are distinct kinds).")
    tmp = tempfile.mkdtemp(prefix="cij_c17_")
    try:
        th = ctx.thorough()
        run_regex(ctx, res, 1500 if th else 250)
        run_energy(ctx, res, tmp, 60 if th else 14)
        run_elast(ctx, res, tmp, 1500 if th else 150)
        run_labels(ctx, res, tmp)
        run_reread(ctx, res, tmp, 24 if th else 8)
        run_fill(ctx, res, tmp, 12 if th else 2)
        run_fill_shared(ctx, res, tmp, 8 if th else 4)
    finally:
        shutil.rmtree(tmp, ignore_errors=True)
    res.distinct_nontrivial = res.evaluations
    e = res.distribution.get("energy", {})
    res.notes.append(f"width overflow: {e.get('wider_than_format', 0)} of {e.get('numbers', 0)} printed numbers were wider than their format "
                     "width (%12.6f of |x| >= 1e5 or x <= -1e4, %10.4f of |x| >= 1e4 ...); fields are joined by a blank / follow 'P= ', so no "
                     "value in the property's range breaks the round trip (none observed)")
    res.notes.append("outside the quantifier, observed: a volume column whose NAME ends in a digit (V0, V_A3) makes read_elast_data raise "
                     "(its name goes through c_ too); `cij fill` prints through pandas: numbers keep 6 decimals, so volumes / components "
                     "tabulated with more than 6 decimals come back rounded (the shipped tables have <= 5 significant decimals)")
    res.extra["tolerances"] = {"energy": "1/2 unit of the printed decimal (6; 4 for q-coordinates) + 2^-51 relative (decimal->double)",
                               "elast": "exact equality with float(token)", "fill": "0.5e-6 (pandas prints 6 decimals)",
                               "model_vs_code": "tokens literal, numbers exact (Rat -> nearest double); fill parse 1e-9 relative"}
    return res


def search(ctx: Ctx, res: Result):
    """tie broken and run() found nothing: look harder (more data sets, more tables, all systems again)"""
    extra = Result()
    tmp = tempfile.mkdtemp(prefix="cij_c17s_")
    try:
        # disagreeing inputs first
        for d in res.disagreements[:10]:
            extra.oracle_failures.extend(replay(ctx, d.input))
        if not extra.oracle_failures:
            run_energy(ctx, extra, tmp, 40)
            run_elast(ctx, extra, tmp, 600)
            run_labels(ctx, extra, tmp)
            run_reread(ctx, extra, tmp, 16)
            run_fill(ctx, extra, tmp, 4)
            run_fill_shared(ctx, extra, tmp, 8)
    finally:
        shutil.rmtree(tmp, ignore_errors=True)
    return extra.oracle_failures


def replay(ctx: Ctx, payload):
    tmp = tempfile.mkdtemp(prefix="cij_c17r_")
    try:
        kind = payload.get("kind")
        if kind == "energy":
            case = payload["case"]
            _, got = real_write_read(case, tmp)
            return [OracleFailure(what=f"write_energy/read_energy round trip: {w}", input=payload, observed=o, expected=e)
                    for w, o, e in oracle_energy(case, got)[:3]]
        if kind == "elast":
            d = real_read_elast_text(payload["text"], tmp)
            return [OracleFailure(what=f"read_elast_data: {w}", input=payload, observed=o, expected=e)
                    for w, o, e in oracle_elast(payload["expect"], d)[:3]]
        if kind == "fill":
            case = payload["case"]
            hist = payload.get("symmetry_history")
            sym, extra_args = None, ()
            if hist:
                # the dictionary object as it was handed in, after the earlier calls of its history (re-enacted on this table)
                from cij.io.traditional.elast_dat import apply_symetry_on_elast_data
                sym = copy.deepcopy(hist["initial"])
                if "drop_atol" in sym: extra_args = ("--drop-atol", repr(sym["drop_atol"]))
                for _ in range(int(hist["call"]) - 1):
                    prev = real_read_elast_text(case["text"], tmp, "fill_prev.dat")
                    try:
                        apply_symetry_on_elast_data(prev, sym)
                    except Exception:
                        pass
            out = run_cli(case["text"], case["system"], tmp, extra_args)
            return [OracleFailure(what=f"cij fill -s {case['system']}: {w}", input=payload, observed=o, expected=e)
                    for w, o, e in oracle_fill(case, out, tmp, sym)[:3]]
        if kind == "reread-elast":
            return [OracleFailure(what=f"read_elast_data history: {w}", input=payload, observed=o, expected=e)
                    for w, o, e in reread_elast_history(payload["system"], payload["text"], tmp, {"system": payload["system"]},
                                                        package_level=bool(payload.get("package_level")))[:3]]
        if kind == "reread-energy":
            bad, _ = reread_energy_history(payload["case1"], payload["case2"], tmp, package_level=bool(payload.get("package_level")))
            return [OracleFailure(what=f"write_energy/read_energy history: {w}", input=payload, observed=o, expected=e)
                    for w, o, e in bad[:3]]
        # variant texts carry no oracle (reader behaviour on malformed input is not part of the property)
        return []
    finally:
        shutil.rmtree(tmp, ignore_errors=True)
