"""Synthetic-but-physical cij data sets (input01 phonon file, static table, settings) written to real files.

Everything is derived from one numpy Generator, so a data set is reproducible from (seed, parameters).
The *generating laws are known analytically* (power-law frequencies, Birch–Murnaghan static energy,
power-law static moduli), which is what the independent oracles use.
"""
from __future__ import annotations

import os
from dataclasses import dataclass, field
from typing import Dict, List, Optional, Tuple

import numpy
import yaml

GPA_PER_RY_BOHR3 = 14710.507848260711   # only used to pick sensible magnitudes; never in an oracle

SYSTEM_INDEPENDENT = {
    # a sufficient set of independent components per system (standard setting used by cij/data/constraints)
    "triclinic": ["11", "12", "13", "14", "15", "16", "22", "23", "24", "25", "26", "33", "34", "35", "36",
                  "44", "45", "46", "55", "56", "66"],
    "monoclinic": ["11", "12", "13", "15", "22", "23", "25", "33", "35", "44", "46", "55", "66"],
    "orthorhombic": ["11", "12", "13", "22", "23", "33", "44", "55", "66"],
    "tetragonal7": ["11", "12", "13", "16", "33", "44", "66"],
    "tetragonal6": ["11", "12", "13", "33", "44", "66"],
    "trigonal7": ["11", "12", "13", "14", "15", "33", "44"],
    "trigonal6": ["11", "12", "13", "14", "33", "44"],
    "hexagonal": ["11", "12", "13", "33", "44"],
    "cubic": ["11", "12", "44"],
}


@dataclass
class DataSet:
    nv: int
    nq: int
    na: int
    volumes: numpy.ndarray            # bohr^3, decreasing
    energies: numpy.ndarray           # Ry
    pressures: numpy.ndarray          # GPa (informational column of input01)
    q_coords: numpy.ndarray           # (nq, 3)
    weights: numpy.ndarray            # (nq,)
    freqs: numpy.ndarray              # (nv, nq, np) cm^-1
    omega0: numpy.ndarray             # (nq, np) at volumes[0]
    gammas: numpy.ndarray             # (nq, np) power-law exponents: w = w0 (V/V0)^(-gamma)
    static_keys: List[str]            # e.g. ["11", "22", ...]
    static_table: numpy.ndarray       # (nv, nkeys) GPa
    vref: float
    cellmass: float
    lattice: Optional[numpy.ndarray]  # (nv, 3) or None
    settings: dict = field(default_factory=dict)
    nm: int = 1
    static_volumes: Optional[numpy.ndarray] = None   # volume column of the static table when it differs from the phonon file's

    @property
    def np_(self) -> int:
        return 3 * self.na


def birch_murnaghan_energy(v, v0, b0, bp, e0):
    x = (v0 / v) ** (2.0 / 3.0)
    return e0 + 9.0 * v0 * b0 / 16.0 * ((x - 1.0) ** 3 * bp + (x - 1.0) ** 2 * (6.0 - 4.0 * x))


def birch_murnaghan_pressure(v, v0, b0, bp):
    x = (v0 / v) ** (1.0 / 3.0)
    return 1.5 * b0 * (x ** 7 - x ** 5) * (1.0 + 0.75 * (bp - 4.0) * (x ** 2 - 1.0))


def make_dataset(rng: numpy.random.Generator, nv: int = 6, nq: int = 2, na: int = 2,
                 system: Optional[str] = None, keys: Optional[List[str]] = None, lattice: bool = False,
                 law: str = "power", settings: Optional[dict] = None, static_mesh: str = "same",
                 lattice_curvature: bool = False) -> DataSet:
    v0 = float(rng.uniform(400.0, 700.0))
    vols = v0 * numpy.linspace(1.06, 0.86, nv)            # decreasing, strictly
    b0 = float(rng.uniform(150.0, 260.0)) / GPA_PER_RY_BOHR3
    bp = float(rng.uniform(3.6, 4.6))
    e0 = float(rng.uniform(-300.0, -50.0))
    energies = birch_murnaghan_energy(vols, v0, b0, bp, e0)
    pressures = birch_murnaghan_pressure(vols, v0, b0, bp) * GPA_PER_RY_BOHR3
    np_ = 3 * na
    q_coords = numpy.zeros((nq, 3))
    if nq > 1:
        q_coords[1:] = rng.uniform(-0.5, 0.5, size=(nq - 1, 3)).round(4)
    weights = rng.integers(1, 9, size=nq).astype(float)
    if rng.random() < 0.5:
        weights = weights / weights.sum()                  # both normalised and unnormalised presentations
    weights = numpy.round(weights, 6)
    omega0 = rng.uniform(30.0, 1500.0, size=(nq, np_))
    omega0.sort(axis=1)
    gammas = rng.uniform(0.2, 2.5, size=(nq, np_))
    x = numpy.log(vols / vols[0])
    if law == "power":
        lnw = numpy.log(omega0)[None] - gammas[None] * x[:, None, None]
    elif law == "quadratic":
        g2 = rng.uniform(-1.0, 1.0, size=(nq, np_))
        lnw = numpy.log(omega0)[None] - gammas[None] * x[:, None, None] + g2[None] * x[:, None, None] ** 2
    elif law == "smooth":
        # not a low-order polynomial in ln V: node-based interpolants through different node subsets differ visibly
        g2 = rng.uniform(-1.0, 1.0, size=(nq, np_)); g3 = rng.uniform(-6.0, 6.0, size=(nq, np_))
        xx = x[:, None, None]
        lnw = numpy.log(omega0)[None] - gammas[None] * xx + g2[None] * xx ** 2 + g3[None] * xx ** 3 + 0.02 * numpy.sin(25.0 * xx)
    else:
        raise ValueError(law)
    freqs = numpy.exp(lnw)
    # Γ acoustic: exactly 0 or small negative noise, as in the shipped examples (qha treats ω <= 0 as absent;
    # a small *positive* value would enter qha's free energy with a huge, non-smooth ln(1-e^{-x}) term)
    freqs[:, 0, :3] = -rng.uniform(0.0, 0.2, size=(nv, 3)).round(4) if rng.random() < 0.5 else 0.0
    # static moduli (GPa), positive definite by construction: diagonally dominant orthotropic part + small couplings
    if keys is None:
        keys = list(SYSTEM_INDEPENDENT[system or "orthorhombic"])
    # the static table may be tabulated on its own volume mesh (same number of rows, different values)
    if static_mesh == "same":
        svols = vols
    elif static_mesh == "shifted":
        svols = vols * numpy.linspace(0.985, 1.02, nv) * (1.0 + 0.004 * numpy.cos(numpy.arange(nv)))
    else:
        # "fewer" / "more": the static table has its OWN number of rows N (elast.dat carries its own N and volume column): static
        # runs on a subset of the phonon volumes, or on a finer mesh; decreasing volumes inside (almost) the same range
        ns = max(4, nv - 2) if static_mesh == "fewer" else nv + 3
        if ns == nv: ns = nv + 1
        svols = numpy.linspace(vols[0] * 0.995, vols[-1] * 1.004, ns) * (1.0 + 0.003 * numpy.cos(numpy.arange(ns)))
    table = numpy.zeros((len(svols), len(keys)))
    for c, k in enumerate(keys):
        i, j = int(k[0]), int(k[1])
        if i == j and i <= 3: base = rng.uniform(350.0, 550.0)
        elif i == j: base = rng.uniform(90.0, 180.0)
        elif j <= 3: base = rng.uniform(80.0, 150.0)
        else: base = rng.uniform(-18.0, 18.0)
        expo = rng.uniform(1.5, 3.5)
        table[:, c] = base * (vols[0] / svols) ** expo
    lat = None
    if lattice:
        ax = rng.uniform(0.8, 3.0, size=3)
        ex = rng.dirichlet([8.0, 8.0, 8.0])               # a_i ~ V^{e_i}, sum e_i = 1
        lat = ax[None, :] * (svols[:, None] / vols[0]) ** ex[None, :]
        if lattice_curvature:
            # axis lengths that are NOT pure power laws of V (d ln a / d ln V varies along the table)
            cc = rng.uniform(-0.6, 0.6, size=3)
            lat = lat * numpy.exp(cc[None, :] * numpy.log(svols[:, None] / vols[0]) ** 2)
    st = {
        "qha": {"input": "input01", "settings": {"T_MIN": 0, "DT": 100, "NT": 6, "DT_SAMPLE": 100, "P_MIN": 0,
                                                  "DELTA_P": 1.0, "DELTA_P_SAMPLE": 1.0, "NTV": 16, "order": 3,
                                                  "static_only": False, "volume_ratio": 1.2}},
        "elast": {"input": "elast.dat", "settings": {"mode_gamma": {"interpolator": "lsq_poly", "order": 2}}},
        "output": {"pressure_base": ["cij", "bm_VRH", "G_VRH", "v", "vs", "vp"], "volume_base": ["p"]},
    }
    if system is not None:
        st["elast"]["settings"]["symmetry"] = {"system": system}
    if settings:
        _deep_update(st, settings)
    return DataSet(nv=nv, nq=nq, na=na, volumes=vols, energies=energies, pressures=pressures, q_coords=q_coords,
                   weights=weights, freqs=freqs, omega0=omega0, gammas=gammas, static_keys=keys, static_table=table,
                   vref=float(vols[1] if nv > 1 else vols[0]), cellmass=float(rng.uniform(80.0, 400.0)), lattice=lat,
                   settings=st, static_volumes=(None if static_mesh == "same" else svols))


def _deep_update(d, u):
    for k, v in u.items():
        if isinstance(v, dict) and isinstance(d.get(k), dict):
            _deep_update(d[k], v)
        else:
            d[k] = v


def write_input01(path: str, ds: DataSet, fmt: str = "%.10f", number=None):
    """Own writer (not cij's write_energy), in the layout of the shipped examples.  `number`: how a float is spelled (default
    `repr`, the shortest exact decimal); e.g. `lambda x: "%.16E" % x` for exponent notation — any spelling `float()` reads."""
    num = number if number is not None else repr
    with open(path, "w") as fp:
        fp.write(" synthetic\n generated by /verif/harness/synth.py\n nv nq np nm na:\n")
        fp.write("  %d  %d  %d  %d  %d\n\n" % (ds.nv, ds.nq, ds.np_, ds.nm, ds.na))
        for iv in range(ds.nv):
            fp.write(" P=  %s  V=  %s  E=  %s\n" % (num(float(ds.pressures[iv])), num(float(ds.volumes[iv])),
                                                    num(float(ds.energies[iv]))))
            for iq in range(ds.nq):
                fp.write("  " + "  ".join(num(float(c)) for c in ds.q_coords[iq]) + "\n")
                for m in range(ds.np_):
                    fp.write(" " + num(float(ds.freqs[iv, iq, m])) + "\n")
        fp.write("\n weight\n")
        for iq in range(ds.nq):
            fp.write("  " + "  ".join(num(float(c)) for c in ds.q_coords[iq]) + "  " + num(float(ds.weights[iq])) + "\n")


def write_elast(path: str, ds: DataSet, prefix: str = "c", upper: bool = False):
    with open(path, "w") as fp:
        fp.write("V_0 N cellmass synthetic\n")
        fp.write("%s %d %s\n" % (repr(ds.vref), len(ds.volumes if ds.static_volumes is None else ds.static_volumes), repr(ds.cellmass)))
        names = [(prefix + k).upper() if upper else prefix + k for k in ds.static_keys]
        fp.write("V " + " ".join(names) + "\n")
        sv = ds.volumes if ds.static_volumes is None else ds.static_volumes
        for iv in range(len(sv)):
            fp.write(repr(float(sv[iv])) + " " + " ".join(repr(float(x)) for x in ds.static_table[iv]) + "\n")
        if ds.lattice is not None:
            fp.write(" lattice_a lattice_b lattice_c\n")
            for iv in range(len(ds.lattice)):
                fp.write(" ".join(repr(float(x)) for x in ds.lattice[iv]) + "\n")


def write_all(dirname: str, ds: DataSet, settings_name: str = "settings.yaml") -> str:
    os.makedirs(dirname, exist_ok=True)
    write_input01(os.path.join(dirname, ds.settings["qha"]["input"]), ds)
    write_elast(os.path.join(dirname, ds.settings["elast"]["input"]), ds)
    p = os.path.join(dirname, settings_name)
    with open(p, "w") as fp:
        yaml.safe_dump(ds.settings, fp)
    return p
