"""Shared pieces of the C08 / C09 harnesses (fill_cij).

ORACLE side (independent of cij AND of the Lean model): explicit 3x3 rotation matrices of the nine Laue classes in
the standard setting (Rodrigues formula), rotation of the full 3x3x3x3 tensor with numpy einsum, the invariant
subspace as the null space of the stacked action matrices, its rationalised reduced basis and exact (sympy) rank
computations on that basis.  Nothing below reads cij/data/constraints/* except `file_rows` (used only to build
the exact expected least-squares residual of the relations *as packaged*, C09).

IMPLEMENTATION side: `run_impl` calls the real `cij.util.fill.fill_cij` on a pandas DataFrame.
MODEL side: `model_op` builds the wire op for the Lean model (`CijModel/Fill.lean`, exact over Rat).
"""
from __future__ import annotations

import itertools
import math
import os
import shutil
import tempfile
from fractions import Fraction
from typing import Dict, List, Optional, Sequence, Tuple

import numpy

from harness.common import REPO, enc, dec, f2b, family_close

SYSTEMS = ["triclinic", "monoclinic", "orthorhombic", "tetragonal7", "tetragonal6",
           "trigonal7", "trigonal6", "hexagonal", "cubic"]
PAIRS = [(i, j) for i in range(1, 7) for j in range(i, 7)]
SYMS = [f"c{i}{j}" for i, j in PAIRS]
VOIGT = {1: (0, 0), 2: (1, 1), 3: (2, 2), 4: (1, 2), 5: (0, 2), 6: (0, 1)}   # oracle's own copy of the documented map
EXPECTED_DIM = {"triclinic": 21, "monoclinic": 13, "orthorhombic": 9, "tetragonal7": 7, "tetragonal6": 6,
                "trigonal7": 7, "trigonal6": 6, "hexagonal": 5, "cubic": 3}   # textbook numbers of independent constants


# ----------------------------------------------------------------------------- rotations (oracle)
def rodrigues(axis, angle):
    a = numpy.asarray(axis, dtype=float)
    a = a / numpy.linalg.norm(a)
    K = numpy.array([[0, -a[2], a[1]], [a[2], 0, -a[0]], [-a[1], a[0], 0]])
    return numpy.eye(3) + math.sin(angle) * K + (1 - math.cos(angle)) * (K @ K)


X, Y, Z, D111 = (1, 0, 0), (0, 1, 0), (0, 0, 1), (1, 1, 1)
PI = math.pi
LAUE_ROTATIONS: Dict[str, List[Tuple[str, numpy.ndarray]]] = {
    "triclinic": [],
    "monoclinic": [("2y", rodrigues(Y, PI))],
    "orthorhombic": [("2x", rodrigues(X, PI)), ("2y", rodrigues(Y, PI)), ("2z", rodrigues(Z, PI))],
    "tetragonal7": [("4z", rodrigues(Z, PI / 2))],
    "tetragonal6": [("4z", rodrigues(Z, PI / 2)), ("2x", rodrigues(X, PI))],
    "trigonal7": [("3z", rodrigues(Z, 2 * PI / 3))],
    "trigonal6": [("3z", rodrigues(Z, 2 * PI / 3)), ("2x", rodrigues(X, PI))],
    "hexagonal": [("6z", rodrigues(Z, PI / 3)), ("2x", rodrigues(X, PI))],
    "cubic": [("4z", rodrigues(Z, PI / 2)), ("3[111]", rodrigues(D111, 2 * PI / 3))],
}


def full_tensor(c21: Sequence[float]) -> numpy.ndarray:
    """21 components (order SYMS) -> 3x3x3x3 tensor with minor and major symmetries."""
    T = numpy.zeros((3, 3, 3, 3))
    for (a, b), v in zip(PAIRS, c21):
        i, j = VOIGT[a]; k, l = VOIGT[b]
        for (p, q) in ((i, j), (j, i)):
            for (r, s) in ((k, l), (l, k)):
                T[p, q, r, s] = v
                T[r, s, p, q] = v
    return T


def comps_of(T: numpy.ndarray) -> numpy.ndarray:
    out = []
    for (a, b) in PAIRS:
        i, j = VOIGT[a]; k, l = VOIGT[b]
        out.append(T[i, j, k, l])
    return numpy.array(out)


def rotate_full(R: numpy.ndarray, T: numpy.ndarray) -> numpy.ndarray:
    return numpy.einsum("ip,jq,kr,ls,pqrs->ijkl", R, R, R, R, T)


def invariance_defect(system: str, c21: Sequence[float]) -> float:
    """max |rotate(R, T) - T| over the generators of the Laue class, on the full 3^4 tensor."""
    T = full_tensor(c21)
    d = 0.0
    for _, R in LAUE_ROTATIONS[system]:
        d = max(d, float(numpy.max(numpy.abs(rotate_full(R, T) - T))))
    return d


_BASIS: Dict[str, dict] = {}


def invariant_basis(system: str) -> dict:
    """Reduced basis of the invariant subspace: {'B': 21xk float, 'Bq': 21xk Fractions, 'pivots': [row indices],
    'nonzero': [component indices that are not identically zero], 'k': k}."""
    if system in _BASIS:
        return _BASIS[system]
    rows = []
    for _, R in LAUE_ROTATIONS[system]:
        M = numpy.zeros((21, 21))
        for b in range(21):
            e = numpy.zeros(21); e[b] = 1.0
            M[:, b] = comps_of(rotate_full(R, full_tensor(e)))
        rows.append(M - numpy.eye(21))
    if rows:
        A = numpy.vstack(rows)
        u, s, vt = numpy.linalg.svd(A)
        rank = int((s > 1e-9).sum())
        N = vt[rank:].T                       # 21 x k, orthonormal
    else:
        N = numpy.eye(21)
    k = N.shape[1]
    assert k == EXPECTED_DIM[system], (system, k)
    # reduced column echelon form: choose pivot rows greedily, normalise so that B[pivots] = identity
    piv = []
    for r in range(21):
        if len(piv) == k: break
        trial = piv + [r]
        if numpy.linalg.matrix_rank(N[trial, :], tol=1e-9) == len(trial):
            piv.append(r)
    B = N @ numpy.linalg.inv(N[piv, :])
    Bq = [[Fraction(float(x)).limit_denominator(64) for x in row] for row in B]
    Bf = numpy.array([[float(x) for x in row] for row in Bq])
    assert numpy.max(numpy.abs(Bf - B)) < 1e-9, "invariant basis is not rational with small denominators"
    for _, R in LAUE_ROTATIONS[system]:      # the rationalised basis is invariant
        for j in range(k):
            assert invariance_defect(system, Bf[:, j]) < 1e-12
    nonzero = [i for i in range(21) if any(x != 0 for x in Bq[i])]
    _BASIS[system] = {"B": Bf, "Bq": Bq, "pivots": piv, "nonzero": nonzero, "k": k}
    return _BASIS[system]


def sufficient(system: str, comps: Sequence[int]) -> bool:
    """Do the supplied components determine the invariant tensor?  Exact rank (sympy) of the basis rows."""
    import sympy
    info = invariant_basis(system)
    comps = sorted(set(comps))
    if len(comps) < info["k"]:
        return False
    M = sympy.Matrix([[sympy.Rational(x.numerator, x.denominator) for x in info["Bq"][i]] for i in comps])
    return M.rank() == info["k"]


def minimal_sufficient_subsets(system: str, limit: Optional[int] = None, rng=None) -> List[Tuple[int, ...]]:
    """All (or a random sample of) minimal sufficient subsets = k-subsets of the non-zero components whose basis
    rows have non-zero determinant (numerically, |det| > 1e-9; entries are small rationals)."""
    info = invariant_basis(system)
    k, nz, B = info["k"], info["nonzero"], info["B"]
    combos = numpy.array(list(itertools.combinations(nz, k)), dtype=int).reshape(-1, k)
    if len(combos) == 0:
        return [()] if k == 0 else []
    dets = numpy.linalg.det(B[combos, :]) if k > 0 else numpy.ones(len(combos))
    good = combos[numpy.abs(dets) > 1e-9]
    out = [tuple(int(x) for x in row) for row in good]
    if limit is not None and len(out) > limit and rng is not None:
        idx = rng.choice(len(out), size=limit, replace=False)
        out = [out[i] for i in sorted(idx)]
    return out


def random_invariant(system: str, nrows: int, rng, zero_one_row: bool = False) -> numpy.ndarray:
    """nrows x 21: random points of the invariant subspace; every non-zero component has |value| >= 1 at all rows.
    zero_one_row: additionally one independent component (and whatever is proportional to it) is EXACTLY 0 at one of the
    rows (a component that changes sign and is tabulated as 0.0 there) while being >= 1 in magnitude at the others."""
    info = invariant_basis(system)
    B = info["B"]
    for _ in range(200):
        coef = rng.uniform(20.0, 500.0, size=(nrows, info["k"])) * rng.choice([-1.0, 1.0], size=(1, info["k"]))
        coef = coef * (1.0 + 0.05 * numpy.arange(nrows)[:, None])      # smooth-ish volume dependence
        T = coef @ B.T
        if all(numpy.all(numpy.abs(T[:, i]) >= 1.0) for i in info["nonzero"]):
            if zero_one_row and nrows >= 2 and info["k"] >= 1:
                j = int(rng.integers(0, info["k"])); r = int(rng.integers(0, nrows))
                coef[r, j] = 0.0
                T = coef @ B.T
            return T
    raise RuntimeError("could not draw an invariant tensor away from zero")


# ----------------------------------------------------------------------------- implementation side
def make_frame(columns: Sequence[str], values: Sequence[Sequence[float]], int_cols: Sequence[str] = (), index_kind: str = "default"):
    """index_kind: 'default' (0..n-1) | 'reversed' (n-1..0) | 'offset' (7, 9, 11, ...) | 'float' (volume-like floats):
    the row LABELS of the frame; a table is the same table whatever its labels (rows are positions = volumes)."""
    import pandas
    data = {}
    for name, col in zip(columns, values):
        arr = numpy.array(col, dtype=float)
        if name in int_cols:
            arr = arr.astype(numpy.int64)
        data[name] = arr
    df = pandas.DataFrame(data, columns=list(columns))
    n = len(df)
    if index_kind == "reversed": df.index = list(range(n - 1, -1, -1))
    elif index_kind == "offset": df.index = [7 + 2 * i for i in range(n)]
    elif index_kind == "float": df.index = [100.5 - 3.25 * i for i in range(n)]
    return df


def classify(e: BaseException) -> str:
    if type(e) is Warning:
        msg = str(e)
        if msg.startswith("Rank of constraints"): return "refuse:rank"
        if msg.startswith("Residuals seems"): return "refuse:residual"
        return "refuse:other"
    return "error:" + type(e).__name__


def run_impl(columns, values, system, kw=None, int_cols=(), cwd_dir: Optional[str] = None, user_file: bool = False,
             index_kind: str = "default"):
    """Call the real fill_cij.  cwd_dir: run inside a fresh directory that contains a DIRECTORY of that name.
    user_file: `system` names a packaged system; a copy of its constraints file is written to a scratch path and
    that PATH is passed instead.  Returns {'status', 'columns', 'values'}."""
    from cij.util.fill import fill_cij
    kw = dict(kw or {})
    df = make_frame(columns, values, int_cols, index_kind)
    old = os.getcwd()
    tmp = None
    arg = system
    try:
        if cwd_dir is not None or user_file:
            tmp = tempfile.mkdtemp(prefix="cijfill_")
            if cwd_dir is not None:
                os.makedirs(os.path.join(tmp, cwd_dir))
                os.chdir(tmp)
            if user_file:
                src = os.path.join(REPO, "cij", "data", "constraints", system)
                # user_file=True: a file with a name of its own; user_file="dir/name": that relative path under the scratch
                # directory (e.g. a file NAMED like another packaged system inside a sub-directory) — the content is what counts
                if isinstance(user_file, str) and user_file.startswith("cwd:"):
                    # a file in the WORKING directory, passed by its bare name (e.g. "Cubic", "TETRAGONAL7": not a packaged name —
                    # names are case-sensitive — so it is the user's file)
                    arg = user_file[4:]
                    shutil.copyfile(src, os.path.join(tmp, arg))
                    os.chdir(tmp)
                else:
                    arg = os.path.join(tmp, "my_relations.txt" if user_file is True else user_file)
                    os.makedirs(os.path.dirname(arg), exist_ok=True)
                    shutil.copyfile(src, arg)
        try:
            out = fill_cij(df, arg, **kw)
        except BaseException as e:           # Warning is an Exception subclass; keep KeyboardInterrupt out
            if isinstance(e, (KeyboardInterrupt, SystemExit)): raise
            return {"status": classify(e), "detail": str(e)[:200]}
        return {"status": "ok", "columns": [str(c) for c in out.columns],
                "values": [out[c].to_numpy(dtype=float).tolist() for c in out.columns]}
    finally:
        os.chdir(old)
        if tmp: shutil.rmtree(tmp, ignore_errors=True)


# ----------------------------------------------------------------------------- model side
SITE_UNBOUND = "fill_cij:constraints-unbound-when-path-exists"     # repaired in /repo 380a118; kept for regressions


def model_op(columns, values, system, kw=None, exists: bool = False, user_rows=None, op: str = "c09.fill"):
    kw = kw or {}
    o = {"op": op, "columns": list(columns), "values": [enc(numpy.array(v, dtype=float)) for v in values],
         "system": system,
         "ignore_residuals": bool(kw.get("ignore_residuals", False)), "ignore_rank": bool(kw.get("ignore_rank", False)),
         "drop_atol": f2b(kw.get("drop_atol", 1e-8)), "residual_atol": f2b(kw.get("residual_atol", 0.1)),
         "exists": bool(exists)}
    if user_rows is not None:
        o["user_rows"] = [list(co) + [rhs, den] for co, rhs, den in user_rows]
    return o


def decode_model(r):
    if isinstance(r, dict) and r.get("status") == "ok":
        return {"status": "ok", "columns": r["columns"], "values": dec(r["values"])}
    return r


def table_scale(values) -> float:
    m = 0.0
    for col in values:
        for x in col:
            if math.isfinite(x): m = max(m, abs(x))
    return m or 1.0


def compare_outcomes(impl, model, rtol=1e-9):
    """(ok, note).  Column names and order must agree; values within rtol of the table's scale."""
    if impl["status"] != model["status"]:
        return False, f"status impl={impl['status']} model={model['status']}"
    if impl["status"] != "ok":
        return True, ""
    if impl["columns"] != model["columns"]:
        return False, f"columns impl={impl['columns']} model={model['columns']}"
    scale = max(table_scale(impl["values"]), table_scale(model["values"]))
    for name, a, b in zip(impl["columns"], impl["values"], model["values"]):
        ok, err, _ = family_close(a, b, rtol=rtol, scale=scale)
        if not ok:
            return False, f"column {name}: relative-to-scale error {err:.3g}"
    return True, ""


def as_map(outcome) -> Dict[str, List[float]]:
    """lower-cased name -> values (the 'same result as a map' view)."""
    return {n.lower(): v for n, v in zip(outcome["columns"], outcome["values"])}


# ----------------------------------------------------------------------------- relations as packaged (C09 only)
_FILE_ROWS: Dict[Tuple[str, str], list] = {}


def file_rows(system: str) -> List[Tuple[List[Fraction], Fraction]]:
    key = (REPO, system)
    if key not in _FILE_ROWS:
        _FILE_ROWS[key] = _file_rows(system)
    return _FILE_ROWS[key]


def _file_rows(system: str) -> List[Tuple[List[Fraction], Fraction]]:
    """Relation rows exactly as fill.py builds them (parts[0] - part, NOT multiplied through), via sympy —
    a parser independent of tools/gen_tables.py."""
    import sympy
    from sympy.parsing.sympy_parser import parse_expr
    syms = sympy.symbols(SYMS)
    path = os.path.join(REPO, "cij", "data", "constraints", system)
    rows = []
    with open(path) as fp:
        for line in fp:
            if not line.strip(): continue
            parts = [parse_expr(p) for p in line.split("=")]
            for part in parts[1:]:
                e = sympy.expand(parts[0] - part)
                co = [Fraction(int(sympy.Rational(e.coeff(s)).p), int(sympy.Rational(e.coeff(s)).q)) for s in syms]
                const = e.subs({s: 0 for s in syms})
                rows.append((co, Fraction(int(sympy.Rational(-const).p), int(sympy.Rational(-const).q))))
    return rows


def exact_joint_lsq(system: str, sel: Sequence[int], vals: Sequence[float]):
    """Exact (Fractions) least squares of [selectors; relations as packaged] for ONE volume row, by normal
    equations + Gauss-Jordan.  Returns (full_rank: bool, x or None, sum of squared residuals or None).
    Independent of numpy.linalg.lstsq and of the Lean model."""
    rows = [( [Fraction(1) if j == i else Fraction(0) for j in range(21)], Fraction(float(v)) ) for i, v in zip(sel, vals)]
    rows += file_rows(system)
    n = 21
    AtA = [[sum(r[0][i] * r[0][j] for r in rows) for j in range(n)] for i in range(n)]
    Atb = [sum(r[0][i] * r[1] for r in rows) for i in range(n)]
    M = [AtA[i] + [Atb[i]] for i in range(n)]
    r = 0
    for col in range(n):
        pr = next((i for i in range(r, n) if M[i][col] != 0), None)
        if pr is None:
            return False, None, None
        M[r], M[pr] = M[pr], M[r]
        inv = 1 / M[r][col]
        M[r] = [v * inv for v in M[r]]
        for i in range(n):
            if i != r and M[i][col] != 0:
                f = M[i][col]
                M[i] = [a - f * b for a, b in zip(M[i], M[r])]
        r += 1
    x = [M[i][n] for i in range(n)]
    ssq = sum((sum(a * b for a, b in zip(co, x)) - rhs) ** 2 for co, rhs in rows)
    return True, x, ssq
